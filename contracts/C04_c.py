"""C04, bounded run-time tier (tier C): each stored evaluation is the direct comparison of prediction and resampled data.

An OBSERVATIONAL MONITOR.  Every oracle builds its inputs deterministically from one JSON-able `case`, seeds numpy's global
generator, runs the REAL routine of `rsatoolbox.inference` with logging wrappers around the random steps (the three
`bootstrap_sample*` functions and the two fold generators `sets_k_fold` / `sets_random` as imported by `evaluate.py`) and
around every fitter (user-supplied spy fitters; the models' `default_fitter` attribute is wrapped), and then recomputes the
whole `Result` from the OBSERVED draws with a spec written from the property statement -- never with repo code:

  spec side   data = plain array D[rdm, pair]; a resample is a pair of lists (R, C) of source RDM rows and source conditions
              WITH multiplicity, derived from the logged descriptor values only: rows(R) = all RDMs whose group label equals
              each drawn label, conds(C) likewise; a fold of a resample keeps the drawn labels that the fold generator
              assigned to that side.  The vector of an RDM on C has one entry per position pair a<b with C[a] != C[b]
              (pairs of two copies of one condition are missing).  Predictions: fixed = its RDM, weighted = sum theta_i B_i,
              select = B_theta, interpolate = sum max(theta_i,0) B_i.  Similarities: cosine, Pearson, rho-a
              (12 sum r_x r_y/(n^3-n) - 3(n+1)/(n-1) with average ranks, counted explicitly).  Noise ceiling of a resample:
              upper = mean over RDM groups of the mean similarity of the group's RDMs with the pooled RDM of all, lower =
              the same with the pooled RDM of the OTHER groups (one group only: of all); cross-validated: per fold the test
              RDMs against the pooled ceiling RDMs at the test conditions (lower) and against the pooled RDM of the whole
              resample restricted to the test conditions (upper), averaged over folds.  Pooling: mean of the RDMs scaled to
              unit mean square (cosine), z-scored (corr), rank-transformed (rho-a).

Clause of the property -> oracle (one `Bounded` per routine family and clause; all of a family share one observed run;
 families: eval_fixed, eval_bootstrap_all3 = eval_bootstrap + eval_bootstrap_pattern + eval_bootstrap_rdm, crossval,
 bootstrap_crossval, eval_dual_bootstrap, eval_dual_bootstrap_random)
* "each stored evaluation equals the average similarity between the model's prediction -- at the supplied parameters, or at
  parameters fitted on that fold's training set only -- restricted to exactly the conditions of that resample or test fold,
  and the data RDMs of that resample or test fold; resamples too small to evaluate are marked NaN"
    -> `C04/<family>/evaluations`: every entry of `Result.evaluations` (shape included) against the recomputation; NaN exactly
       where the observed draw has fewer than 3 distinct condition units (bootstrap), fewer than k_rdm distinct RDM units /
       3*k_pattern distinct condition units (bootstrap-crossvalidation, dual bootstrap), not more than n_rdm / fewer than
       3+n_pattern (random folds), or a fold side without RDMs / with fewer than 3 DISTINCT conditions (every fold).  Fitted parameters:
       spy fitters return parameters that are an injective-in-practice function of everything they were shown (sorted data
       values, pattern_idx labels, method, pattern_descriptor, own identity) and the spec recomputes them from the spec
       TRAINING side only; for `fit_select` the spec recomputes the argmax of the spec score on the training side under the
       REQUESTED method; for the numerically optimising default fitters the logged return value is used.
* "parameters fitted on that fold's training set only" / "arguments seen by a user-supplied fitter callable"
    -> `C04/<family>/fitter-view`: one fitter call per usable fold and model, in fold order, fitter j for model j; the data
       object shown holds exactly the training RDMs x training conditions (ids with multiplicity and values), `pattern_idx`
       is exactly the multiset of drawn training labels, `method` and `pattern_descriptor` are the requested ones.
* "The reported noise ceilings are those of the same resamples"
    -> `C04/<family>/noise-ceiling`: `Result.noise_ceiling` (shape included) against the spec ceilings of the observed
       resamples / folds, NaN for unusable resamples; the fixed ceiling of the data when boot_noise_ceil=False / eval_fixed.
* "excluded from the variances ... the covariance is the sample covariance across resamples of the per-resample means (for
  fixed evaluation: across RDMs, divided by their number)"
    -> `C04/<family>/variances`: from the STORED evaluations and ceilings restricted to the resamples the SPEC calls usable:
       cov (n-1) of [model columns, lower, upper] (model columns only when the ceiling is not bootstrapped); with
       cross-validation of the means over folds and repetitions, and with use_correction the documented projection
       (n_cv*var_mean - var_1)/(n_cv-1), var_1 = mean over repetitions of the covariance of the per-repetition means;
       dual bootstrap: one such matrix for each of the three resamplings; eval_fixed: cov(ddof=0)/n_rdm, None for one RDM.
* "the degrees of freedom are the number of resampled units (descriptor groups of RDMs or of conditions) minus one, the
  smaller when both are resampled"
    -> `C04/<family>/dof` (eval_fixed: n_rdm - 1).
* "a rerun with the same random seed reproduces the result exactly"; "all sequences of random draws ... (observed)"
    -> `C04/<family>/reproducible`: second run without any wrapper under the same seed: evaluations, noise ceiling, variances,
       dof bit-identical; for the three plain bootstrap routines additionally the logged draws equal N calls of the PUBLIC
       `rsatoolbox.inference.bootstrap_sample*` after re-seeding; every logged draw has one label per descriptor group of the
       REQUESTED descriptor, taken from that descriptor's values; the fold generators were asked for the requested k / n and
       descriptors on the current resample.

Dimension sweeps (every routine family; own input classes, see SWEEP_KW / SHAPES; all clauses of the family apply to them)
* the FORM of the input does not matter to a statement about values, labels and resamples: dissimilarities of data and model
  RDMs stored as int64 / int32 / int16 / uint8 (integer-valued, tied) or float32 give the result of the same values as float64
  (float32: to single precision); data / predictions in units of 1e-26 .. 1e+12 (the three measures are invariant under
  positive scaling; the spec runs on the scaled values); descriptors handed over as tuple / ndarray / int16 or fixed-width-str
  ndarray; supplied theta as int64 / float32 arrays; one Model instead of a list.
* groupings: interleaved groups with first-appearance order != numeric order != string order, a negative label, unbalanced
  sizes; a single RDM (routines that do not resample RDMs) / a single RDM group (dof 0); 3 folds of 11 conditions and of
  5 RDMs (remainder 2), n_cv = 3; thorough: 8 RDMs x 14 conditions.
* call sequences, clause `reproducible`: (every case) the caller's data, descriptors, model RDMs and theta keep their content
  during the call, and the Result held by the caller is bit-identical after the routine was called again; (`seq` cases) the
  same routine is called on OTHER content of the same shape, model names and labels BEFORE the observed run (which the spec
  checks) and BETWEEN it and its rerun (which must still be bit-identical).

NOT covered by this tier
* inputs outside the bounded domains (<= 8 RDMs, <= 14 conditions, N <= 12 resamples, <= 4 models); comparison methods other
  than cosine / corr / rho-a (whitened, Kendall, Bures, Riemann); data with missing entries; sigma_k.
* vector-valued (2-D) descriptors and float-valued labels as bootstrap / fold groups (np.unique flattens them; the property does
  not say what a group is then); resampling the RDMs of a single RDM (degenerate; the routines raise ZeroDivisionError from the
  n/(n-1) factor of Result's derived variances).
* that the numerically optimising default fitters (`fit_optimize`, `fit_interpolate`) return the optimum (C08) -- their
  return value is observed and used; that the fold generators partition correctly (C05) and that a sample object holds the
  drawn rows (C09) -- only their consequences for the stored numbers are seen here.
* the statistical adequacy of the n_cv correction (only that it is the documented formula); `Result`'s derived
  model_var / diff_var / noise_ceil_var; `use_correction=True` with n_cv=1 (the routines raise by design).
* where the pooled upper-ceiling RDM of a cross-validated resample is normalised (whole resample, as documented in
  `cv_noise_ceiling`) is taken over, the clause checked being WHICH resample and folds the ceiling belongs to.
* `crossval` with ceil_set given on folds that are too small or that carry resampling multiplicity: `cv_noise_ceiling` has no
  notion of unusable folds and wants label lists without multiplicity, `crossval` wants them with multiplicity; inside the
  library that combination only arises through `_internal_cv` / `eval_dual_bootstrap_random`, where it is covered.
* cv_method / n_rdm / n_pattern bookkeeping of `Result` (not part of the statement; engine A checks the plumbing).

Known findings of the unchanged tree (details, reproductions and suggested repairs in C04_findings.md), by input_class:
* `eval_dual_bootstrap_random`, input_class `n_cv=2` (clause noise-ceiling): the (lower, upper) pair of a resample is broadcast
  along the repetition axis, so noise_ceiling[0] and noise_ceiling[1] are identical and both hold (lower, upper).
* `eval_dual_bootstrap_random`, input_class `n_cv!=2` and `n_cv=2,uncorrected` (reported under clause evaluations as the routine
  returns no Result): ValueError from the same broadcast for every n_cv != 2, and from np.concatenate of a 1-D with a 2-D array
  whenever use_correction=False.
* `crossval`, input_class `fold-lt3-distinct` (clauses evaluations, noise-ceiling, fitter-view): a test fold with >= 3
  conditions counting multiplicity but only 2 distinct ones is evaluated (cosine 1.0, rho-a 0.0, corr raises) instead of NaN;
  the same through `eval_dual_bootstrap_random(n_pattern=2)`, input_class `test-sets-lt3-conditions`.

Found by the dimension sweeps
* (repaired in /repo 6c46c3d0 while this sweep was written; the cases are registered as `dtype=uint8,cosine` / `dtype=int16,cosine`)
  `pool_rdm(method='cosine')` squared the dissimilarities in their own dtype: uint8 wrapped modulo 256 (silently wrong cosine
  noise ceilings), int16 overflowed to a negative mean square (NaN pooled RDM -> `ValueError: rdm1 and rdm2 have different nan
  positions`), wherever typed data were pooled without having passed through `subsample_pattern` (which makes them float).
Pending triage (registrations behind `if False:  # pending triage: <class>`)   [TRIAGED since: every class repaired in /repo, recorded as open finding, or dropped -- DESIGN.md 10.10]
* `single-rdm,pattern-bootstrap` (`eval_dual_bootstrap_random(boot_type='pattern')` on one RDM; reported under evaluations, no
  Result): the routine passes n_rdm=data.n_rdm to `Result` whatever is resampled; `_correct_1d` divides by n_rdm - 1 = 0.
"""
import contextlib
import inspect
import json
import traceback
import types
import warnings

import numpy as np

from vf.rt.harness import oracle, Bounded, replay_file  # noqa: F401  (replay_file re-exported for ./check --replay)

TOL = 1e-9
METHODS = ('cosine', 'corr', 'rho-a')
M_OFF = {'cosine': 0.0, 'corr': 0.37, 'rho-a': 0.71}
NOT_PASSED = '<not passed>'


# =====================================================================================================
# spec functions (from the property statement; no repo code)
# =====================================================================================================
def _pair_table(n):
    t = -np.ones((n, n), dtype=int)
    k = 0
    for a in range(n):
        for b in range(a + 1, n):
            t[a, b] = t[b, a] = k
            k += 1
    return t


def _members(labels, drawn):
    """source positions of all items whose label equals each drawn label, in draw order, with multiplicity"""
    out = []
    for v in drawn:
        out += [i for i, lab in enumerate(labels) if lab == v]
    return out


def _ranks(x):
    """average ranks by explicit counting"""
    x = np.asarray(x, dtype=float)
    return np.array([np.sum(x < xi) + (np.sum(x == xi) + 1) / 2.0 for xi in x])


def _sim(x, y, method):
    x = np.asarray(x, dtype=float)
    y = np.asarray(y, dtype=float)
    n = len(x)
    if n == 0:
        return float('nan')
    with np.errstate(all='ignore'):
        if method == 'cosine':
            return float(np.sum(x * y) / np.sqrt(np.sum(x * x) * np.sum(y * y)))
        if method == 'corr':
            xc, yc = x - np.sum(x) / n, y - np.sum(y) / n
            return float(np.sum(xc * yc) / np.sqrt(np.sum(xc * xc) * np.sum(yc * yc)))
        if method == 'rho-a':
            rx, ry = _ranks(x), _ranks(y)
            return float(12.0 * np.sum(rx * ry) / (n ** 3 - n) - 3.0 * (n + 1) / (n - 1))
    raise ValueError(method)


def _pool(X, method):
    """the single RDM best fitting the rows of X under the measure"""
    X = np.asarray(X, dtype=float)
    with np.errstate(all='ignore'):
        if method == 'cosine':
            Z = X / np.sqrt(np.mean(X ** 2, axis=1, keepdims=True))
        elif method == 'corr':
            Z = X - np.mean(X, axis=1, keepdims=True)
            Z = Z / np.sqrt(np.mean(Z ** 2, axis=1, keepdims=True))
        elif method == 'rho-a':
            Z = np.array([_ranks(r) for r in X])
        else:
            raise ValueError(method)
    return np.mean(Z, axis=0)


def _cov(X):
    """sample covariance (n-1) of the columns of X (rows = resamples)"""
    X = np.asarray(X, dtype=float)
    n = X.shape[0]
    mu = np.sum(X, axis=0) / n
    S = np.zeros((X.shape[1], X.shape[1]))
    for a in range(X.shape[1]):
        for b in range(X.shape[1]):
            S[a, b] = np.sum((X[:, a] - mu[a]) * (X[:, b] - mu[b])) / (n - 1)
    return S


_TOL_NOW = [TOL]       # tolerance of the case being observed (float32 input: the working precision of that input)


def _same_num(a, b, tol=None, rel=False):
    """None if equal (NaN == NaN) within tol, else a description"""
    if tol is None:
        tol = _TOL_NOW[0]
    a = np.asarray(a, dtype=float)
    b = np.asarray(b, dtype=float)
    if a.shape != b.shape:
        return f'shape {a.shape} instead of {b.shape}'
    if np.any(np.isposinf(b)):      # UNDEFINED in the spec (see World.undef): nothing is demanded of these entries
        a, b = np.where(np.isposinf(b), 0.0, a), np.where(np.isposinf(b), 0.0, b)
    na, nb = np.isnan(a), np.isnan(b)
    if not np.array_equal(na, nb):
        w = np.argwhere(na != nb)[0]
        return f'entry {tuple(int(i) for i in w)} is {a[tuple(w)]} but must be {b[tuple(w)]} (NaN marks differ at {int(np.sum(na != nb))} entries)'
    if na.all():
        return None
    scale = float(np.nanmax(np.abs(b))) if rel else 1.0
    d = np.where(na, 0.0, np.abs(a - b))
    # rel: used for (co)variances of similarity values (magnitude <= ~1, round-off 1e-16 each): covariance entries of
    # size ~1e-32 are squared round-off and differ between summation orders, so the relative scale has the floor 1e-22
    if np.max(d) > tol * max(scale, 1e-22 if rel else 1.0):
        w = np.unravel_index(int(np.argmax(d)), d.shape)
        return f'entry {tuple(int(i) for i in w)} is {float(a[w])!r} but must be {float(b[w])!r}'
    return None


def _bits_equal(a, b):
    if a is None or b is None:
        return a is None and b is None
    a, b = np.asarray(a), np.asarray(b)
    return a.shape == b.shape and a.dtype == b.dtype and a.tobytes() == b.tobytes()


def _lab_num(lab):
    return float(sum(ord(c) for c in lab)) if isinstance(lab, str) else float(lab)


def _plain(v):
    """descriptor value as a plain python int / str"""
    if isinstance(v, (str, np.str_)):
        return str(v)
    return int(v)


# =====================================================================================================
# the world of one case: plain arrays (spec side) and rsatoolbox objects (real side)
# =====================================================================================================
N_BASIS = {'fixed': 1, 'weighted': 2, 'select': 3, 'interpolate': 3}
INT_TYPES = ('int64', 'int32', 'int16', 'uint8')


class World:
    def __init__(self, case):
        from rsatoolbox.rdm import RDMs
        from rsatoolbox import model as M
        rs = np.random.RandomState(case['seed'])
        self.case = case
        self.n_rdm, self.n_cond = case['n_rdm'], case['n_cond']
        self.n_pair = self.n_cond * (self.n_cond - 1) // 2
        self.T = _pair_table(self.n_cond)
        self.rd = 'rg' if case.get('rg') else 'index'
        self.pd = 'pg' if case.get('pg') else 'index'
        self.rlab = list(case['rg']) if case.get('rg') else list(range(self.n_rdm))
        self.plab = list(case['pg']) if case.get('pg') else list(range(self.n_cond))
        self.rgroups = sorted(set(self.rlab), key=str)
        self.pgroups = sorted(set(self.plab), key=str)
        self.method = case['method']
        # integer-typed dissimilarities live on a coarse grid: on a fold with 3 pairs a vector can be constant, its correlation
        # (0/0) is not defined by the property.  The spec marks such values +inf = 'undefined, nothing demanded' (integer cases
        # only; for float data a NaN of the spec inside a usable resample stays a demand)
        self.undef = np.inf if case.get('dtype') in INT_TYPES else np.nan
        truth = rs.rand(self.n_pair) + 0.2
        D = truth[None] * (0.5 + rs.rand(self.n_rdm, 1)) + 0.6 * rs.rand(self.n_rdm, self.n_pair)
        # sweep dimensions (absent from a case = the plain float64 / list form):
        #   dtype: the dissimilarities of data and model RDMs are handed over in that dtype (integer types: integer-valued);
        #          the spec works on the SAME values as float64 -- the property speaks of values, not of storage types
        #   scale_data / scale_model: legitimate units (1e-26 .. 1e+12); the spec works on the scaled values
        #   container: list | tuple | ndarray | ndarray-small (int16 / fixed-width str) descriptors
        #   theta_dtype: supplied parameters as integer-valued int64 / as float32 arrays (spec: the same values)
        self.D, D_in = self._typed(D, case.get('scale_data', 1.0))
        pdesc = {'cid': list(range(self.n_cond))}
        rdesc = {'rid': list(range(self.n_rdm))}
        if case.get('pg'):
            pdesc['pg'] = list(self.plab)
        if case.get('rg'):
            rdesc['rg'] = list(self.rlab)
        self.pdesc = pdesc
        self.data = RDMs(D_in, rdm_descriptors={k: self._cont(v) for k, v in rdesc.items()},
                         pattern_descriptors={k: self._cont(v) for k, v in pdesc.items()})
        self.kinds = list(case['models'])
        self.B, self.models, self.theta = [], [], []
        for j, kind in enumerate(self.kinds):
            nb = N_BASIS[kind]
            if kind == 'select':
                # candidate 0 has the right shape at a wrong offset (best under corr / rho-a), candidate 1 a noisier shape
                # at the right offset (best under cosine): the optimum depends on the requested method
                B = np.array([0.5 * (truth - truth.mean()) + 6.0 + 0.02 * rs.rand(self.n_pair),
                              truth + 0.5 * rs.rand(self.n_pair), rs.rand(self.n_pair) + 0.2])
                B = B[rs.permutation(3)]
            else:
                B = truth[None] * rs.rand(nb, 1) + 0.7 * rs.rand(nb, self.n_pair) + 0.05
            B, B_in = self._typed(B, case.get('scale_model', 1.0))
            self.B.append(B)
            obj = RDMs(B_in, pattern_descriptors={k: self._cont(v) for k, v in pdesc.items()})
            name = 'model' if case.get('same_names') else f'm{j}{kind}'     # same_names: the entries of the model list share one name
            if kind == 'fixed':
                mdl, th = M.ModelFixed(name, obj), None
            elif kind == 'weighted':
                mdl, th = M.ModelWeighted(name, obj), (rs.rand(nb) + 0.1)
            elif kind == 'select':
                mdl, th = M.ModelSelect(name, obj), int(rs.randint(nb))
            else:
                mdl = M.ModelInterpolate(name, obj)
                th = np.zeros(nb)
                i, w = int(rs.randint(nb - 1)), float(rs.rand())
                th[i], th[i + 1] = w, 1 - w
            td = case.get('theta_dtype')
            if td and th is not None:
                if kind == 'select':
                    th = np.int64(th) if td == 'int' else th
                elif td == 'int':
                    th = np.round(th * (3 if kind == 'weighted' else 1) + (1 if kind == 'weighted' else 0)).astype(np.int64)
                else:
                    th = th.astype(td)
            self.models.append(mdl)
            self.theta.append(th)
        self.kind_of = {m.name: k for m, k in zip(self.models, self.kinds)}
        self.index_of = {m.name: j for j, m in enumerate(self.models)}

    def _typed(self, A, scale):
        """(values as float64 for the spec, array handed to the library) of the generated dissimilarities A"""
        dt = self.case.get('dtype')
        if dt in INT_TYPES:
            q = np.round(A * (30.0 if dt == 'uint8' else 1000.0)) + 1.0     # uint8: 1 .. ~200, else 1 .. ~7000 (fits int16)
            assert float(np.max(q)) <= (255.0 if dt == 'uint8' else 32767.0)
            real = q.astype(dt)
        elif dt:
            real = (A * scale).astype(dt)
        else:
            real = A * scale
        return real.astype(np.float64), real.copy()

    def _cont(self, vals):
        c = self.case.get('container', 'list')
        if c == 'tuple':
            return tuple(vals)
        if c == 'ndarray':
            return np.array(list(vals))
        if c == 'ndarray-small':
            return np.array(list(vals)) if isinstance(vals[0], str) else np.array(list(vals), dtype=np.int16)
        return list(vals)

    @property
    def marg(self):
        """the `models` argument: the list, or the single model itself (bare_model)"""
        return self.models[0] if self.case.get('bare_model') else self.models

    def snapshot(self):
        """content of everything the caller hands to a routine (values, not container types)"""
        def desc(d):
            return {k: [_plain(x) for x in v] for k, v in d.items()}

        def arr(a):
            a = np.asarray(a)
            return (str(a.dtype), a.shape, a.tobytes())
        out = {'data': arr(self.data.dissimilarities), 'data.rdm_descriptors': desc(self.data.rdm_descriptors),
               'data.pattern_descriptors': desc(self.data.pattern_descriptors)}
        for j, m in enumerate(self.models):
            out[f'model {j} name'] = m.name
            for a in ('rdm', 'w', 'bounds'):
                if isinstance(getattr(m, a, None), np.ndarray):
                    out[f'model {j} .{a}'] = arr(getattr(m, a))
            if getattr(m, 'rdm_obj', None) is not None:
                out[f'model {j} .rdm_obj.dissimilarities'] = arr(m.rdm_obj.dissimilarities)
                out[f'model {j} .rdm_obj.pattern_descriptors'] = desc(m.rdm_obj.pattern_descriptors)
            out[f'theta {j}'] = None if self.theta[j] is None else arr(self.theta[j])
        return out

    # ---- spec primitives ------------------------------------------------------------------------------
    def pairs(self, C):
        """source pair index of every position pair a<b of the condition list C with two different conditions"""
        return np.array([self.T[C[a], C[b]] for a in range(len(C)) for b in range(a + 1, len(C)) if C[a] != C[b]], dtype=int)

    def pred(self, j, theta):
        kind, B = self.kinds[j], self.B[j]
        if kind == 'fixed':
            return B[0]
        if kind == 'select':
            return B[int(theta)]
        th = np.asarray(theta, dtype=float).reshape(-1)
        if kind == 'interpolate':
            th = np.maximum(th, 0)
        return np.sum(th[:, None] * B, axis=0)

    def evaluate(self, predvec, R, C):
        idx = self.pairs(C)
        if len(R) == 0:
            return float('nan')
        return self._def(np.mean([_sim(predvec[idx], self.D[r, idx], self.method) for r in R]))

    def _def(self, v):
        v = float(v)
        return self.undef if np.isnan(v) else v

    def boot_nc(self, R, C, by_group=True):
        """(lower, upper) of the resample (R, C); RDM groups = labels of the requested descriptor (else every RDM alone)"""
        idx = self.pairs(C)
        X = self.D[R][:, idx]
        labs = [self.rlab[r] if by_group else r for r in R]
        groups = []
        for g in labs:
            if g not in groups:
                groups.append(g)
        allp = _pool(X, self.method)
        lo, hi = [], []
        for g in groups:
            te = [k for k, lab in enumerate(labs) if lab == g]
            tr = [k for k, lab in enumerate(labs) if lab != g] if len(groups) > 1 else te
            trp = _pool(X[tr], self.method)
            lo.append(np.mean([_sim(trp, X[k], self.method) for k in te]))
            hi.append(np.mean([_sim(allp, X[k], self.method) for k in te]))
        return self._def(np.mean(lo)), self._def(np.mean(hi))

    def cv_nc(self, R_all, C_all, folds):
        """folds: dicts with R_te, C_te, R_ce"""
        idx_all = self.pairs(C_all)
        full = np.full(self.n_pair, np.nan)
        full[idx_all] = _pool(self.D[R_all][:, idx_all], self.method)
        lo, hi = [], []
        for f in folds:
            idx = self.pairs(f['C_te'])
            cep = _pool(self.D[f['R_ce']][:, idx], self.method)
            lo.append(np.mean([_sim(cep, self.D[r, idx], self.method) for r in f['R_te']]))
            hi.append(np.mean([_sim(full[idx], self.D[r, idx], self.method) for r in f['R_te']]))
        return self._def(np.mean(lo)), self._def(np.mean(hi))

    def obj(self, R, C):
        """an RDMs object holding the resample (R, C), built with the constructor from the spec arrays (an INPUT)"""
        from rsatoolbox.rdm import RDMs
        C = sorted(C)       # source order, as every selection made by RDMs.subset_pattern / subsample_pattern
        n = len(C)
        mats = np.full((len(R), n, n), np.nan)
        for k, r in enumerate(R):
            for a in range(n):
                for b in range(n):
                    mats[k, a, b] = 0.0 if a == b else (self.D[r, self.T[C[a], C[b]]] if C[a] != C[b] else np.nan)
        iu = np.triu_indices(n, 1)
        vec = mats[:, iu[0], iu[1]] if len(R) else np.zeros((0, len(iu[0])))
        rdesc = {'rid': list(R), 'index': list(R)}
        if 'rg' in self.data.rdm_descriptors:
            rdesc['rg'] = [self.rlab[r] for r in R]
        pdesc = {k: [v[c] for c in C] for k, v in self.pdesc.items()}
        pdesc['index'] = list(C)
        if len(C) and len(R):
            rdesc, pdesc = {k: self._cont(v) for k, v in rdesc.items()}, {k: self._cont(v) for k, v in pdesc.items()}
        return RDMs(vec, rdm_descriptors=rdesc, pattern_descriptors=pdesc)


# ---- spy fitters: the parameters are a function of everything the fitter is shown -------------------------
def _spy_theta(kind, nb, vals_sorted, labels, method, pd, salt):
    s = float(np.sum(np.asarray(vals_sorted, dtype=float)))
    lsum = sum(sorted(_lab_num(v) for v in labels))
    u = 0.7310 * s + 0.0137 * lsum + M_OFF.get(method, 0.93) + 0.29 * salt + 0.011 * len(str(pd)) + 0.0071 * len(vals_sorted)
    if kind == 'fixed':
        return np.zeros(0)
    if kind == 'select':
        return int(u * 1000) % nb
    if kind == 'weighted':
        return np.array([0.2 + ((u * (i + 1) * 1.618) % 1.0) for i in range(nb)])
    th = np.zeros(nb)
    i, w = int(u * 1000) % (nb - 1), (u * 7.77) % 1.0
    th[i], th[i + 1] = w, 1 - w
    return th


def _ids(obj):
    return ([int(x) for x in obj.rdm_descriptors['rid']], [int(x) for x in obj.pattern_descriptors['cid']])


def _view(model, data, args, kw, theta, who):
    v = data.get_vectors()
    rid, cid = _ids(data)
    pidx = kw.get('pattern_idx', NOT_PASSED)
    return dict(who=who, model=model.name, rid=rid, cid=cid, vals=np.sort(np.asarray(v)[~np.isnan(v)]),
                method=kw.get('method', NOT_PASSED), pd=kw.get('pattern_descriptor', NOT_PASSED),
                pattern_idx=(pidx if isinstance(pidx, str) else [_plain(x) for x in pidx]), n_pos=len(args),
                extra=sorted(k for k in kw if k not in ('method', 'pattern_idx', 'pattern_descriptor')), theta=theta)


def _mk_spy(W, salt, flog):
    def spy_fitter(model, data, *args, **kw):
        v = data.get_vectors()
        vals = np.sort(np.asarray(v)[~np.isnan(v)])
        pidx = kw.get('pattern_idx')
        theta = _spy_theta(W.kind_of[model.name], N_BASIS[W.kind_of[model.name]], vals, [] if pidx is None else [_plain(x) for x in pidx],
                           kw.get('method', NOT_PASSED), kw.get('pattern_descriptor', NOT_PASSED), salt)
        flog.append(_view(model, data, args, kw, theta, f'spy{salt}'))
        return theta
    spy_fitter.salt = salt
    return spy_fitter


def _wrap_default(model, flog):
    orig = model.default_fitter

    def logged_default(mdl, data, *args, **kw):
        theta = orig(mdl, data, *args, **kw)
        flog.append(_view(mdl, data, args, kw, np.array(theta, copy=True), 'default'))
        return theta
    model.default_fitter = logged_default
    return orig


def _fitters(W, mode, flog):
    """(argument for the routine, per-model description 'default' | salt)"""
    m = len(W.models)
    if mode == 'none':
        return None, ['default'] * m
    if mode == 'callable':
        return _mk_spy(W, 0, flog), [0] * m
    lst, desc = [], []
    for j in range(m):
        if j % 3 == 1:
            lst.append(None)
            desc.append('default')
        else:
            lst.append(_mk_spy(W, j + 1, flog))
            desc.append(j + 1)
    return lst, desc


# ---- logging wrappers around the random steps -------------------------------------------------------
class Log:
    def __init__(self):
        self.draws, self.folds, self.fits = [], [], []


@contextlib.contextmanager
def _patched(log=None):
    """silence the progress bars; with a log: record every draw / fold assignment made inside evaluate.py"""
    import rsatoolbox.inference.evaluate as ev
    saved = {n: getattr(ev, n) for n in ('tqdm', 'bootstrap_sample', 'bootstrap_sample_rdm', 'bootstrap_sample_pattern',
                                          'sets_k_fold', 'sets_random')}
    ev.tqdm = types.SimpleNamespace(trange=lambda n, *a, **k: range(n))

    def wrap_draw(name, fn):
        sig = inspect.signature(fn)

        def w(*a, **k):
            ba = sig.bind(*a, **k)
            ba.apply_defaults()
            out = fn(*a, **k)
            e = dict(fn=name, rd=ba.arguments.get('rdm_descriptor'), pd=ba.arguments.get('pattern_descriptor'),
                     src=_ids(ba.arguments['rdms']), out=_ids(out[0]), rdm_idx=None, pattern_idx=None)
            if name == 'bootstrap_sample':
                e['rdm_idx'], e['pattern_idx'] = [_plain(x) for x in out[1]], [_plain(x) for x in out[2]]
            elif name == 'bootstrap_sample_rdm':
                e['rdm_idx'] = [_plain(x) for x in out[1]]
            else:
                e['pattern_idx'] = [_plain(x) for x in out[1]]
            log.draws.append(e)
            return out
        return w

    def wrap_folds(name, fn):
        sig = inspect.signature(fn)

        def w(*a, **k):
            ba = sig.bind(*a, **k)
            ba.apply_defaults()
            tr, te, ce = fn(*a, **k)
            rd = ba.arguments['rdm_descriptor']
            fl = []
            for f in range(len(te)):
                fl.append(dict(te_rg=sorted(set(_plain(x) for x in te[f][0].rdm_descriptors[rd]), key=str),
                               tr_rg=sorted(set(_plain(x) for x in tr[f][0].rdm_descriptors[rd]), key=str),
                               ce_rg=None if ce is None else sorted(set(_plain(x) for x in ce[f][0].rdm_descriptors[rd]), key=str),
                               te_pv=[_plain(x) for x in te[f][1]], tr_pv=[_plain(x) for x in tr[f][1]]))
            args = {k_: v for k_, v in ba.arguments.items() if k_ != 'rdms'}
            log.folds.append(dict(fn=name, args=args, src=_ids(ba.arguments['rdms']), n_train=len(tr), folds=fl))
            return tr, te, ce
        return w
    if log is not None:
        for n in ('bootstrap_sample', 'bootstrap_sample_rdm', 'bootstrap_sample_pattern'):
            setattr(ev, n, wrap_draw(n, saved[n]))
        for n in ('sets_k_fold', 'sets_random'):
            setattr(ev, n, wrap_folds(n, saved[n]))
    try:
        with warnings.catch_warnings():
            warnings.simplefilter('ignore')
            yield
    finally:
        for n, v in saved.items():
            setattr(ev, n, v)


# =====================================================================================================
# observation of one case (shared by the clause oracles of a family)
# =====================================================================================================
class Obs:
    """what was observed and what the spec expects; `problems[clause]` = list of differences"""
    def __init__(self):
        self.problems = {c: [] for c in ('evaluations', 'noise-ceiling', 'variances', 'dof', 'fitter-view', 'reproducible')}
        self.nan_rows = 0
        self.ok_rows = 0

    def add(self, clause, msg):
        if len(self.problems[clause]) < 4:
            self.problems[clause].append(msg)


_MEMO = {}


def observe(case):
    key = json.dumps(case, sort_keys=True)
    if key not in _MEMO:
        _MEMO.clear()
        state = np.random.get_state()
        # float32 dissimilarities: similarities are computed (and rho-a values stored) in single precision
        _TOL_NOW[0] = 5e-6 if case.get('dtype') == 'float32' else TOL
        try:
            _MEMO[key] = FAMILIES[case['routine']](case)
        except Exception as e:      # the routine (or the monitor) broke down: reported once, under the first clause
            o = Obs()
            tb = traceback.format_exc().strip().split('\n')[-7:]
            o.add('evaluations', f'exception {type(e).__name__}: {e} | ' + ' / '.join(t.strip() for t in tb))
            _MEMO[key] = o
        finally:
            np.random.set_state(state)
    return _MEMO[key]


def _run_twice(W, call, o, fit_mode='none'):
    """first run with all wrappers (-> log), second run bare under the same seed"""
    log = Log()
    scratch = []

    def on_other_content(np_seed):
        """call sequence: the same routine on OTHER content of the same shape, model names and descriptors (anything remembered
        per shape / name / label instead of per content shows up in the observed run after it, or in the rerun)"""
        W2 = World(dict(W.case, seed=W.case['seed'] + 4099))
        mine, other = dict(W.__dict__), dict(W2.__dict__)
        fit_other, _ = _fitters(W2, fit_mode, scratch)
        try:
            W.__dict__.clear()
            W.__dict__.update(other)        # the routine closures read W.data / W.models / W.D at call time
            np.random.seed(np_seed)
            with _patched(None):
                return call(fit_other)
        finally:
            W.__dict__.clear()
            W.__dict__.update(mine)
    if W.case.get('seq'):
        on_other_content(W.case['np_seed'] + 2)     # BEFORE the observed run (which the spec checks)
    before = W.snapshot()
    origs = [(m, _wrap_default(m, log.fits)) for m in W.models]
    fit_arg, fit_desc = _fitters(W, fit_mode, log.fits)
    try:
        np.random.seed(W.case['np_seed'])
        with _patched(log):
            res = call(fit_arg)
    finally:
        for m, orig in origs:
            m.default_fitter = orig
    # the caller's objects are what the stored numbers are about, and what a rerun is a rerun ON: they keep their content
    after = W.snapshot()
    for k in before:
        if before[k] != after.get(k):
            o.add('reproducible', f'the call changed its input: {k} differs after the call'
                                  + (f' (dtype/shape {before[k][:2]} -> {after[k][:2]})' if isinstance(before[k], tuple) else ''))
    held = {n: (None if getattr(res, n) is None else np.array(getattr(res, n), copy=True)) for n in ('evaluations', 'noise_ceiling', 'variances')}
    if W.case.get('seq'):
        res_between = on_other_content(W.case['np_seed'] + 1)       # BETWEEN the observed run and its rerun
        for name in ('evaluations', 'noise_ceiling', 'variances'):      # checked NOW: the rerun below would restore the values
            if not _bits_equal(getattr(res, name), held[name]):
                o.add('reproducible', f'{name} of the Result held by the caller changed when the routine was called on other data')
        if _bits_equal(res_between.evaluations, held['evaluations']) and np.any(np.isfinite(np.asarray(held['evaluations'], dtype=float))):
            o.add('reproducible', 'a call on other data and models of the same shape (other seed) returned bit-identical evaluations')
    fit_arg2, _ = _fitters(W, fit_mode, scratch)
    np.random.seed(W.case['np_seed'])
    with _patched(None):
        res2 = call(fit_arg2)
    for name in ('evaluations', 'noise_ceiling', 'variances'):
        if not _bits_equal(getattr(res, name), getattr(res2, name)):
            o.add('reproducible', f'{name} of a rerun with the same seed is not bit-identical'
                                  + (' (after a call on other data of the same shape in between)' if W.case.get('seq') else ''))
        if not _bits_equal(getattr(res, name), held[name]):
            o.add('reproducible', f'{name} of the Result held by the caller changed when the routine was called again')
    if res.dof != res2.dof:
        o.add('reproducible', f'dof {res.dof} vs {res2.dof} in a rerun with the same seed')
    return res, log, fit_desc


def _check_draw(W, o, e, i, want_fn, resample_r, resample_p):
    """the i-th logged draw is a draw of the requested descriptors over the full data"""
    if e['fn'] != want_fn:
        o.add('reproducible', f'draw {i} was made by {e["fn"]}, the routine resamples with {want_fn}')
    if sorted(e['src'][0]) != list(range(W.n_rdm)) or sorted(e['src'][1]) != list(range(W.n_cond)):
        o.add('reproducible', f'draw {i} resampled an object with RDMs {e["src"][0]} / conditions {e["src"][1]}, not the data')
    if resample_r:
        if e['rd'] != W.rd:
            o.add('reproducible', f'draw {i} grouped RDMs by {e["rd"]!r}, requested {W.rd!r}')
        if len(e['rdm_idx']) != len(W.rgroups) or any(v not in W.rgroups for v in e['rdm_idx']):
            o.add('reproducible', f'draw {i}: RDM labels {e["rdm_idx"]} are not {len(W.rgroups)} values of the groups {W.rgroups}')
    if resample_p:
        if e['pd'] != W.pd:
            o.add('reproducible', f'draw {i} grouped conditions by {e["pd"]!r}, requested {W.pd!r}')
        if len(e['pattern_idx']) != len(W.pgroups) or any(v not in W.pgroups for v in e['pattern_idx']):
            o.add('reproducible', f'draw {i}: condition labels {e["pattern_idx"]} are not {len(W.pgroups)} values of the groups {W.pgroups}')


def _resample(W, e, resample_r, resample_p):
    """(rdm labels, condition labels, R, C) of a logged draw; an unresampled factor keeps every group once"""
    rl = list(e['rdm_idx']) if resample_r else list(W.rgroups)
    pl = list(e['pattern_idx']) if resample_p else list(W.pgroups)
    return rl, pl, _members(W.rlab, rl), _members(W.plab, pl)


def _want_dof(W, resample_r, resample_p):
    c = []
    if resample_r:
        c.append(len(W.rgroups) - 1)
    if resample_p:
        c.append(len(W.pgroups) - 1)
    return min(c)


def _check_meta(W, o, res, shape):
    ev = np.asarray(res.evaluations)
    if ev.shape != tuple(shape):
        o.add('evaluations', f'evaluations have shape {ev.shape}, must be {tuple(shape)}')
        return False
    if list(res.models) != list(W.models) or res.method != W.method:
        o.add('evaluations', 'Result.models / Result.method are not the evaluated models / requested method')
    return True


# ---- eval_fixed ------------------------------------------------------------------------------------------
def fam_fixed(case):
    from rsatoolbox.inference import eval_fixed
    W, o = World(case), Obs()
    theta = None if case.get('theta_none') else list(W.theta)
    res, log, _ = _run_twice(W, lambda fit: eval_fixed(W.marg, W.data, theta=theta, method=W.method), o)
    m = len(W.models)
    allR, allC = list(range(W.n_rdm)), list(range(W.n_cond))
    idx = W.pairs(allC)
    if _check_meta(W, o, res, (1, m, W.n_rdm)):
        exp = np.array([[_sim(W.pred(j, W.theta[j])[idx], W.D[r, idx], W.method) for r in allR] for j in range(m)])[None]
        d = _same_num(res.evaluations, exp)
        if d:
            o.add('evaluations', f'evaluations[0, model, rdm]: {d}')
        nc = W.boot_nc(allR, allC, by_group=False)
        d = _same_num(res.noise_ceiling, np.array(nc))
        if d:
            o.add('noise-ceiling', f'noise ceiling of the data (every RDM its own group): {d}')
        if W.n_rdm > 1:
            X = np.asarray(res.evaluations)[0].T            # rows = RDMs
            want = _cov(X) * (W.n_rdm - 1) / W.n_rdm / W.n_rdm
            d = _same_num(np.atleast_2d(res.variances), want, rel=True) if res.variances is not None else 'variances are None'
            if d:
                o.add('variances', f'covariance across RDMs (ddof=0) divided by their number: {d}')
        elif res.variances is not None:
            o.add('variances', f'a single RDM has no covariance across RDMs, got {res.variances}')
    if res.dof != W.n_rdm - 1:
        o.add('dof', f'dof is {res.dof}, number of RDMs - 1 = {W.n_rdm - 1}')
    if log.draws or log.folds:
        o.add('reproducible', 'eval_fixed made random draws')
    o.ok_rows = W.n_rdm
    return o


# ---- eval_bootstrap, eval_bootstrap_pattern, eval_bootstrap_rdm --------------------------------------------
BOOT = {'eval_bootstrap': ('bootstrap_sample', True, True), 'eval_bootstrap_pattern': ('bootstrap_sample_pattern', False, True),
        'eval_bootstrap_rdm': ('bootstrap_sample_rdm', True, False)}


def fam_boot(case):
    import rsatoolbox.inference as inf
    W, o = World(case), Obs()
    fn = case['routine']
    sampler, rr, rp = BOOT[fn]
    N, bnc = case['N'], case['boot_noise_ceil']
    theta = None if case.get('theta_none') else list(W.theta)
    kw = dict(theta=theta, method=W.method, N=N, rdm_descriptor=W.rd, boot_noise_ceil=bnc)
    if rp:
        kw['pattern_descriptor'] = W.pd
    res, log, _ = _run_twice(W, lambda fit: getattr(inf, fn)(W.marg, W.data, **kw), o)
    m = len(W.models)
    if len(log.draws) != N or log.folds:
        o.add('reproducible', f'{len(log.draws)} draws and {len(log.folds)} fold assignments were made for N={N} resamples')
        return o
    # the same draws come out of the public samplers after re-seeding
    np.random.seed(case['np_seed'])
    for i in range(N):
        if fn == 'eval_bootstrap':
            out = inf.bootstrap_sample(W.data, rdm_descriptor=W.rd, pattern_descriptor=W.pd)
            again = ([_plain(x) for x in out[1]], [_plain(x) for x in out[2]])
        elif fn == 'eval_bootstrap_pattern':
            again = (None, [_plain(x) for x in inf.bootstrap_sample_pattern(W.data, W.pd)[1]])
        else:
            again = ([_plain(x) for x in inf.bootstrap_sample_rdm(W.data, W.rd)[1]], None)
        if again != (log.draws[i]['rdm_idx'], log.draws[i]['pattern_idx']):
            o.add('reproducible', f'draw {i} inside the routine was {(log.draws[i]["rdm_idx"], log.draws[i]["pattern_idx"])}, '
                                  f'replaying the public {sampler} under the same seed gives {again}')
    if not _check_meta(W, o, res, (N, m)):
        return o
    exp = np.full((N, m), np.nan)
    exp_nc = np.full((2, N), np.nan)
    usable = np.zeros(N, dtype=bool)
    preds = [W.pred(j, W.theta[j]) for j in range(m)]
    for i, e in enumerate(log.draws):
        _check_draw(W, o, e, i, sampler, rr, rp)
        rl, pl, R, C = _resample(W, e, rr, rp)
        usable[i] = (not rp) or len(set(pl)) >= 3
        if usable[i]:
            for j in range(m):
                exp[i, j] = W.evaluate(preds[j], R, C)
            if bnc:
                exp_nc[:, i] = W.boot_nc(R, C)
    o.nan_rows, o.ok_rows = int(np.sum(~usable)), int(np.sum(usable))
    d = _same_num(res.evaluations, exp)
    if d:
        o.add('evaluations', f'evaluations[resample, model]: {d}; draws {[(e["rdm_idx"], e["pattern_idx"]) for e in log.draws][:3]}...')
    if not bnc:
        exp_nc = np.array(W.boot_nc(list(range(W.n_rdm)), list(range(W.n_cond))))
    d = _same_num(res.noise_ceiling, exp_nc)
    if d:
        o.add('noise-ceiling', f'noise_ceiling[bound{", resample" if bnc else ""}]: {d}')
    if np.shape(res.noise_ceiling) == exp_nc.shape and o.ok_rows >= 2:
        X = np.asarray(res.evaluations)[usable]
        if bnc:
            X = np.concatenate([X, np.asarray(res.noise_ceiling)[:, usable].T], axis=1)
        d = 'variances are None' if res.variances is None else _same_num(np.atleast_2d(res.variances), _cov(X), rel=True)
        if d:
            o.add('variances', f'covariance over the {o.ok_rows} usable of {N} resamples: {d}')
    if res.dof != _want_dof(W, rr, rp):
        o.add('dof', f'dof is {res.dof}; resampled groups: RDMs {len(W.rgroups) if rr else "-"}, conditions '
                     f'{len(W.pgroups) if rp else "-"} -> {_want_dof(W, rr, rp)}')
    return o


# ---- folds: shared by crossval and the bootstrap-wrapped cross-validations ------------------------------------
def _sides_disjoint(o, sides, cv_r, cv_p, where):
    """"fitted on that fold's training set only": along every cross-validated factor the library's own fold generator must
    keep the test groups out of the training side (stated independently of the generator's output)"""
    for f, s in enumerate(sides):
        if cv_p and set(s['L_te']) & set(s['L_tr']):
            o.add('fitter-view', f'{where} fold {f}: condition groups {sorted(set(s["L_te"]) & set(s["L_tr"]), key=str)} are in the '
                                 f'test fold AND in the training side the fitter sees')
        if cv_r and set(s['R_te']) & set(s['R_tr']):
            o.add('fitter-view', f'{where} fold {f}: RDMs {sorted(set(s["R_te"]) & set(s["R_tr"]))} are in the test fold AND in '
                                 f'the training side the fitter sees')


def _fold_sides(W, fold, rl, pl):
    """spec train / test / ceiling membership of a logged fold within the resample with drawn labels (rl, pl)"""
    out = dict(R_te=_members(W.rlab, [g for g in rl if g in fold['te_rg']]),
               R_tr=_members(W.rlab, [g for g in rl if g in fold['tr_rg']]),
               L_te=[v for v in pl if v in fold['te_pv']], L_tr=[v for v in pl if v in fold['tr_pv']])
    out['C_te'], out['C_tr'] = _members(W.plab, out['L_te']), _members(W.plab, out['L_tr'])
    out['R_ce'] = None if fold['ce_rg'] is None else _members(W.rlab, [g for g in rl if g in fold['ce_rg']])
    return out


def _eval_folds(W, o, sides_list, fit_desc, fits, cursor, where):
    """expected evaluations (models x folds) of one cross-validation; consumes the fitter log from `cursor`"""
    m = len(W.models)
    out = np.full((m, len(sides_list)), np.nan)
    for f, s in enumerate(sides_list):
        if len(s['R_tr']) == 0 or len(s['R_te']) == 0 or len(set(s['C_tr'])) < 3 or len(set(s['C_te'])) < 3:
            continue        # too small to evaluate: no RDM, or fewer than 3 distinct conditions (at most one distinct dissimilarity)
        idx_tr = W.pairs(s['C_tr'])
        train_vals = np.sort(W.D[s['R_tr']][:, idx_tr].ravel())
        for j in range(m):
            kind, nb = W.kinds[j], N_BASIS[W.kinds[j]]
            tag = f'{where} fold {f} model {j} ({kind})'
            if cursor[0] >= len(fits):
                o.add('fitter-view', f'{tag}: no fitter call was made (log has {len(fits)} calls)')
                continue
            v = fits[cursor[0]]
            cursor[0] += 1
            want_who = 'default' if fit_desc[j] == 'default' else f'spy{fit_desc[j]}'
            if v['model'] != W.models[j].name or v['who'] != want_who:
                o.add('fitter-view', f'{tag}: call {cursor[0] - 1} went to fitter {v["who"]} with model {v["model"]}, '
                                     f'expected fitter {want_who} with model {W.models[j].name}')
            if sorted(v['rid']) != sorted(s['R_tr']) or sorted(v['cid']) != sorted(s['C_tr']):
                o.add('fitter-view', f'{tag}: the fitter was shown RDMs {sorted(v["rid"])} x conditions {sorted(v["cid"])}; the training '
                                     f'side is RDMs {sorted(s["R_tr"])} x conditions {sorted(s["C_tr"])} (test: RDMs {sorted(s["R_te"])} x '
                                     f'conditions {sorted(s["C_te"])})')
            elif len(v['vals']) != len(train_vals) or not np.array_equal(v['vals'], train_vals):
                o.add('fitter-view', f'{tag}: the dissimilarities shown to the fitter are not those of the training side')
            if v['method'] != W.method:
                o.add('fitter-view', f'{tag}: the fitter got method={v["method"]!r}, requested {W.method!r}')
            if v['pd'] != W.pd:
                o.add('fitter-view', f'{tag}: the fitter got pattern_descriptor={v["pd"]!r}, requested {W.pd!r}')
            if isinstance(v['pattern_idx'], str) or sorted(v['pattern_idx'], key=str) != sorted(s['L_tr'], key=str):
                o.add('fitter-view', f'{tag}: the fitter got pattern_idx={v["pattern_idx"]}, the drawn training labels are {s["L_tr"]}')
            if v['n_pos'] or v['extra']:
                o.add('fitter-view', f'{tag}: unexpected extra fitter arguments {v["n_pos"]} positional, {v["extra"]}')
            # parameters fitted on the training side only
            if kind == 'fixed':
                theta = None
            elif fit_desc[j] != 'default':
                theta = _spy_theta(kind, nb, train_vals, s['L_tr'], W.method, W.pd, fit_desc[j])
            elif kind == 'select':
                sc = [W.evaluate(W.B[j][c], s['R_tr'], s['C_tr']) for c in range(nb)]
                if np.any(np.isposinf(sc)):         # a candidate with an undefined score (integer grid): no demand on the choice
                    sc = [(-np.inf if np.isposinf(x) else x) for x in sc]
                    sc[int(v['theta'])] = np.inf
                theta = int(np.argmax(sc))
                srt = np.sort(sc)
                if srt[-1] - srt[-2] < 1e-7:
                    theta = int(v['theta'])  # numerically tied candidates: either is a maximiser
                elif int(v['theta']) != theta:
                    o.add('evaluations', f'{tag}: fit_select returned candidate {int(v["theta"])}; on the training side the '
                                         f'{W.method} scores are {np.round(sc, 6).tolist()} -> candidate {theta}')
            else:
                theta = v['theta']      # numerically optimised: observed
            out[j, f] = W.evaluate(W.pred(j, theta), s['R_te'], s['C_te'])
    return out


# ---- crossval called directly --------------------------------------------------------------------------------
def fam_crossval(case):
    from rsatoolbox.inference import crossval
    W, o = World(case), Obs()
    sides = []                      # case folds: source RDM rows and condition LABELS, both with multiplicity
    for f in case['folds']:
        s = dict(R_tr=list(f['R_tr']), R_te=list(f['R_te']), L_tr=list(f['L_tr']), L_te=list(f['L_te']))
        s['C_tr'], s['C_te'] = _members(W.plab, s['L_tr']), _members(W.plab, s['L_te'])
        s['R_ce'] = list(f['R_tr'])
        sides.append(s)
    ceil_mode, calc = case['ceil'], case.get('calc_noise_ceil', True)

    def call(fit):
        train = [[W.obj(s['R_tr'], s['C_tr']), list(s['L_tr'])] for s in sides]
        test = [[W.obj(s['R_te'], s['C_te']), list(s['L_te'])] for s in sides]
        ceil = [[W.obj(s['R_ce'], s['C_te']), list(s['L_te'])] for s in sides] if ceil_mode == 'given' else None
        return crossval(W.marg, W.data, train, test, ceil_set=ceil, method=W.method, fitter=fit, pattern_descriptor=W.pd,
                        calc_noise_ceil=calc)
    res, log, fit_desc = _run_twice(W, call, o, case['fitter'])
    m = len(W.models)
    if not _check_meta(W, o, res, (1, m, len(sides))):
        return o
    cursor = [0]
    exp = _eval_folds(W, o, sides, fit_desc, log.fits, cursor, 'crossval')
    if cursor[0] != len(log.fits):
        o.add('fitter-view', f'{len(log.fits)} fitter calls for {cursor[0]} usable (fold, model) pairs')
    d = _same_num(res.evaluations, exp[None])
    if d:
        o.add('evaluations', f'evaluations[0, model, fold]: {d}')
    ok = ~np.isnan(exp[0]) if m else np.zeros(len(sides), bool)
    o.nan_rows, o.ok_rows = int(np.sum(~ok)), int(np.sum(ok))
    allR = list(range(W.n_rdm))
    if not calc:
        want = np.array([np.nan, np.nan])
    elif ceil_mode == 'given':
        used = [s for s, k in zip(sides, ok) if k]
        want = np.array(W.cv_nc(allR, list(range(W.n_cond)), used)) if used else np.array([np.nan, np.nan])
    else:
        want = np.array([W.boot_nc(allR, s['C_te'], by_group=False) for s, k in zip(sides, ok) if k]).T
        if want.size == 0:
            want = np.zeros((0,))
    d = _same_num(res.noise_ceiling, want)
    if d:
        o.add('noise-ceiling', f'noise ceiling ({"cross-validated, ceiling sets given" if ceil_mode == "given" else "per usable test fold"}): {d}')
    if log.draws or log.folds:
        o.add('reproducible', 'crossval made random draws of its own')
    return o


# ---- bootstrap_crossval, eval_dual_bootstrap, eval_dual_bootstrap_random -----------------------------------------
BTYPE = {'both': ('bootstrap_sample', True, True), 'pattern': ('bootstrap_sample_pattern', False, True),
         'rdm': ('bootstrap_sample_rdm', True, False)}


def _cv_variances(E, NC, usable, n_cv, correction):
    """E: (N, models, folds, n_cv), NC: (2, N, n_cv) stored values -> expected covariance of [models, lower, upper]"""
    E, NC = E[usable], NC[:, usable]
    means = np.concatenate([np.mean(np.mean(E, axis=2), axis=2), np.mean(NC, axis=2).T], axis=1)
    var_mean = _cov(means)
    if not (correction and n_cv > 1):
        return var_mean
    var_1 = np.zeros_like(var_mean)
    for c in range(n_cv):
        var_1 += _cov(np.concatenate([np.mean(E[:, :, :, c], axis=2), NC[:, :, c].T], axis=1)) / n_cv
    return (n_cv * var_mean - var_1) / (n_cv - 1)


def _expect_kfold_call(W, o, fl, R, C, k_pattern, k_rdm, where):
    a = fl['args']
    if fl['fn'] != 'sets_k_fold' or a.get('k_pattern') != k_pattern or a.get('k_rdm') != k_rdm or \
            a.get('pattern_descriptor') != W.pd or a.get('rdm_descriptor') != W.rd:
        o.add('reproducible', f'{where}: folds were made by {fl["fn"]}({ {k: v for k, v in a.items()} }), requested k_pattern={k_pattern}, '
                              f'k_rdm={k_rdm}, descriptors {W.pd!r}/{W.rd!r}')
    if sorted(fl['src'][0]) != sorted(R) or sorted(fl['src'][1]) != sorted(C):
        o.add('evaluations', f'{where}: the object that was split into folds holds RDMs {sorted(fl["src"][0])} x conditions '
                             f'{sorted(fl["src"][1])}; the resample is RDMs {sorted(R)} x conditions {sorted(C)}')
    if len(fl['folds']) != k_pattern * k_rdm:
        o.add('evaluations', f'{where}: {len(fl["folds"])} folds instead of k_pattern*k_rdm = {k_pattern * k_rdm}')
        return False
    return True


def fam_bootcv(case):
    from rsatoolbox.inference import bootstrap_crossval
    W, o = World(case), Obs()
    N, n_cv, bt, corr = case['N'], case['n_cv'], case['boot_type'], case['use_correction']
    k_pattern, k_rdm = case['k_pattern'], case['k_rdm']
    sampler, rr, rp = BTYPE[bt]
    res, log, fit_desc = _run_twice(W, lambda fit: bootstrap_crossval(
        W.marg, W.data, method=W.method, fitter=fit, k_pattern=k_pattern, k_rdm=k_rdm, N=N, n_cv=n_cv,
        pattern_descriptor=W.pd, rdm_descriptor=W.rd, boot_type=bt, use_correction=corr), o, case['fitter'])
    m = len(W.models)
    if k_pattern is None or k_rdm is None:      # documented defaults: read the fold count off the result, both k in 2..5
        nf = np.asarray(res.evaluations).shape[2] if np.asarray(res.evaluations).ndim == 4 else -1
        used = [fl['args'] for fl in log.folds[:1]]
        k_pattern = used[0]['k_pattern'] if used else 2
        k_rdm = used[0]['k_rdm'] if used else (1 if len(W.rgroups) == 1 else 2)
        if nf != k_pattern * k_rdm or not (2 <= k_pattern <= 5 and 1 <= k_rdm <= 5):
            o.add('evaluations', f'default fold numbers: {nf} fold columns, fold generator asked for k_pattern={k_pattern}, k_rdm={k_rdm}')
    nf = k_pattern * k_rdm
    if len(log.draws) != N:
        o.add('reproducible', f'{len(log.draws)} draws for N={N} resamples')
        return o
    if not _check_meta(W, o, res, (N, m, nf, n_cv)):
        return o
    exp = np.full((N, m, nf, n_cv), np.nan)
    exp_nc = np.full((2, N, n_cv), np.nan)
    usable = np.zeros(N, dtype=bool)
    cursor, fc = [0], 0
    for i, e in enumerate(log.draws):
        _check_draw(W, o, e, i, sampler, rr, rp)
        rl, pl, R, C = _resample(W, e, rr, rp)
        usable[i] = len(set(rl)) >= k_rdm and len(set(pl)) >= 3 * k_pattern
        if not usable[i]:
            continue
        for c in range(n_cv):
            if fc >= len(log.folds):
                o.add('evaluations', f'resample {i} repetition {c}: no fold assignment was made')
                continue
            fl = log.folds[fc]
            fc += 1
            where = f'resample {i} repetition {c}'
            if not _expect_kfold_call(W, o, fl, R, C, k_pattern, k_rdm, where):
                continue
            sides = [_fold_sides(W, f, rl, pl) for f in fl['folds']]
            _sides_disjoint(o, sides, k_rdm > 1, k_pattern > 1, where)
            exp[i, :, :, c] = _eval_folds(W, o, sides, fit_desc, log.fits, cursor, where)
            exp_nc[:, i, c] = W.cv_nc(R, C, sides) if (k_rdm > 1 or k_pattern > 1) else W.boot_nc(R, C)
    if fc != len(log.folds):
        o.add('evaluations', f'{len(log.folds)} fold assignments were made, {fc} belong to usable resamples x repetitions')
    if cursor[0] != len(log.fits):
        o.add('fitter-view', f'{len(log.fits)} fitter calls for {cursor[0]} usable (resample, repetition, fold, model) combinations')
    _finish_cv(W, o, res, exp, exp_nc, usable, n_cv, corr, rr, rp, log)
    return o


def _finish_cv(W, o, res, exp, exp_nc, usable, n_cv, corr, rr, rp, log):
    N = len(usable)
    o.nan_rows, o.ok_rows = int(np.sum(~usable)), int(np.sum(usable))
    d = _same_num(res.evaluations, exp)
    if d:
        o.add('evaluations', f'evaluations[resample, model, fold, repetition]: {d}; first draws '
                             f'{[(e["rdm_idx"], e["pattern_idx"]) for e in log.draws][:2]}')
    d2 = _same_num(res.noise_ceiling, exp_nc)
    if d2:
        o.add('noise-ceiling', f'noise_ceiling[bound, resample, repetition]: {d2}')
    if np.shape(res.evaluations) == exp.shape and np.shape(res.noise_ceiling) == exp_nc.shape and o.ok_rows >= 2:
        want = _cv_variances(np.asarray(res.evaluations), np.asarray(res.noise_ceiling), usable, n_cv, corr)
        d = 'variances are None' if res.variances is None else _same_num(np.atleast_2d(res.variances), want, rel=True, tol=1e-8)
        if d:
            o.add('variances', f'covariance of the per-resample means over the {o.ok_rows} usable of {N} resamples'
                               f'{" with the n_cv projection" if corr and n_cv > 1 else ""}: {d}')
    if res.dof != _want_dof(W, rr, rp):
        o.add('dof', f'dof is {res.dof}; resampled groups: RDMs {len(W.rgroups) if rr else "-"}, conditions '
                     f'{len(W.pgroups) if rp else "-"} -> {_want_dof(W, rr, rp)}')


def fam_dual(case):
    from rsatoolbox.inference import eval_dual_bootstrap
    W, o = World(case), Obs()
    N, n_cv, corr = case['N'], case['n_cv'], case['use_correction']
    k_pattern, k_rdm = case['k_pattern'], case['k_rdm']
    res, log, fit_desc = _run_twice(W, lambda fit: eval_dual_bootstrap(
        W.marg, W.data, method=W.method, fitter=fit, k_pattern=k_pattern, k_rdm=k_rdm, N=N, n_cv=n_cv,
        pattern_descriptor=W.pd, rdm_descriptor=W.rd, use_correction=corr), o, case['fitter'])
    if k_pattern == 1 and k_rdm == 1:   # documented: without cross-validation one repetition, no correction
        n_cv, corr = 1, False
    m, nf = len(W.models), k_pattern * k_rdm
    if len(log.draws) != N:
        o.add('reproducible', f'{len(log.draws)} draws for N={N} resamples')
        return o
    if not _check_meta(W, o, res, (N, m, nf, n_cv, 3)):
        return o
    exp = np.full((N, m, nf, n_cv, 3), np.nan)
    exp_nc = np.full((2, N, n_cv, 3), np.nan)
    usable = np.zeros(N, dtype=bool)
    cursor, fc = [0], 0
    for i, e in enumerate(log.draws):
        _check_draw(W, o, e, i, 'bootstrap_sample', True, True)
        usable[i] = len(set(e['rdm_idx'])) >= k_rdm and len(set(e['pattern_idx'])) >= 3 * k_pattern
        if not usable[i]:
            continue
        for c in range(n_cv):
            for slot, (sr, sp, what) in enumerate(((True, True, 'both'), (True, False, 'RDMs only'), (False, True, 'conditions only'))):
                rl, pl, R, C = _resample(W, e, sr, sp)
                where = f'resample {i} repetition {c} bootstrap over {what}'
                if fc >= len(log.folds):
                    o.add('evaluations', f'{where}: no fold assignment was made')
                    continue
                fl = log.folds[fc]
                fc += 1
                if not _expect_kfold_call(W, o, fl, R, C, k_pattern, k_rdm, where):
                    continue
                sides = [_fold_sides(W, f, rl, pl) for f in fl['folds']]
                _sides_disjoint(o, sides, k_rdm > 1, k_pattern > 1, where)
                exp[i, :, :, c, slot] = _eval_folds(W, o, sides, fit_desc, log.fits, cursor, where)
                exp_nc[:, i, c, slot] = W.cv_nc(R, C, sides) if (k_rdm > 1 or k_pattern > 1) else W.boot_nc(R, C)
    if fc != len(log.folds):
        o.add('evaluations', f'{len(log.folds)} fold assignments were made, {fc} belong to usable resamples x repetitions x 3')
    if cursor[0] != len(log.fits):
        o.add('fitter-view', f'{len(log.fits)} fitter calls for {cursor[0]} usable combinations')
    o.nan_rows, o.ok_rows = int(np.sum(~usable)), int(np.sum(usable))
    d = _same_num(res.evaluations, exp)
    if d:
        o.add('evaluations', f'evaluations[resample, model, fold, repetition, (both|rdm|pattern)]: {d}')
    d2 = _same_num(res.noise_ceiling, exp_nc)
    if d2:
        o.add('noise-ceiling', f'noise_ceiling[bound, resample, repetition, (both|rdm|pattern)]: {d2}')
    if np.shape(res.noise_ceiling) == exp_nc.shape and o.ok_rows >= 2:
        E, NC = np.asarray(res.evaluations), np.asarray(res.noise_ceiling)
        want = np.array([_cv_variances(E[..., s], NC[..., s], usable, n_cv, corr) for s in range(3)])
        dv = 'variances are None' if res.variances is None else _same_num(res.variances, want, rel=True, tol=1e-8)
        if dv:
            o.add('variances', f'variances[(both|rdm|pattern), :, :] over the {o.ok_rows} usable of {N} resamples: {dv}')
    if res.dof != _want_dof(W, True, True):
        o.add('dof', f'dof is {res.dof}; resampled groups: RDMs {len(W.rgroups)}, conditions {len(W.pgroups)} -> {_want_dof(W, True, True)}')
    return o


def fam_dual_random(case):
    from rsatoolbox.inference import eval_dual_bootstrap_random
    W, o = World(case), Obs()
    N, n_cv, bt, corr = case['N'], case['n_cv'], case['boot_type'], case['use_correction']
    n_pattern, n_rdm = case['test_pattern'], case['test_rdm']       # size of the random test sets (in units)
    sampler, rr, rp = BTYPE[bt]
    res, log, fit_desc = _run_twice(W, lambda fit: eval_dual_bootstrap_random(
        W.marg, W.data, method=W.method, fitter=fit, n_pattern=n_pattern, n_rdm=n_rdm, N=N, n_cv=n_cv,
        pattern_descriptor=W.pd, rdm_descriptor=W.rd, boot_type=bt, use_correction=corr), o, case['fitter'])
    m = len(W.models)
    if len(log.draws) != N:
        o.add('reproducible', f'{len(log.draws)} draws for N={N} resamples')
        return o
    if not _check_meta(W, o, res, (N, m, n_cv)):
        return o
    exp = np.full((N, m, 1, n_cv), np.nan)
    exp_nc = np.full((2, N, n_cv), np.nan)
    usable = np.zeros(N, dtype=bool)
    cursor, fc = [0], 0
    for i, e in enumerate(log.draws):
        _check_draw(W, o, e, i, sampler, rr, rp)
        rl, pl, R, C = _resample(W, e, rr, rp)
        usable[i] = len(set(rl)) > n_rdm and len(set(pl)) >= 3 + n_pattern
        if not usable[i]:
            continue
        where = f'resample {i}'
        if fc >= len(log.folds):
            o.add('evaluations', f'{where}: no fold assignment was made')
            continue
        fl = log.folds[fc]
        fc += 1
        a = fl['args']
        if fl['fn'] != 'sets_random' or a.get('n_pattern') != n_pattern or a.get('n_rdm') != n_rdm or a.get('n_cv') != n_cv or \
                a.get('pattern_descriptor') != W.pd or a.get('rdm_descriptor') != W.rd:
            o.add('reproducible', f'{where}: folds were made by {fl["fn"]}({a}), requested n_pattern={n_pattern}, n_rdm={n_rdm}, n_cv={n_cv}')
        if sorted(fl['src'][0]) != sorted(R) or sorted(fl['src'][1]) != sorted(C) or len(fl['folds']) != n_cv:
            o.add('evaluations', f'{where}: {len(fl["folds"])} random folds of an object with RDMs {sorted(fl["src"][0])} x conditions '
                                 f'{sorted(fl["src"][1])}; expected {n_cv} folds of RDMs {sorted(R)} x conditions {sorted(C)}')
            continue
        sides = [_fold_sides(W, f, rl, pl) for f in fl['folds']]
        _sides_disjoint(o, sides, n_rdm > 0, n_pattern > 0, where)
        exp[i, :, 0, :] = _eval_folds(W, o, sides, fit_desc, log.fits, cursor, where)
        exp_nc[:, i, :] = np.array(W.cv_nc(R, C, sides) if (n_rdm > 0 or n_pattern > 0) else W.boot_nc(R, C))[:, None]
    if fc != len(log.folds):
        o.add('evaluations', f'{len(log.folds)} fold assignments were made, {fc} belong to usable resamples')
    if cursor[0] != len(log.fits):
        o.add('fitter-view', f'{len(log.fits)} fitter calls for {cursor[0]} usable (resample, fold, model) combinations')
    # same layout as bootstrap_crossval with one fold column
    res_view = types.SimpleNamespace(evaluations=np.asarray(res.evaluations)[:, :, None, :], noise_ceiling=res.noise_ceiling,
                                     variances=res.variances, dof=res.dof)
    _finish_cv(W, o, res_view, exp, exp_nc, usable, n_cv, corr, rr, rp, log)
    return o


FAMILIES = {'eval_fixed': fam_fixed, 'eval_bootstrap': fam_boot, 'eval_bootstrap_pattern': fam_boot, 'eval_bootstrap_rdm': fam_boot,
            'crossval': fam_crossval, 'bootstrap_crossval': fam_bootcv, 'eval_dual_bootstrap': fam_dual,
            'eval_dual_bootstrap_random': fam_dual_random}


# =====================================================================================================
# the clause oracles
# =====================================================================================================
def _clause(name):
    def orc(case):
        p = observe(case).problems[name]
        return None if not p else ' || '.join(p)
    orc.__name__ = 'orc_' + name.replace('-', '_')
    orc.__doc__ = f'clause {name!r} of the observed run of case["routine"]'
    return oracle('C04/' + name)(orc)


orc_evaluations = _clause('evaluations')
orc_noise_ceiling = _clause('noise-ceiling')
orc_variances = _clause('variances')
orc_dof = _clause('dof')
orc_fitter_view = _clause('fitter-view')
orc_reproducible = _clause('reproducible')
CLAUSES = (('evaluations', orc_evaluations, 'each-stored-evaluation-is-the-direct-comparison'),
           ('noise-ceiling', orc_noise_ceiling, 'noise-ceilings-of-the-same-resamples'),
           ('variances', orc_variances, 'covariance-over-usable-resamples'),
           ('dof', orc_dof, 'dof-is-resampled-groups-minus-one'),
           ('fitter-view', orc_fitter_view, 'fitter-sees-training-side-only'),
           ('reproducible', orc_reproducible, 'same-seed-same-result'))


# =====================================================================================================
# bounded domains
# =====================================================================================================
SHAPES = {   # label -> n_rdm, n_cond, rdm group labels (None: every RDM its own unit), condition group labels
    'tiny': dict(n_rdm=2, n_cond=4, rg=None, pg=None),
    'identity': dict(n_rdm=3, n_cond=5, rg=None, pg=None),
    'grouped-rdms': dict(n_rdm=4, n_cond=5, rg=[20, 10, 20, 30], pg=None),
    'grouped-conditions': dict(n_rdm=4, n_cond=6, rg=None, pg=[7, 7, 3, 5, 5, 9]),
    'grouped-both': dict(n_rdm=5, n_cond=7, rg=[11, 11, 12, 12, 12], pg=[4, 4, 6, 6, 8, 8, 2]),
    'string-groups': dict(n_rdm=3, n_cond=5, rg=['b', 'a', 'b'], pg=['x', 'y', 'y', 'z', 'w']),
    # large enough for folds over conditions (3 distinct condition units per fold)
    'cv-identity': dict(n_rdm=4, n_cond=9, rg=None, pg=None),
    'cv-grouped': dict(n_rdm=6, n_cond=10, rg=[20, 10, 20, 30, 10, 40], pg=[0, 0, 1, 2, 3, 3, 4, 5, 6, 7]),
    'one-rdm': dict(n_rdm=1, n_cond=5, rg=None, pg=None),
    # sweep shapes: interleaved groups whose first-appearance order is neither the numeric nor the string order, unbalanced
    # group sizes, a negative label; one RDM group; sizes with remainder 2 for 3 folds; more items than the other shapes
    'interleaved-conditions': dict(n_rdm=4, n_cond=8, rg=None, pg=[7, 3, 7, 10, 3, 9, -1, 7]),
    'interleaved-both': dict(n_rdm=5, n_cond=7, rg=[10, 9, 10, 100, 9], pg=['b', 'a', 'c', 'b', 'd', 'a', 'e']),
    'one-rdm-group': dict(n_rdm=3, n_cond=6, rg=[5, 5, 5], pg=None),
    'cv-interleaved': dict(n_rdm=6, n_cond=11, rg=[30, 10, 100, 10, 30, 9], pg=[5, 2, 7, 2, 0, 5, 9, 4, 6, 10, 2]),
    'cv-11': dict(n_rdm=5, n_cond=11, rg=None, pg=None),
    'cv-one-rdm': dict(n_rdm=1, n_cond=9, rg=None, pg=None),
    'big': dict(n_rdm=8, n_cond=14, rg=[3, 1, 2, 3, 1, 4, 5, 6], pg=[0, 1, 2, 3, 4, 5, 6, 7, 8, 9, 10, 11, 0, 5]),
}
MODELSETS = {'fixed1': ['fixed'], 'fixed2': ['fixed', 'fixed'], 'all4': ['fixed', 'weighted', 'select', 'interpolate'],
             'flex3': ['weighted', 'select', 'interpolate'], 'sel-int': ['select', 'interpolate'], 'sel2': ['select', 'fixed'], 'w-def': ['weighted', 'fixed']}
APPLICABLE = {'eval_fixed': ('evaluations', 'noise-ceiling', 'variances', 'dof', 'reproducible'),
              'eval_bootstrap_all3': ('evaluations', 'noise-ceiling', 'variances', 'dof', 'reproducible'),
              'crossval': ('evaluations', 'noise-ceiling', 'fitter-view', 'reproducible'),
              'bootstrap_crossval': ('evaluations', 'noise-ceiling', 'variances', 'dof', 'fitter-view', 'reproducible'),
              'eval_dual_bootstrap': ('evaluations', 'noise-ceiling', 'variances', 'dof', 'fitter-view', 'reproducible'),
              'eval_dual_bootstrap_random': ('evaluations', 'noise-ceiling', 'variances', 'dof', 'fitter-view', 'reproducible')}


def _case(shape, models, method, seed, **kw):
    c = dict(SHAPES[shape])
    c.update(models=list(MODELSETS[models]), method=method, seed=seed, np_seed=1000 + 17 * seed + len(kw))
    c.update(kw)
    if c.get('model_kinds'):        # sweep: an explicit list of model kinds instead of a named set
        c['models'] = list(c.pop('model_kinds'))
    return c


def _run_family(run, family, domain, cases, bds, histories=1, once=()):
    if histories > 1:       # the same inputs under further seeds of numpy's global generator (other draw sequences)
        cases = [(dict(c, np_seed=c['np_seed'] + 7919 * h), ic) for c, ic in cases for h in range(histories)]
        domain += '; %d random histories per input' % histories
    cases = list(cases) + list(once)        # the dimension sweeps: one history each
    these = {}
    for clause, orc, ob in CLAUSES:
        if clause in APPLICABLE[family]:
            these[clause] = (Bounded(run, f'C04/{family}/{clause}', f'C04/{family}/oracle/{ob}', domain, function=family), orc)
    n_nan = n_ok = 0
    for case, ic in cases:
        o = observe(case)
        n_nan, n_ok = n_nan + o.nan_rows, n_ok + o.ok_rows
        for clause, (bd, orc) in these.items():
            bd.check(orc, case, ic, function=case['routine'])
    for clause, (bd, orc) in these.items():
        bd.domain += f'; {n_ok} usable and {n_nan} too-small resamples/folds observed'
        bd.done()
        bds.append(bd)


def _cv_folds(shape, kind):
    """hand-made folds for crossval: source RDM rows and condition labels with multiplicity"""
    s = SHAPES[shape]
    rows = list(range(s['n_rdm']))
    labs = sorted(set(s['pg'] or range(s['n_cond'])), key=str)
    h = len(labs) // 2
    if kind == 'conditions':        # two folds over conditions, all RDMs on both sides
        return [dict(R_tr=rows, R_te=rows, L_tr=labs[h:], L_te=labs[:h]), dict(R_tr=rows, R_te=rows, L_tr=labs[:h], L_te=labs[h:])]
    if kind == 'rdms':              # leave one RDM out, all conditions
        return [dict(R_tr=[r for r in rows if r != t], R_te=[t], L_tr=labs, L_te=labs) for t in rows]
    if kind == 'both':              # RDMs and conditions split, unequal sizes, order scrambled
        return [dict(R_tr=rows[1:], R_te=rows[:1], L_tr=labs[h:][::-1], L_te=labs[:h]),
                dict(R_tr=rows[:-2] or rows[:1], R_te=rows[-2:], L_tr=labs[:h], L_te=labs[h:][::-1])]
    if kind == 'resampled':         # folds of a bootstrap resample: repeated RDMs and repeated condition labels
        return [dict(R_tr=[rows[0], rows[0], rows[-1]], R_te=[rows[1], rows[1]], L_tr=labs[h:] + labs[h:h + 1], L_te=labs[:h] + labs[:1]),
                dict(R_tr=[rows[1], rows[1]], R_te=[rows[0], rows[-1], rows[0]], L_tr=labs[:h] + labs[:1], L_te=labs[h:] + labs[h:h + 1])]
    if kind == 'lt3-distinct':      # >= 3 test conditions with multiplicity, but only 2 distinct ones: nothing to evaluate
        return [dict(R_tr=rows, R_te=rows, L_tr=labs[2:], L_te=[labs[0], labs[0], labs[1]]),
                dict(R_tr=rows, R_te=rows, L_tr=labs[:3], L_te=labs[3:])]
    if kind == 'too-small':         # one usable fold, one with 2 test conditions, one without training RDMs
        return [dict(R_tr=rows, R_te=rows, L_tr=labs[3:], L_te=labs[:3]), dict(R_tr=rows, R_te=rows, L_tr=labs[2:], L_te=labs[:2]),
                dict(R_tr=[], R_te=rows, L_tr=labs[3:], L_te=labs[:3]), dict(R_tr=rows[1:], R_te=rows[:1], L_tr=labs[:2], L_te=labs[2:])]
    raise ValueError(kind)


# ---- dimension sweeps: the same routines on inputs that vary along one more dimension each ------------------------------
# Every sweep case goes through the same spec as the plain cases; what changes is the FORM of the input, for which the property
# (a statement about values, labels and resamples) implies the same definite result:
#   dtype=...          dissimilarities of data and model RDMs stored as int64 / int32 / int16 / uint8 (integer-valued, with ties)
#                      or float32: the result is the one of the same values as float64 (float32: to single precision)
#   units=...          data and / or predictions in very small / very large units (all three measures are invariant under
#                      positive scaling; the spec is evaluated on the scaled values directly)
#   descriptors-as-... descriptor vectors handed over as tuple / ndarray / int16- or fixed-width-str ndarray instead of list
#   theta=...          supplied parameters as integer-valued int64 / float32 arrays; bare-model: one Model instead of a list
#   call-sequence      between run and rerun the routine works on other content of the same shape, names and labels
#   (always, every case) inputs keep their content during the call; a Result held by the caller is not changed by later calls
#   shapes             interleaved groups (first-appearance order != sorted order, str order != numeric order, negative label,
#                      unbalanced), one RDM / one RDM group (dof 0), 3 folds of 11 conditions / 5 RDMs (remainder 2),
#                      thorough: 8 RDMs x 14 conditions
NARROW_INT = ('uint8', 'int16')
SWEEP_KW = (('dtype=int64', dict(dtype='int64')), ('dtype=int32', dict(dtype='int32')), ('dtype=int16', dict(dtype='int16')),
            ('dtype=uint8', dict(dtype='uint8')), ('dtype=float32', dict(dtype='float32')),
            ('units=1e-26', dict(scale_data=1e-26)), ('units=1e+12/1e-20', dict(scale_data=1e12, scale_model=1e-20)),
            ('units=1e-12/1e+6', dict(scale_data=1e-12, scale_model=1e6)), ('units=1e+6/1e+12', dict(scale_data=1e6, scale_model=1e12)),
            ('descriptors-as-tuple', dict(container='tuple')), ('descriptors-as-ndarray', dict(container='ndarray')),
            ('descriptors-as-small-ndarray', dict(container='ndarray-small')), ('call-sequence', dict(seq=True)),
            ('models-share-a-name,weighted', dict(same_names=True, model_kinds=['weighted', 'weighted'])),
            ('models-share-a-name,fixed', dict(same_names=True, model_kinds=['fixed', 'fixed', 'fixed'])))
THETA_KW = (('theta=int64', dict(theta_dtype='int')), ('theta=float32', dict(theta_dtype='float32')), ('bare-model', dict(bare_model=True)))
SWEEP_NOTE = ('; sweeps (own input classes): dissimilarities as int64/int32/int16/uint8/float32, units 1e-26..1e+12, descriptors as '
              'tuple/ndarray, call sequence with other content in between, interleaved / unbalanced / single groups, 3-fold remainders')


def _sweeps(cases, thorough, seeds, mk, extra=(), quick_half=None):
    """one case per sweep value (thorough: per method and data seed); mk(i, method, seed, **kw) -> case, i rotates the options;
    quick_half 0 / 1: the quick tier takes every second sweep value (the bootstrap-wrapped cross-validations share their
    data path with crossval and the samplers, and split the values between them)"""
    i = 0
    for seed in seeds:
        for n, (ic, kw) in enumerate(SWEEP_KW + tuple(extra)):
            if not thorough and quick_half is not None and n % 2 != quick_half and not kw.get('seq'):
                i += 1
                continue
            for method in (METHODS if thorough else (METHODS[(i + seed) % 3],)):
                i += 1
                cases.append((mk(i, method, seed, **kw), ic))
                if kw.get('dtype') in NARROW_INT and method != 'cosine' and not thorough:
                    # uint8 / int16 under cosine in every family: squares of the dissimilarities leave the type's range (found by
                    # this sweep in pool_rdm: wrapped squares -> wrong cosine noise ceilings / NaN pooled RDM; repaired in 6c46c3d0)
                    cases.append((mk(i, 'cosine', seed, **kw), ic + ',cosine'))


def tier_c(run, thorough):
    bds = []
    seeds = range(3) if thorough else range(1)
    H = 3 if thorough else 1
    sw_seeds = range(2) if thorough else range(1)       # data seeds of the dimension sweeps
    meth = lambda k: METHODS[k % 3]                                                   # noqa: E731

    # ---- eval_fixed ----
    cases = []
    for seed in seeds:
        for k, shape in enumerate(('tiny', 'identity', 'grouped-rdms', 'grouped-both', 'string-groups', 'one-rdm')):
            for q, ms in enumerate(('fixed2', 'all4')):
                for method in (METHODS if thorough else (meth(k + q),)):
                    cases.append((_case(shape, ms, method, seed, routine='eval_fixed', theta_none=(ms == 'fixed2')),
                                  'one-rdm' if shape == 'one-rdm' else shape))
    sw = []
    def mk_fixed(i, method, seed, **kw):
        bare = bool(kw.get('bare_model'))
        return _case(('grouped-both', 'identity', 'string-groups')[i % 3], 'fixed1' if bare else 'all4', method, seed,
                     routine='eval_fixed', theta_none=bare, **kw)
    _sweeps(sw, thorough, sw_seeds, mk_fixed, THETA_KW)
    for seed in sw_seeds:
        for k, shape in enumerate(('interleaved-conditions', 'interleaved-both', 'one-rdm-group') + (('big',) if thorough else ())):
            for q, ms in enumerate(('fixed2', 'all4')):
                for method in (METHODS if thorough else (meth(k + q + 1),)):
                    sw.append((_case(shape, ms, method, seed, routine='eval_fixed', theta_none=(ms == 'fixed2')), shape))
    _run_family(run, 'eval_fixed', 'eval_fixed; 1..5 RDMs x 4..7 conditions, 2 fixed models (theta=None) / fixed+weighted+select+'
                'interpolate models at supplied parameters; methods cosine, corr, rho-a; %d data seeds' % len(seeds) + SWEEP_NOTE,
                cases, bds, H, once=sw)

    # ---- the three plain bootstraps ----
    cases = []
    N = 12 if thorough else 8
    for seed in seeds:
        for r, fn in enumerate(('eval_bootstrap', 'eval_bootstrap_pattern', 'eval_bootstrap_rdm')):
            for k, shape in enumerate(('tiny', 'identity', 'grouped-rdms', 'grouped-conditions', 'grouped-both', 'string-groups')):
                for q, ms in enumerate(('fixed2', 'all4', 'fixed1')):
                    for b, bnc in enumerate((True, False)):
                        if ms == 'fixed1' and not thorough and not (bnc is False and shape in ('tiny', 'grouped-both')):
                            continue
                        for method in (METHODS if thorough else (meth(r + k + q + b),)):
                            cases.append((_case(shape, ms, method, seed, routine=fn, N=N, boot_noise_ceil=bnc,
                                                theta_none=(ms != 'all4')), shape))
    BOOT3 = ('eval_bootstrap', 'eval_bootstrap_pattern', 'eval_bootstrap_rdm')

    sw = []
    def mk_boot(i, method, seed, **kw):
        bare = bool(kw.get('bare_model'))
        return _case(('grouped-both', 'grouped-conditions', 'string-groups', 'grouped-rdms')[i % 4], 'fixed1' if bare else 'all4', method, seed,
                     routine=BOOT3[i % 3], N=N, boot_noise_ceil=bool((i // 3) % 2), theta_none=bare, **kw)
    _sweeps(sw, thorough, sw_seeds, mk_boot, THETA_KW)
    for seed in sw_seeds:      # the call sequence for each of the three routines (any state kept between calls is per routine)
        for r in range(3):
            for method in (METHODS if thorough else (meth(r + seed),)):
                sw.append((mk_boot(7 * r + 3 * seed, method, seed, seq=True), 'call-sequence'))
    for seed in sw_seeds:
        k = 0
        for n_sh, shape in enumerate(('interleaved-conditions', 'interleaved-both', 'one-rdm-group', 'one-rdm') + (('big',) if thorough else ())):
            for r, fn in enumerate(BOOT3):
                if shape == 'one-rdm' and fn != 'eval_bootstrap_pattern':
                    continue        # resampling the RDMs of a single RDM is degenerate (the routines raise ZeroDivisionError)
                for b, bnc in enumerate((True, False)):
                    k += 1
                    if not thorough and shape != 'one-rdm' and b != (n_sh + r + seed) % 2:
                        continue
                    for method in (METHODS if thorough else (meth(k + seed),)):
                        sw.append((_case(shape, 'all4' if k % 2 else 'fixed2', method, seed, routine=fn, N=N, boot_noise_ceil=bnc,
                                            theta_none=not k % 2), shape))
    _run_family(run, 'eval_bootstrap_all3', 'eval_bootstrap, eval_bootstrap_pattern, eval_bootstrap_rdm; N=%d; 2..5 RDMs x 4..7 '
                'conditions, identity and repeated-value (int / str) descriptors on either factor; 1-2 fixed models (theta=None) / '
                '4 model classes at supplied parameters; boot_noise_ceil True/False; methods cosine, corr, rho-a; %d data seeds'
                % (N, len(seeds)) + SWEEP_NOTE, cases, bds, H, once=sw)

    # ---- crossval ----
    cases = []
    for seed in seeds:
        k = 0
        for shape in ('cv-identity', 'cv-grouped'):
            for kind in ('conditions', 'rdms', 'both', 'resampled', 'too-small', 'lt3-distinct'):
                if kind == 'lt3-distinct' and shape != 'cv-identity':
                    continue
                for fitter, ms in (('none', 'sel-int'), ('callable', 'all4'), ('list', 'flex3'), ('none', 'sel2')):
                    for ceil in ('none', 'given'):
                        if kind in ('too-small', 'resampled', 'lt3-distinct') and ceil == 'given':
                            # cv_noise_ceiling has no notion of unusable folds (it compares whatever it is given), and it wants
                            # the ceiling objects of a resample together with label lists WITHOUT multiplicity while crossval
                            # wants them WITH multiplicity: inside the library this only happens via _internal_cv (covered there)
                            continue
                        k += 1
                        if not thorough and fitter == 'none' and ms == 'sel-int' and kind not in ('conditions', 'resampled'):
                            continue
                        for method in (METHODS if thorough else (meth(k),)):
                            cases.append((_case(shape, ms, method, seed, routine='crossval', folds=_cv_folds(shape, kind),
                                                fitter=fitter, ceil=ceil), 'fold-lt3-distinct' if kind == 'lt3-distinct' else f'{kind}-folds'))
            cases.append((_case(shape, 'all4', meth(k), seed, routine='crossval', folds=_cv_folds(shape, 'both'),
                                fitter='callable', ceil='none', calc_noise_ceil=False), 'both-folds'))
        # fit_optimize (BFGS from random starts: consumes the global generator) as default fitter of a weighted model
        cases.append((_case('cv-identity', 'w-def', meth(seed), seed, routine='crossval', folds=_cv_folds('cv-identity', 'conditions'),
                            fitter='none', ceil='none'), 'conditions-folds'))
    CVFIT = (('none', 'sel-int'), ('callable', 'all4'), ('list', 'flex3'), ('none', 'sel2'))

    sw = []
    def mk_cv(i, method, seed, **kw):
        shape, kind = ('cv-grouped', 'cv-identity')[i % 2], ('conditions', 'rdms', 'both', 'resampled')[(i // 2) % 4]
        fitter, ms = CVFIT[i % 4]
        return _case(shape, ms, method, seed, routine='crossval', folds=_cv_folds(shape, kind), fitter=fitter,
                     ceil='given' if (i % 3 == 0 and kind != 'resampled') else 'none', **kw)
    _sweeps(sw, thorough, sw_seeds, mk_cv)
    for seed in sw_seeds:
        k = 0
        for shape, kinds in (('cv-interleaved', ('conditions', 'rdms', 'both', 'resampled', 'too-small')), ('cv-11', ('conditions', 'both')),
                             ('cv-one-rdm', ('conditions',))):
            for kind in kinds:
                for fitter, ms in CVFIT:
                    k += 1
                    if not thorough and k % 2:
                        continue
                    ceil = 'given' if (k % 4 == 0 and kind not in ('resampled', 'too-small')) else 'none'
                    for method in (METHODS if thorough else (meth(k // 2 + seed),)):
                        sw.append((_case(shape, ms, method, seed, routine='crossval', folds=_cv_folds(shape, kind), fitter=fitter,
                                            ceil=ceil), f'{shape},{kind}-folds'))
    _run_family(run, 'crossval', 'crossval on hand-made folds (condition folds, leave-one-RDM-out, both, folds of a resample with '
                'repeated RDMs / condition labels, folds too small to evaluate) of 4x9 and 6x10 (grouped) data; fitter None '
                '(fit_select, fit_interpolate, fit_optimize, fit_mock) / one callable / list mixing callables and None; ceil_set None / given; '
                'methods cosine, corr, rho-a; %d data seeds' % len(seeds) + SWEEP_NOTE, cases, bds, H, once=sw)

    # ---- bootstrap_crossval ----
    cases = []
    N = 8 if thorough else 6
    for seed in seeds:
        k = 0
        for bt in ('both', 'pattern', 'rdm'):
            for shape, kp, kr in (('cv-identity', 2, 1), ('cv-identity', 1, 2), ('cv-grouped', 2, 2), ('grouped-both', 1, 2),
                                  ('cv-grouped', 1, 1)):
                for q, (fitter, ms) in enumerate((('none', 'sel2'), ('callable', 'all4'), ('list', 'flex3'))):
                    k += 1
                    if not thorough and (k // 3 + seed) % 3 != q:      # quick: one fitter form per (boot_type, shape, k), rotating
                        continue
                    n_cv, corr = (2, True) if k % 3 else (1, False)
                    if k % 5 == 0:
                        n_cv, corr = 2, False
                    cases.append((_case(shape, ms, meth(k), seed, routine='bootstrap_crossval', boot_type=bt, k_pattern=kp,
                                        k_rdm=kr, N=N, n_cv=n_cv, use_correction=corr, fitter=fitter), f'{shape},boot_type={bt}'))
        cases.append((_case('cv-grouped', 'sel2', 'corr', seed, routine='bootstrap_crossval', boot_type='both', k_pattern=None,
                            k_rdm=None, N=N, n_cv=2, use_correction=True, fitter='none'), 'default-k'))
        cases.append((_case('cv-identity', 'sel-int', 'corr', seed, routine='bootstrap_crossval', boot_type='pattern', k_pattern=2,
                            k_rdm=1, N=4, n_cv=2, use_correction=True, fitter='none'), 'default-fitters'))
        cases.append((_case('cv-identity', 'w-def', 'cosine', seed, routine='bootstrap_crossval', boot_type='rdm', k_pattern=1,
                            k_rdm=2, N=3, n_cv=2, use_correction=True, fitter='none'), 'default-fitters'))
    BCFIT = (('none', 'sel2'), ('callable', 'all4'), ('list', 'flex3'))

    sw = []
    def mk_bootcv(i, method, seed, **kw):
        shape, kp, kr = (('cv-identity', 2, 1), ('cv-identity', 1, 2), ('cv-grouped', 2, 2), ('cv-grouped', 1, 1))[i % 4]
        fitter, ms = BCFIT[i % 3]
        n_cv, corr = ((2, True), (2, True), (1, False), (2, False), (3, True))[i % 5]
        return _case(shape, ms, method, seed, routine='bootstrap_crossval', boot_type=('both', 'pattern', 'rdm')[(i // 4) % 3],
                     k_pattern=kp, k_rdm=kr, N=N, n_cv=n_cv, use_correction=corr, fitter=fitter, **kw)
    _sweeps(sw, thorough, sw_seeds, mk_bootcv, quick_half=0)
    for seed in sw_seeds:
        k = 0
        for shape, kp, kr, bt in (('cv-interleaved', 2, 2, 'both'), ('cv-interleaved', 2, 1, 'pattern'), ('cv-interleaved', 1, 2, 'rdm'),
                                  ('cv-11', 3, 1, 'rdm'), ('cv-11', 1, 3, 'pattern'), ('cv-11', 3, 3, 'rdm'), ('cv-11', 3, 1, 'pattern'),
                                  ('cv-one-rdm', 2, 1, 'pattern'),
                                  ('one-rdm-group', 2, 1, 'rdm')) + ((('big', 3, 2, 'both'), ('big', 2, 3, 'pattern'), ('big', 3, 3, 'rdm'))
                                                                     if thorough else ()):
            for q, (fitter, ms) in enumerate(BCFIT):
                k += 1
                if not thorough and ((k - 1) // 3 + seed) % 3 != q:      # quick: one fitter form per shape, rotating
                    continue
                n_cv, corr = (2, True) if k % 4 else (3, True)
                for method in (METHODS if thorough else (meth(k),)):
                    sw.append((_case(shape, ms, method, seed, routine='bootstrap_crossval', boot_type=bt, k_pattern=kp, k_rdm=kr,
                                        N=N, n_cv=n_cv, use_correction=corr, fitter=fitter), f'{shape},k={kp}x{kr},boot_type={bt}'))
    _run_family(run, 'bootstrap_crossval', 'bootstrap_crossval boot_type both/pattern/rdm; N=%d; k_pattern, k_rdm in {1,2} and defaults; '
                'n_cv 1/2 with and without correction; 4x9, 6x10 (grouped), 5x7 (grouped) data; fitter None / callable / list; '
                'methods cosine, corr, rho-a; %d data seeds' % (N, len(seeds)) + SWEEP_NOTE + '; k in {1,2,3}, n_cv 3', cases, bds, H, once=sw)

    # ---- eval_dual_bootstrap ----
    cases = []
    N = 6 if thorough else 4
    for seed in seeds:
        k = 0
        for shape, kp, kr in (('identity', 1, 1), ('grouped-both', 1, 1), ('cv-identity', 2, 1), ('cv-grouped', 1, 2), ('cv-grouped', 2, 2)):
            for fitter, ms in (('none', 'sel2'), ('callable', 'all4'), ('list', 'flex3')):
                k += 1
                if not thorough and k % 2 == 0:
                    continue
                n_cv, corr = (2, True) if k % 3 else (2, False)
                cases.append((_case(shape, ms, meth(k), seed, routine='eval_dual_bootstrap', k_pattern=kp, k_rdm=kr, N=N + (2 if kp == 1 else 0),
                                    n_cv=n_cv, use_correction=corr, fitter=fitter), f'{shape},k={kp}x{kr}'))
    sw = []
    def mk_dual(i, method, seed, **kw):
        shape, kp, kr = (('grouped-both', 1, 1), ('cv-identity', 2, 1), ('cv-grouped', 1, 2), ('cv-grouped', 2, 2))[i % 4]
        fitter, ms = BCFIT[i % 3]
        return _case(shape, ms, method, seed, routine='eval_dual_bootstrap', k_pattern=kp, k_rdm=kr, N=N,
                     n_cv=2 + (i % 5 == 0), use_correction=bool(i % 3), fitter=fitter, **kw)
    _sweeps(sw, thorough, sw_seeds, mk_dual, quick_half=1)
    for seed in sw_seeds:
        k = 0
        for shape, kp, kr in (('interleaved-both', 1, 1), ('cv-interleaved', 2, 1), ('cv-interleaved', 1, 2), ('cv-11', 1, 3), ('cv-11', 3, 1),
                              ('one-rdm-group', 1, 1)) + ((('big', 2, 2),) if thorough else ()):
            for q, (fitter, ms) in enumerate(BCFIT):
                k += 1
                if not thorough and ((k - 1) // 3 + seed) % 3 != q:      # quick: one fitter form per shape, rotating
                    continue
                for method in (METHODS if thorough else (meth(k),)):
                    sw.append((_case(shape, ms, method, seed, routine='eval_dual_bootstrap', k_pattern=kp, k_rdm=kr,
                                        N=N + (2 if kp == 1 else 0), n_cv=2, use_correction=bool(k % 2), fitter=fitter),
                                  f'{shape},k={kp}x{kr}'))
    _run_family(run, 'eval_dual_bootstrap', 'eval_dual_bootstrap; N=%d..%d; k_pattern, k_rdm in {1,2}; n_cv 2 with and without correction; '
                '3x5, 5x7 (grouped), 4x9, 6x10 (grouped) data; fitter None / callable / list; methods cosine, corr, rho-a; %d data seeds'
                % (N, N + 2, len(seeds)) + SWEEP_NOTE + '; k_rdm 3, n_cv 3', cases, bds, H, once=sw)

    # ---- eval_dual_bootstrap_random ----
    cases = []
    N = 8 if thorough else 6
    for seed in seeds:
        k = 0
        for bt in ('both', 'pattern', 'rdm'):
            for shape, npat, nr in (('cv-identity', 3, 1), ('cv-grouped', 3, 2), ('cv-grouped', 0, 1), ('cv-identity', 4, 0), ('identity', 0, 0)):
                for fitter, ms in (('none', 'sel2'), ('callable', 'all4'), ('list', 'flex3')):
                    k += 1
                    if not thorough and (k + seed) % 2 != 1:
                        continue
                    n_cv, corr = ((2, True), (2, True), (3, True), (2, True), (2, False), (2, True), (1, False))[k % 7]
                    cases.append((_case(shape, ms, meth(k), seed, routine='eval_dual_bootstrap_random', boot_type=bt, test_pattern=npat,
                                        test_rdm=nr, N=N, n_cv=n_cv, use_correction=corr, fitter=fitter),
                                  'n_cv!=2' if n_cv != 2 else ('n_cv=2' if corr else 'n_cv=2,uncorrected')))
        # test sets of 2 condition units: nothing to evaluate, also when a unit was drawn twice (see C04_findings.md, F3)
        cases.append((_case('cv-identity', 'fixed2', 'cosine', seed, routine='eval_dual_bootstrap_random', boot_type='pattern',
                            test_pattern=2, test_rdm=0, N=N, n_cv=2, use_correction=True, fitter='none'), 'test-sets-lt3-conditions'))
    sw = []
    def mk_dualrandom(i, method, seed, **kw):
        shape, npat, nr = (('cv-identity', 3, 1), ('cv-grouped', 3, 2), ('cv-grouped', 0, 1), ('cv-identity', 4, 0))[i % 4]
        fitter, ms = BCFIT[i % 3]
        n_cv, corr = ((2, True), (3, True), (2, False), (1, False), (2, True))[i % 5]
        return _case(shape, ms, method, seed, routine='eval_dual_bootstrap_random', boot_type=('both', 'pattern', 'rdm')[(i // 4) % 3],
                     test_pattern=npat, test_rdm=nr, N=N, n_cv=n_cv, use_correction=corr, fitter=fitter, **kw)
    _sweeps(sw, thorough, sw_seeds, mk_dualrandom, quick_half=1)
    for seed in sw_seeds:
        k = 0
        for shape, npat, nr, bt in (('cv-interleaved', 3, 1, 'both'), ('cv-interleaved', 3, 0, 'pattern'), ('cv-interleaved', 0, 2, 'rdm'),
                                    ('cv-11', 4, 2, 'rdm'), ('cv-11', 5, 1, 'both'), ('cv-one-rdm', 3, 0, 'pattern')) + \
                (((('big', 4, 2, 'both'),)) if thorough else ()):
            for q, (fitter, ms) in enumerate(BCFIT):
                k += 1
                if shape == 'cv-one-rdm':
                    # eval_dual_bootstrap_random hands n_rdm=data.n_rdm to Result also when only conditions are resampled
                    # (bootstrap_crossval passes None there): the n/(n-1) factor of the derived variances divides by zero for
                    # a single RDM, the routine returns nothing
                    if True:   # repaired in /repo 6fb03e8b (was pending triage): single-rdm,pattern-bootstrap
                        if thorough or q == seed % 3:
                            sw.append((_case(shape, ms, meth(k), seed, routine='eval_dual_bootstrap_random', boot_type=bt,
                                                test_pattern=npat, test_rdm=nr, N=N, n_cv=2, use_correction=True, fitter=fitter),
                                          'single-rdm,pattern-bootstrap'))
                    continue
                if not thorough and ((k - 1) // 3 + seed) % 3 != q:      # quick: one fitter form per shape, rotating
                    continue
                for method in (METHODS if thorough else (meth(k),)):
                    sw.append((_case(shape, ms, method, seed, routine='eval_dual_bootstrap_random', boot_type=bt, test_pattern=npat,
                                        test_rdm=nr, N=N, n_cv=2 + (k % 4 == 0), use_correction=True, fitter=fitter),
                                  f'{shape},test={npat}x{nr},boot_type={bt}'))
    _run_family(run, 'eval_dual_bootstrap_random', 'eval_dual_bootstrap_random boot_type both/pattern/rdm; N=%d; test sets of 0, 2, 3, 4 '
                'condition units and 0..2 RDM units; n_cv 2 (corrected / not) / 3 / 1; 3x5, 5x7 (grouped), 4x9, 6x10 (grouped) data; fitter None / '
                'callable / list; methods cosine, corr, rho-a; %d data seeds' % (N, len(seeds)) + SWEEP_NOTE + '; test sets of 5 units', cases, bds, H, once=sw)
    tier_c_cross_process(run, thorough, bds)
    return bds


# ---- reproducibility across interpreter processes (string descriptors, different hash salts) -----------------------------
XPROC_ROUTINES = ('eval_fixed', 'eval_bootstrap', 'eval_bootstrap_rdm', 'eval_bootstrap_pattern', 'crossval',
                  'bootstrap_crossval', 'eval_dual_bootstrap')


def _xproc_child():
    """child process: every routine once on string-labelled data under a fixed numpy seed; prints {routine: digest}"""
    import hashlib
    import json
    import sys
    import warnings
    warnings.simplefilter('ignore')
    case = json.loads(sys.argv[1])
    import rsatoolbox.inference as inf
    from rsatoolbox.rdm import RDMs
    from rsatoolbox.model import ModelFixed, ModelWeighted
    rs = np.random.RandomState(case['seed'])
    n_rdm, n_cond = case['n_rdm'], case['n_cond']
    npair = n_cond * (n_cond - 1) // 2
    rlab = [case['rnames'][i % len(case['rnames'])] for i in range(n_rdm)]
    plab = [case['pnames'][i % len(case['pnames'])] for i in range(n_cond)]
    data = RDMs(rs.rand(n_rdm, npair) + 0.1, rdm_descriptors={'subj': rlab}, pattern_descriptors={'stim': plab})
    basis = RDMs(rs.rand(2, npair) + 0.1, pattern_descriptors={'stim': plab})
    models = [ModelFixed('f', rs.rand(npair) + 0.1), ModelWeighted('w', basis)]
    kw = dict(rdm_descriptor='subj', pattern_descriptor='stim')
    calls = {
        'eval_fixed': lambda: inf.eval_fixed(models, data, method='corr'),
        'eval_bootstrap': lambda: inf.eval_bootstrap(models[0], data, method='corr', N=6, **kw),
        'eval_bootstrap_rdm': lambda: inf.eval_bootstrap_rdm(models[0], data, method='corr', N=6, rdm_descriptor='subj'),
        'eval_bootstrap_pattern': lambda: inf.eval_bootstrap_pattern(models[0], data, method='corr', N=6, pattern_descriptor='stim'),
        'crossval': lambda: inf.crossval(models, data, *inf.sets_k_fold(data, k_pattern=2, k_rdm=2, **kw)[:2], method='corr',
                                         pattern_descriptor='stim'),
        'bootstrap_crossval': lambda: inf.bootstrap_crossval(models, data, method='corr', k_pattern=2, k_rdm=2, N=4, n_cv=2, **kw),
        'eval_dual_bootstrap': lambda: inf.eval_dual_bootstrap(models, data, method='corr', k_pattern=2, k_rdm=2, N=4, n_cv=2, **kw),
    }
    out = {}
    for name in XPROC_ROUTINES:
        np.random.seed(case['np_seed'])
        try:
            res = calls[name]()
            h = hashlib.sha256()
            for attr in ('evaluations', 'noise_ceiling', 'variances'):
                v = getattr(res, attr)
                h.update(b'None' if v is None else np.ascontiguousarray(np.asarray(v, dtype=float)).tobytes())
            out[name] = h.hexdigest()[:16] + ' mean=%r' % float(np.nanmean(res.evaluations))
        except Exception as e:                                       # noqa: BLE001
            out[name] = f'EXC {type(e).__name__}: {str(e)[:80]}'
    print('XPROC ' + json.dumps(out))


_XPROC_CACHE = {}


def _xproc_results(case):
    """digests of all routines from child interpreters started with different PYTHONHASHSEED values"""
    import json
    import os
    import subprocess
    import sys
    key = json.dumps({k: v for k, v in case.items() if k != 'routine'}, sort_keys=True)
    if key in _XPROC_CACHE:
        return _XPROC_CACHE[key]
    procs = []
    for hs in case['hash_seeds']:
        env = dict(os.environ, PYTHONHASHSEED=str(hs), MPLBACKEND='Agg')
        procs.append(subprocess.Popen([sys.executable, '-c', 'from contracts.C04_c import _xproc_child; _xproc_child()', key],
                                      env=env, stdout=subprocess.PIPE, stderr=subprocess.PIPE, text=True,
                                      cwd=os.path.dirname(os.path.dirname(os.path.abspath(__file__)))))
    outs = []
    for pr in procs:
        so, se = pr.communicate(timeout=600)
        line = [ln for ln in so.splitlines() if ln.startswith('XPROC ')]
        outs.append(json.loads(line[-1][6:]) if line else {'__error__': (se or so)[-300:]})
    _XPROC_CACHE[key] = outs
    return outs


@oracle('C04/cross-process')
def orc_cross_process(case):
    """a rerun with the same random seed reproduces the result exactly -- also in a NEW interpreter (descriptor groups given
    as strings must not be enumerated in hash order)"""
    outs = _xproc_results(case)
    r = case['routine']
    vals = []
    for hs, o in zip(case['hash_seeds'], outs):
        if '__error__' in o:
            raise RuntimeError('child interpreter failed: ' + o['__error__'])
        vals.append(o[r])
    if any(v.startswith('EXC') for v in vals):
        return None if len(set(vals)) == 1 else f'{r}: raises in some interpreters only: {vals}'
    if len(set(vals)) != 1:
        return (f'{r} with string descriptors and np.random.seed({case["np_seed"]}): results differ between interpreter '
                f'processes started with PYTHONHASHSEED={case["hash_seeds"]}: {vals}')
    return None


def tier_c_cross_process(run, thorough, bds):
    bd = Bounded(run, 'C04/cross-process', 'C04/all-routines/oracle/same-seed-reproduces-in-a-new-interpreter',
                 'eval_fixed, eval_bootstrap(_rdm,_pattern), crossval on sets_k_fold, bootstrap_crossval, eval_dual_bootstrap on '
                 '%d string-labelled data sets (grouped and ungrouped), each run in %d child interpreters with different '
                 'PYTHONHASHSEED and the same numpy seed; results compared bit for bit' % ((3, 4) if thorough else (2, 3)),
                 function='eval_*')
    hs = [1, 2, 31337, 7][:4 if thorough else 3]
    sets = [dict(seed=1, np_seed=5, n_rdm=6, n_cond=8, rnames=['anna', 'bert', 'carl', 'dora', 'emil', 'fay'],
                 pnames=['face', 'house', 'cat', 'chair', 'shoe', 'bottle', 'tree', 'car']),
            dict(seed=2, np_seed=11, n_rdm=6, n_cond=9, rnames=['s01', 's02', 's03'],
                 pnames=['a', 'b', 'c', 'd', 'e', 'f', 'g', 'h', 'i'])]
    if thorough:
        sets.append(dict(seed=3, np_seed=17, n_rdm=5, n_cond=12, rnames=['x', 'y', 'zz', 'w', 'v'],
                         pnames=['p%d' % i for i in range(6)]))
    for st in sets:
        for r in XPROC_ROUTINES:
            bd.check(orc_cross_process, dict(st, hash_seeds=hs, routine=r), 'string-descriptors', function=r)
    bd.done()
    bds.append(bd)
