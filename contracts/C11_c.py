"""C11, bounded run-time tier (tier C): dataset operations keep every observation attached to its own descriptors.

Model-based.  Every observation, channel and time point of a generated Dataset / TemporalDataset gets a unique ghost id
(carried in the extra descriptors 'oid', 'chid', 'tid') and every measurement a distinct sentinel value
100*oid + 10*chid + tid.  The abstract view of a dataset is

    View = ordered row keys, column keys, time keys  +  {(row, column, time) -> value}
           + descriptor maps {name -> {key -> value}} for observations / channels / times  +  dataset descriptors

Each operation has a literal model on views (list comprehensions written from the property statement and the docstrings of
the operations, never calling rsatoolbox); an operation sequence is applied to the real objects and to the views, and the
real objects are compared with the views cell by cell and label by label.

oracles and the clauses of the property they cover
  C11/history      every clause, after every history: split_obs / split_channel / split_time (partition, source order, part
                   label), subset_obs / subset_channel / subset_time (exactly the matching items, original order), sort_by
                   (stable permutation), merge_datasets (concatenation in list order, shared obs descriptors, constant /
                   varying dataset descriptors), odd_even_split / nested_odd_even_split, bin_time (means of exactly the
                   members), time_as_observations / time_as_channels (all shapes incl. size-1), DataFrame round trip,
                   copy, and average_dataset_by as a query on any reachable flat dataset.
                   Domains: exhaustive sequences of length <= 2 (thorough: <= 3 on the smallest bases) over the per-state
                   argument alphabet of `_candidates`, on bases incl. size-1 observation / channel / time dimensions,
                   list- and array-typed descriptors, monotone and non-monotone time axes; seeded random sequences of
                   length <= 8 on larger bases.
  C11/labels       splits partition what they split (each part = exactly the items of one label, in source order, labelled
                   with that label), merge of the parts = original rows as a multiset, subsets = exactly the matching items
                   in original order, odd/even halves partition the rows keeping equal labels together, per-condition
                   averages = means (and counts) of exactly the rows carrying the label.  Exhaustive over ALL label
                   sequences of length <= 5 (thorough 6) over 3 values, int and str labels, on the observation, channel and
                   time axis of flat and temporal datasets (this is the complete input space of get_unique_inverse /
                   get_unique_unsorted up to renaming at these lengths).
  C11/bin-time     binned values and the binned time label are the means of exactly the time points listed in each bin
                   (membership, not range), obs / channel descriptors untouched; exhaustive over all assignments of
                   <= 4 time points (thorough 5) to two possibly overlapping / non-covering bins, sorted and unsorted time
                   axis, shapes incl. a single observation / channel / time point.
  C11/sort-stable  sort_by is a stable permutation carrying measurements and every obs descriptor alike; n_obs 2..64 with
                   ties, int / float / str keys, list / array descriptors, flat and temporal.
  C11/conversions  time_as_observations / time_as_channels preserve every measurement with its observation, channel and time
                   labels (compared as a multiset of labelled cells, i.e. independent of the row / column order chosen by
                   the implementation) for ALL shapes in {1,2,3}^3.

Dimension sweeps (tools/SWEEP_BRIEF.md; the same oracles and clauses, inputs varied along further dimensions through optional
keys of the case dicts; domains named '...[sweep]' and C11/fresh-interpreter, function `_sweeps`)
  typed data        measurements as int16 / uint8 / int64 / float32 (mdtype; narrow integers at the top of their range so that the
                    sum of two overflows): moved values are the same values, bin / condition means are the means of the values as
                    real numbers (float32: tolerance 1e-6); typed label / key / time arrays (uint8, int16 incl. negative values,
                    float32, integer time axis with integer bins).
  units             measurements in units of 1e-26 / 1e-20 / 1e9 / 1e12 (scale; compared in those units, relative tolerance only:
                    `_eq` has no absolute threshold), time axis / float labels / sort keys in units of 1e-12, in steps of 1 (1e-3,
                    0.25) on an offset of 1e6 (1e3), starting below 0 (tunit, names, type).
  containers        descriptors as tuple besides list / ndarray (container), lists of values for subset_* as tuple / ndarray
                    (argform), descriptor dicts filled in reversed key order (korder), vector-valued (2-D) descriptors on the obs /
                    channel / time axis that are carried along and must stay with their item (vec; never used as `by`).
  repeated values   (already exhaustive in C11/labels) + seeded label sequences of length 9..40 over 4 / 5 values.
  sizes             label sequences up to 40 items, sort keys over up to 8 values.
  call sequences    orc_history keys keep (the datasets a step is applied to are unchanged by it -- sort_by, in place, excepted --
                    and every dataset returned in the course of a history is unchanged at its end) and twice (the identical call
                    again gives the identical result; before an in-place sort the dataset is queried, so that answers kept per
                    object would be stale afterwards); orc_labels / orc_bin / orc_convert: the input is unchanged after the call;
                    orc_sort / orc_bin key twice.
  environment       C11/fresh-interpreter: new interpreters with other PYTHONHASHSEEDs satisfy the labels / history oracles on the
                    same cases (sets of descriptor names and labels are iterated in another order).
  order in tables   DataFrame round trip with the `channels` argument in reversed order and with the rows of the table handed over
                    in reversed order (op ['df', chd, True, 'perm' | 'rows']; sweep domains only).
  not applicable    competitor sets (no optimality claim), existing output files (C16), remainders.
  PENDING TRIAGE    (fail on the unchanged tree, registrations behind `if False:  # pending triage`)   [TRIAGED since: every class repaired in /repo, recorded as open finding, or dropped -- DESIGN.md 10.10]
                    time_as_observations / time_as_channels / to_df with a vector-valued descriptor on the axis they rearrange
                    (K_VEC_TAO, K_VEC_TAC, K_VEC_DF); bin_time with the bins given as python lists (K_BIN_PYLIST).

NOT covered by this tier: unbounded sizes and histories (bounded enumeration only); descriptor values that are None or of mixed
types, vector-valued descriptors as the `by` of an operation; hdf5 / pkl round trips (C16); aliasing between the results and
their inputs beyond the call-sequence clauses above (C12: writing into a result); what bin_time should do with additional time
descriptors (the statement is silent: see C11_findings.md, observation O1); get_measurements_tensor; the exact text of the 'bins'
descriptor; DataFrames that were filtered between to_df and from_df (not a round trip; from_df raises KeyError: 0 when row 0 is
dropped and a column is constant).
"""
import itertools
import warnings

import numpy as np

from vf.rt.harness import oracle, Bounded, ORACLES as _ORACLES

ANY = ('<any>',)          # model value that compares equal to everything (text of the 'bins' descriptor)

# input classes of the defects that exist on the unchanged tree (see C11_findings.md)
K_TAO_SINGLE = 'time_as_observations,single-obs-or-channel'
K_TAO_DUP = 'time_as_observations,duplicate-by-values'
K_TSORT = 'TemporalDataset.sort_by,ties'
K_BIN_LIST = 'bin_time,list-typed-time-descriptor'
K_ODD_SINGLE = 'odd_even_split,single-value'
K_SUBT_EMPTY = 'subset_time,no-time-point-in-range'
# labels whose defect has been repaired in /repo (aed6debb, 95e01e94, 1694cd79, 1f4e5f7f, 6122a8e4): histories continue through such steps
REPAIRED = {K_TAO_SINGLE, K_TSORT, K_BIN_LIST, K_TAO_DUP, K_ODD_SINGLE, K_SUBT_EMPTY}
# input classes found by the dimension sweeps (tools/SWEEP_BRIEF.md) that fail on the unchanged tree: PENDING TRIAGE, their
# registrations are behind `if False:  # pending triage: <class>` (histories: the step is classified, and skipped by `_pending`)
K_VEC_TAO = 'time_as_observations,vector-valued-descriptor'
K_VEC_TAC = 'time_as_channels,vector-valued-descriptor'
K_VEC_DF = 'to_df,vector-valued-descriptor'
K_BIN_PYLIST = 'bin_time,bins-as-python-lists'
# after triage: time_as_observations / time_as_channels / bin_time repaired in /repo (6df59f95, c15140b4); to_df with a vector-valued
# descriptor is recorded as an open finding (a table column cannot hold a 2-D descriptor: design decision), own input class
REPAIRED |= {K_VEC_TAO, K_VEC_TAC, K_BIN_PYLIST}
PENDING = {K_VEC_DF}


# =====================================================================================================
# the abstract view and the literal models of the operations
# =====================================================================================================
class View:
    __slots__ = ('temporal', 'rows', 'cols', 'times', 'val', 'obs', 'ch', 'tm', 'desc', 'tlist', 'fl', 'scale', 'tol', 'mint')

    def __init__(self, temporal, rows, cols, times, val, obs, ch, tm, desc, tlist=False, fl=False, scale=1.0, tol=1e-9,
                 mint=False):
        self.temporal, self.rows, self.cols, self.times = temporal, rows, cols, times
        self.val, self.obs, self.ch, self.tm, self.desc = val, obs, ch, tm, desc
        self.tlist = tlist      # bookkeeping for classification only: the real time descriptors are python lists
        self.fl = fl            # bookkeeping only: numeric obs descriptors of the real object are float arrays
        self.scale = scale      # unit of the real measurements: real value = scale * model value (sweep: extreme units)
        self.tol = tol          # relative tolerance for measurements (1e-6 for float32 data, 1e-9 otherwise)
        self.mint = mint        # bookkeeping only: the real measurements are of an integer dtype

    def clone(self, **kw):
        a = {k: getattr(self, k) for k in self.__slots__}
        a.update(kw)
        return View(**a)

    def empty(self):
        return not (self.rows and self.cols and self.times)


def _isnum(x):
    return isinstance(x, (int, float, np.integer, np.floating)) and not isinstance(x, (bool, np.bool_))


def _isseq(x):
    return x is not ANY and (isinstance(x, (list, tuple)) or (isinstance(x, np.ndarray) and x.ndim > 0))


def _eq(a, b, tol=1e-9):
    """numbers: equal up to the RELATIVE tolerance `tol` (no absolute threshold: values in units of 1e-26 must stay
    distinguishable); vector-valued descriptor entries: element by element"""
    if b is ANY or a is ANY:
        return True
    if _isseq(a) or _isseq(b):
        if not (_isseq(a) and _isseq(b)) or len(a) != len(b):
            return False
        return all(_eq(x, y, tol) for x, y in zip(a, b))
    if _isnum(a) and _isnum(b):
        a, b = float(a), float(b)
        return a == b or abs(a - b) <= tol * max(abs(a), abs(b))
    if _isnum(a) != _isnum(b):
        return False
    try:
        return bool(a == b)
    except Exception:
        return False


def _uniq(seq):
    """distinct values in order of first occurrence"""
    out = []
    for v in seq:
        if not any(_eq(v, w) for w in out):
            out.append(v)
    return out


def _match(v, value):
    if isinstance(value, (list, tuple)):
        return any(_eq(v, w) for w in value)
    return _eq(v, value)


def _m_merge(views):
    """merge_datasets: rows concatenated in list order; obs descriptors shared by all concatenated; dataset descriptors
    shared by all: kept when constant, repeated per observation when they vary; channel / time descriptors of the first"""
    v0 = views[0]
    rows = [r for v in views for r in v.rows]
    val = {(r, c, t): v.val[(r, c, t)] for v in views for r in v.rows for c in v0.cols for t in v0.times}
    obs = {}
    for n in v0.obs:
        if all(n in v.obs for v in views):
            obs[n] = {r: v.obs[n][r] for v in views for r in v.rows}
    desc = {}
    for n in v0.desc:
        if all(n in v.desc for v in views):
            if len(_uniq([v.desc[n] for v in views])) == 1:
                desc[n] = v0.desc[n]
            else:
                obs[n] = {r: v.desc[n] for v in views for r in v.rows}
    return v0.clone(rows=rows, val=val, obs=obs, desc=desc)


def _m_unary(op, v):
    k = op[0]
    if k == 'copy':
        return [v.clone()]
    if k == 'average_by':
        return [v]
    if k == 'sort_by':
        key = v.obs[op[1]]
        return [v.clone(rows=sorted(v.rows, key=lambda r: key[r]))]          # python's sort is stable
    if k == 'subset_obs':
        return [v.clone(rows=[r for r in v.rows if _match(v.obs[op[1]][r], op[2])])]
    if k == 'subset_channel':
        return [v.clone(cols=[c for c in v.cols if _match(v.ch[op[1]][c], op[2])])]
    if k == 'split_obs':
        by, out = op[1], []
        for u in _uniq([v.obs[by][r] for r in v.rows]):
            d = dict(v.desc)
            if not v.temporal:
                d[by] = u                 # Dataset.split_obs labels the part; TemporalDataset.split_obs does not
            out.append(v.clone(rows=[r for r in v.rows if _eq(v.obs[by][r], u)], desc=d))
        return out
    if k == 'split_channel':
        by, out = op[1], []
        for u in _uniq([v.ch[by][c] for c in v.cols]):
            d = dict(v.desc)
            d[by] = u
            out.append(v.clone(cols=[c for c in v.cols if _eq(v.ch[by][c], u)], desc=d))
        return out
    if k == 'odd_even':
        parts = _m_unary(['split_obs', op[1]], v)
        # a half without any part is the empty selection of the source (no observation, same channels / times / descriptors)
        return [_m_merge(h) if h else v.clone(rows=[]) for h in (parts[0::2], parts[1::2])]
    if k == 'nested_odd_even':
        odd, even = [], []
        for p in _m_unary(['split_obs', op[1]], v):
            o, e = _m_unary(['odd_even', op[2]], p)
            odd.append(o)
            even.append(e)
        return [_m_merge(odd), _m_merge(even)]
    if k == 'df':
        chd = op[1]
        columns = {}
        for n in v.obs:
            columns[n] = [v.obs[n][r] for r in v.rows]
        for n in v.desc:                                   # dataset descriptors are broadcast and win on a name clash
            columns[n] = [v.desc[n]] * len(v.rows)
        obs, desc = {}, {}
        for n, vals in columns.items():
            if all(_eq(x, vals[0]) for x in vals):          # "same value throughout" -> dataset descriptor
                desc[n] = vals[0]
            else:
                obs[n] = dict(zip(v.rows, vals))
        # sweep (order of the items in the table): op[3] == 'perm': the `channels` argument lists the channel columns in
        # reversed order -> the channels of the result are in that order;  'rows': the rows of the table are handed over in
        # reversed order -> so are the observations
        how = op[3] if len(op) > 3 else None
        return [v.clone(ch={chd: v.ch[chd]}, obs=obs, desc=desc, cols=v.cols[::-1] if how == 'perm' else v.cols,
                        rows=v.rows[::-1] if how == 'rows' else v.rows)]
    # ---- temporal only
    if k == 'split_time':
        by, out = op[1], []
        for u in _uniq([v.tm[by][t] for t in v.times]):
            out.append(v.clone(times=[t for t in v.times if _eq(v.tm[by][t], u)], tlist=True))
        return out
    if k == 'subset_time':
        by, lo, hi = op[1], op[2], op[3]
        return [v.clone(times=[t for t in v.times if lo <= v.tm[by][t] <= hi], tlist=True)]
    if k == 'bin_time':
        by, bins = op[1], op[2]
        times, val, tmb = [], dict(v.val), {}
        for i, b in enumerate(bins):
            members = [t for t in v.times if any(_eq(v.tm[by][t], x) for x in b)]
            nt = ('b', i, tuple(members))
            times.append(nt)
            for r in v.rows:
                for c in v.cols:
                    val[(r, c, nt)] = sum(v.val[(r, c, t)] for t in members) / len(members)
            tmb[nt] = sum(float(v.tm[by][t]) for t in members) / len(members)
        return [v.clone(times=times, val=val, tm={by: tmb, 'bins': {t: ANY for t in times}}, tlist=False, mint=False)]
    if k == 'tao':
        by = op[1]
        order = [t for u in _uniq([v.tm[by][t] for t in v.times]) for t in v.times if _eq(v.tm[by][t], u)]
        rows = [('ot', r, t) for t in order for r in v.rows]
        val = {(('ot', r, t), c, None): v.val[(r, c, t)] for t in order for r in v.rows for c in v.cols}
        obs = {n: {('ot', r, t): v.obs[n][r] for t in order for r in v.rows} for n in v.obs}
        for n in v.tm:
            obs[n] = {('ot', r, t): v.tm[n][t] for t in order for r in v.rows}
        return [View(False, rows, v.cols, [None], val, obs, v.ch, {}, v.desc, False, True, v.scale, v.tol, False)]   # float result
    if k == 'tac':
        cols = [('ct', c, t) for c in v.cols for t in v.times]
        val = {(r, ('ct', c, t), None): v.val[(r, c, t)] for r in v.rows for c in v.cols for t in v.times}
        ch = {n: {('ct', c, t): v.ch[n][c] for c in v.cols for t in v.times} for n in v.ch}
        for n in v.tm:
            ch[n] = {('ct', c, t): v.tm[n][t] for c in v.cols for t in v.times}
        return [View(False, v.rows, cols, [None], val, v.obs, ch, {}, v.desc, False, v.fl, v.scale, v.tol, v.mint)]
    raise ValueError(f'unknown operation {op}')


def _apply_model(op, cur):
    if op[0] == 'merge':
        return [_m_merge([cur[i] for i in op[1]])]
    if op[0] == 'pick':
        return [cur[op[1]]]
    return [w for v in cur for w in _m_unary(op, v)]


# =====================================================================================================
# the same operations on the real objects
# =====================================================================================================
def _argform(value, form):
    """sweep (container types of index arguments): a list of values as list / tuple / ndarray"""
    if isinstance(value, list):
        return {'list': list, 'tuple': tuple, 'ndarray': np.array}[form](value)
    return value


def _binform(bins, form):
    """sweep: the bins as float ndarrays (default), int ndarrays (integral time axis), python lists"""
    if form == 'list':
        return [[float(x) for x in b] for b in bins]
    if form == 'int':
        return [np.array([int(round(x)) for x in b], dtype=int) for b in bins]
    return [np.array(b, dtype=float) for b in bins]


def _r_unary(op, d, form='list', bform='float'):
    from rsatoolbox.data import Dataset
    k = op[0]
    if k == 'copy':
        return [d.copy()]
    if k == 'sort_by':
        d.sort_by(op[1])
        return [d]
    if k == 'subset_obs':
        return [d.subset_obs(op[1], _argform(op[2], form))]
    if k == 'subset_channel':
        return [d.subset_channel(op[1], _argform(op[2], form))]
    if k == 'split_obs':
        return list(d.split_obs(op[1]))
    if k == 'split_channel':
        return list(d.split_channel(op[1]))
    if k == 'odd_even':
        return list(d.odd_even_split(op[1]))
    if k == 'nested_odd_even':
        return list(d.nested_odd_even_split(op[1], op[2]))
    if k == 'df':
        names = list(d.channel_descriptors[op[1]])
        df = d.to_df(channel_descriptor=op[1])
        how = op[3] if len(op) > 3 else None
        if how == 'perm':
            return [Dataset.from_df(df, channels=names[::-1], channel_descriptor=op[1])]
        if how == 'rows':
            return [Dataset.from_df(df.iloc[::-1], channels=names, channel_descriptor=op[1])]
        if op[2]:
            return [Dataset.from_df(df, channels=names, channel_descriptor=op[1])]
        return [Dataset.from_df(df, channel_descriptor=op[1])]
    if k == 'split_time':
        return list(d.split_time(op[1]))
    if k == 'subset_time':
        return [d.subset_time(op[1], op[2], op[3])]
    if k == 'bin_time':
        return [d.bin_time(op[1], _binform(op[2], bform))]
    if k == 'tao':
        return [d.time_as_observations(op[1])]
    if k == 'tac':
        return [d.time_as_channels()]
    raise ValueError(f'unknown operation {op}')


def _apply_real(op, cur, form='list', bform='float'):
    from rsatoolbox.data.ops import merge_datasets
    if op[0] == 'merge':
        return [merge_datasets([cur[i] for i in op[1]])]
    if op[0] == 'pick':
        return [cur[op[1]]]
    return [w for d in cur for w in _r_unary(op, d, form, bform)]


def _check_average(d, v, by):
    """per-condition averages are the means of exactly the rows carrying that label (with their counts)"""
    from rsatoolbox.data import average_dataset_by
    avg, values, n_obs = average_dataset_by(d, by)
    want = _uniq([v.obs[by][r] for r in v.rows])
    if len(values) != len(want) or len(avg) != len(want) or len(n_obs) != len(want):
        return f'average_dataset_by({by!r}): {len(values)} labels / {len(avg)} rows returned, {len(want)} distinct labels exist'
    for u in want:
        if sum(1 for x in values if _eq(x, u)) != 1:
            return f'average_dataset_by({by!r}): label {u!r} is returned {sum(1 for x in values if _eq(x, u))} times'
    for i, u in enumerate(values):
        rows = [r for r in v.rows if _eq(v.obs[by][r], u)]
        if not _eq(n_obs[i], len(rows)):
            return f'average_dataset_by({by!r}): n_obs for label {u!r} is {n_obs[i]}, {len(rows)} rows carry it'
        for j, c in enumerate(v.cols):
            m = sum(v.val[(r, c, None)] for r in rows) / len(rows)
            if not _eq(avg[i][j] / v.scale, m, v.tol):
                return (f'average_dataset_by({by!r}): average for label {u!r}, channel {j} is {avg[i][j]}'
                        + (f' (in units of {v.scale:g}: {avg[i][j] / v.scale})' if v.scale != 1.0 else '') + ', the mean of the '
                        f'{len(rows)} rows labelled {u!r} is {m}')
    return None


# =====================================================================================================
# comparison of a real object with its view
# =====================================================================================================
def _diff(d, v):
    from rsatoolbox.data import Dataset, TemporalDataset
    if v.temporal != isinstance(d, TemporalDataset) or not isinstance(d, Dataset):
        return f'result is a {type(d).__name__}, expected a {"TemporalDataset" if v.temporal else "Dataset"}'
    shape = (len(v.rows), len(v.cols)) + ((len(v.times),) if v.temporal else ())
    m = np.asarray(d.measurements)
    if tuple(m.shape) != shape:
        return f'measurements have shape {tuple(m.shape)}, expected {shape}'
    dims = (d.n_obs, d.n_channel) + ((d.n_time,) if v.temporal else ())
    if tuple(dims) != shape:
        return f'n_obs/n_channel[/n_time] attributes are {dims}, measurements have shape {shape}'
    for i, r in enumerate(v.rows):
        for j, c in enumerate(v.cols):
            for k, t in enumerate(v.times):
                got = (m[i, j, k] if v.temporal else m[i, j]) / v.scale
                if not _eq(got, v.val[(r, c, t)], v.tol):
                    return (f'measurement at [{i},{j}' + (f',{k}' if v.temporal else '') + f'] is {got}'
                            + (f' (in units of {v.scale:g})' if v.scale != 1.0 else '') + '; the row is '
                            f'labelled as observation {r}, channel {c}, time {t} whose value is {v.val[(r, c, t)]}')
    axes = [('obs', d.obs_descriptors, v.obs, v.rows), ('channel', d.channel_descriptors, v.ch, v.cols)]
    if v.temporal:
        axes.append(('time', d.time_descriptors, v.tm, v.times))
    for which, real, model, keys in axes:
        if set(real) != set(model):
            return f'{which} descriptors are {sorted(real)}, expected {sorted(model)}'
        for n in model:
            vals = real[n]
            if len(vals) != len(keys):
                return f'{which} descriptor {n!r} has {len(vals)} entries for {len(keys)} items'
            for i, key in enumerate(keys):
                if not _eq(vals[i], model[n][key]):
                    return (f'{which} descriptor {n!r}[{i}] is {vals[i]!r}, but item {i} is {key} which carried '
                            f'{model[n][key]!r}')
    if set(d.descriptors) != set(v.desc):
        return f'dataset descriptors are {sorted(d.descriptors)}, expected {sorted(v.desc)}'
    for n in v.desc:
        if not _eq(d.descriptors[n], v.desc[n]):
            return f'dataset descriptor {n!r} is {d.descriptors[n]!r}, expected {v.desc[n]!r}'
    return None


def _diff_list(cur_r, cur_v):
    if len(cur_r) != len(cur_v):
        return f'{len(cur_r)} datasets returned, expected {len(cur_v)}'
    for i, (d, v) in enumerate(zip(cur_r, cur_v)):
        msg = _diff(d, v)
        if msg:
            return (f'part {i}: ' if len(cur_r) > 1 else '') + msg
    return None


# =====================================================================================================
# base datasets
# =====================================================================================================
_CONDS = ['c', 'a', 'b']      # first-occurrence orders of these are not their sorted order
_RUNS = [3, 1, 2]
_ROIS = ['V4', 'IT', 'V1']
_PHASES = ['q', 'p', 'r']


def _ids(n, salt):
    """n distinct ids in 1..9 in a fixed non-monotone order"""
    return [int(x) + 1 for x in np.random.RandomState(100 + 10 * salt + n).permutation(9)[:n]]


def _base_case(kind, n, seed, container='array', tm_extra=True, tmono=True, **sweep):
    """JSON-able description of a base dataset; labels are drawn here so that the case is self-describing.
    Sweep keys (all optional, see `_build`): mdtype, scale, tunit, ldtype, korder, vec, argform, binform, keep, twice"""
    rs = np.random.RandomState(seed)
    no, nc, nt = n
    case = dict(kind=kind, n=list(n), container=container,
                cond=[_CONDS[i] for i in rs.randint(0, 3, no)], run=[_RUNS[i] for i in rs.randint(0, 3, no)],
                roi=[_ROIS[i] for i in rs.randint(0, 3, nc)])
    if kind == 'temporal':
        case.update(phase=[_PHASES[i] for i in rs.randint(0, 3, nt)], tm_extra=bool(tm_extra), tmono=bool(tmono))
    case.update(sweep)
    return case


_INT_TYPES = ('int64', 'int32', 'int16', 'uint8')
_VEC = ('ovec', 'cvec', 'tvec')          # names of the vector-valued descriptors (never used as `by`)


def _sentinel(mdtype, o, c, t, pos, shape):
    """distinct value per cell; for the narrow integer types near the top of the range, so that a sum of two overflows"""
    if mdtype == 'uint8':
        i, j, k = pos
        return 255.0 - (i * shape[1] * shape[2] + j * shape[2] + k)
    if mdtype == 'int16':
        return 31000.0 + 100.0 * o + 10.0 * c + t
    return 100.0 * o + 10.0 * c + t


def _build(case):
    """-> (real dataset, view)"""
    from rsatoolbox.data import Dataset, TemporalDataset
    temporal = case['kind'] == 'temporal'
    no, nc, nt = case['n']
    oid, chid = _ids(no, 1), _ids(nc, 2)
    tid = _ids(nt, 3) if temporal else [0]
    if temporal and case.get('tmono', True):
        tid = sorted(tid)
    container = case.get('container', 'array')
    wrap = {'array': (lambda x: np.array(x)), 'list': (lambda x: list(x)),
            'tuple': (lambda x: tuple(tuple(y) if isinstance(y, list) else y for y in x))}[container]
    # ---- sweep keys -------------------------------------------------------------------------------------------------
    mdtype = case.get('mdtype', 'float64')        # dtype of the measurements
    scale = float(case.get('scale', 1.0))         # unit of the measurements (float types only)
    tunit = case.get('tunit', [0.0, 0.5])         # time = offset + step * tid, or 'int': integer time axis
    ldtype = case.get('ldtype')                   # dtype of the 'run' labels (array container)
    rev = case.get('korder') == 'rev'             # the descriptor dicts are filled in reversed key order
    vec = case.get('vec', [])                     # axes carrying a vector-valued (2-D) descriptor in addition
    assert scale == 1.0 or mdtype not in _INT_TYPES
    rows, cols = [('o', i) for i in oid], [('c', i) for i in chid]
    times = [('t', i) for i in tid] if temporal else [None]
    val = {}
    meas = np.zeros((no, nc, len(tid)))
    for i, o in enumerate(oid):
        for j, c in enumerate(chid):
            for k, t in enumerate(tid):
                x = _sentinel(mdtype, o, c, t, (i, j, k), (no, nc, len(tid)))
                meas[i, j, k] = x
                val[(rows[i], cols[j], times[k])] = x
    meas = (scale * meas).astype(mdtype)
    run = [float(x) for x in case['run']] if ldtype and 'float' in ldtype else case['run']
    obs_l = dict(oid=oid, cond=case['cond'], run=run)
    ch_l = dict(chid=chid, roi=case['roi'])
    if 'obs' in vec:
        obs_l['ovec'] = [[o, 10 * o] for o in oid]
    if 'channel' in vec:
        ch_l['cvec'] = [[0.5 * c, -1.0 * c, 7.0] for c in chid]
    desc = dict(subj=7, sess='s1')

    def order(dct):
        return dict(reversed(list(dct.items()))) if rev else dct

    def real(dct):
        out = {n: wrap(l) for n, l in order(dct).items()}
        if ldtype and 'run' in out and container == 'array':
            out['run'] = np.array(dct['run'], dtype=ldtype)
        return out
    obs = {n: dict(zip(rows, l)) for n, l in obs_l.items()}
    ch = {n: dict(zip(cols, l)) for n, l in ch_l.items()}
    tol = 1e-6 if mdtype == 'float32' else 1e-9
    if temporal:
        if tunit == 'int':
            tm_l = dict(time=[int(t) for t in tid])
        else:
            tm_l = dict(time=[tunit[0] + tunit[1] * t for t in tid])
        if case.get('tm_extra', True):
            tm_l.update(tid=tid, phase=case['phase'])
        if 'time' in vec:
            tm_l['tvec'] = [[t, t + 0.25] for t in tid]
        tm = {n: dict(zip(times, l)) for n, l in tm_l.items()}
        tdesc = {n: wrap(l) for n, l in order(tm_l).items()}
        if container == 'array':
            tdesc['time'] = np.array(tm_l['time'], dtype=int if tunit == 'int' else float)
        d = TemporalDataset(meas, descriptors=order(dict(desc)), obs_descriptors=real(obs_l),
                            channel_descriptors=real(ch_l), time_descriptors=tdesc)
        v = View(True, rows, cols, times, val, obs, ch, tm, desc, tlist=container in ('list', 'tuple'), scale=scale, tol=tol,
                 mint=mdtype in _INT_TYPES)
    else:
        d = Dataset(meas[:, :, 0].copy(), descriptors=order(dict(desc)), obs_descriptors=real(obs_l),
                    channel_descriptors=real(ch_l))
        v = View(False, rows, cols, times, val, obs, ch, {}, desc, scale=scale, tol=tol, mint=mdtype in _INT_TYPES)
    return d, v


# =====================================================================================================
# admissibility / classification of an operation in a model state, and the argument alphabet
# =====================================================================================================
def _ties(vals):
    return len(_uniq(vals)) < len(vals)


def _hasvec(dmap):
    """a descriptor map {name -> {key -> value}} holds a vector-valued descriptor"""
    return any(_isseq(x) for m in dmap.values() for x in list(m.values())[:1])


def _tag(op, cur, bform='float'):
    """None: not admissible here;  'ok': admissible, no defect known;  other: admissible, label of the known defect
    that this step may trigger on the unchanged tree (the history ends there)"""
    k = op[0]
    if any(v.empty() for v in cur):
        return None
    if k == 'merge':
        idx = op[1]
        if not idx or max(idx) >= len(cur) or len(set(idx)) != len(idx):
            return None
        vs = [cur[i] for i in idx]
        v0 = vs[0]
        keys = [r for v in vs for r in v.rows]
        if len(set(keys)) != len(keys):
            return None
        if any(v.cols != v0.cols or v.times != v0.times or v.temporal != v0.temporal for v in vs):
            return None
        if any(set(v.ch) != set(v0.ch) or set(v.tm) != set(v0.tm) for v in vs):
            return None
        return 'ok'
    if k == 'pick':
        return 'ok' if len(cur) > 1 and 0 <= op[1] < len(cur) else None
    if 'bins' in op[1:3]:
        return None               # the text of the 'bins' descriptor written by bin_time is not modelled
    worst = 'ok'
    for v in cur:
        t = _tag1(op, v)
        if t is None:
            return None
        if t == 'ok' and op[0] == 'bin_time' and bform == 'list':
            t = K_BIN_PYLIST
        if t in REPAIRED:
            t = 'ok'          # defect repaired in /repo (fix: commit): an ordinary step again
        if t != 'ok' and worst == 'ok':
            worst = t         # the operation is applied to the datasets in order: the first label is the one that can fire
    return worst


def _tag1(op, v):
    k = op[0]
    if k == 'copy':
        return 'ok'
    if k in ('sort_by', 'split_obs', 'subset_obs', 'odd_even', 'average_by'):
        if op[1] not in v.obs:
            return None
        vals = [v.obs[op[1]][r] for r in v.rows]
        if k == 'sort_by' and v.temporal and _ties(vals):
            return K_TSORT
        if k == 'odd_even' and len(_uniq(vals)) < 2:
            return K_ODD_SINGLE
        if k == 'average_by' and v.temporal:
            return None
        return 'ok'
    if k == 'nested_odd_even':
        if op[1] not in v.obs or op[2] not in v.obs or op[1] == op[2]:
            return None
        for p in _m_unary(['split_obs', op[1]], v):
            if len(_uniq([p.obs[op[2]][r] for r in p.rows])) < 2:
                return K_ODD_SINGLE
        return 'ok'
    if k in ('split_channel', 'subset_channel'):
        return 'ok' if op[1] in v.ch else None
    if k == 'df':
        if v.temporal or op[1] not in v.ch:
            return None
        names = [v.ch[op[1]][c] for c in v.cols]
        if _ties(names) or any(n in v.obs or n in v.desc for n in names):
            return None
        if 'bins' in v.obs or 'bins' in v.desc:
            return None      # text of the 'bins' descriptor is not modelled
        if _hasvec(v.obs):
            return K_VEC_DF      # (other channel descriptors than the naming one are not represented in the table)
        if not op[2]:     # default channel detection = all float columns: not admissible with float descriptors / integer data
            if v.mint or v.fl or any(isinstance(x, float) for n in v.obs for x in v.obs[n].values()) \
                    or any(isinstance(x, float) for x in v.desc.values()):
                return None
        return 'ok'
    if not v.temporal:
        return None
    if k == 'split_time':
        return 'ok' if op[1] in v.tm else None
    if k == 'subset_time':
        if op[1] not in v.tm:
            return None
        if not any(op[2] <= v.tm[op[1]][t] <= op[3] for t in v.times):
            return K_SUBT_EMPTY       # the expected result is the empty subset
        return 'ok'
    if k == 'bin_time':
        by = op[1]
        if set(v.tm) != {by}:
            return None          # what happens to other time descriptors is not specified (findings: O1)
        tv = [v.tm[by][t] for t in v.times]
        if _ties(tv) or not op[2]:
            return None
        for b in op[2]:
            if not b or any(not any(_eq(x, y) for y in tv) for x in b):
                return None
        return K_BIN_LIST if v.tlist else 'ok'
    if k == 'tao':
        if op[1] not in v.tm or any(n in v.obs for n in v.tm):
            return None
        if _hasvec(v.obs) or _hasvec(v.tm):
            return K_VEC_TAO
        if _ties([v.tm[op[1]][t] for t in v.times]):
            return K_TAO_DUP
        if len(v.rows) == 1 or len(v.cols) == 1:
            return K_TAO_SINGLE
        return 'ok'
    if k == 'tac':
        if any(n in v.ch for n in v.tm):
            return None
        return K_VEC_TAC if _hasvec(v.ch) or _hasvec(v.tm) else 'ok'
    return None


def _absent(vals):
    return 'zz' if isinstance(vals[0], str) else -1


def _candidates(cur, rich=True, extra=False):
    """the argument alphabet in a model state (JSON-able operations); `_tag` filters the admissible ones.
    extra (sweep domains only): also the DataFrame round trip with the channel columns / the rows in another order"""
    v = cur[0]
    n = len(cur)
    ops = []
    if n > 1:
        ops += [['merge', list(range(n))], ['merge', list(range(n))[::-1]], ['pick', 0], ['pick', n - 1]]
        if n > 2:
            ops += [['merge', list(range(1, n)) + [0]], ['merge', list(range(n - 1))]]
    ops.append(['copy'])
    for by in v.obs:
        if by in _VEC:
            continue
        vals = _uniq([w.obs[by][r] for w in cur if by in w.obs for r in w.rows])
        ops += [['sort_by', by], ['split_obs', by]]
        if vals:
            ops.append(['subset_obs', by, vals[0]])
            if len(vals) > 1:
                ops.append(['subset_obs', by, [vals[-1], vals[0]]])
            if rich and by == 'cond':
                ops.append(['subset_obs', by, _absent(vals)])
        if by != 'oid':
            ops.append(['odd_even', by])
            if not v.temporal:
                ops.append(['average_by', by])
    if 'cond' in v.obs and 'run' in v.obs:
        ops += [['nested_odd_even', 'cond', 'run'], ['nested_odd_even', 'run', 'cond']]
    for by in v.ch:
        if by in _VEC:
            continue
        vals = _uniq([w.ch[by][c] for w in cur if by in w.ch for c in w.cols])
        ops.append(['split_channel', by])
        if vals:
            ops.append(['subset_channel', by, vals[0]])
            if len(vals) > 1:
                ops.append(['subset_channel', by, [vals[-1], vals[0]]])
    if not v.temporal:
        for chd in v.ch:
            if chd in ('chid',):
                ops += [['df', chd, True], ['df', chd, False]]
                if extra:
                    ops += [['df', chd, True, 'perm'], ['df', chd, True, 'rows']]
        return ops
    ops.append(['tac'])
    for by in v.tm:
        if by == 'bins' or by in _VEC:
            continue
        vals = _uniq([v.tm[by][t] for t in v.times])
        ops += [['split_time', by], ['tao', by]]
        if vals:
            sv = sorted(vals)
            ops.append(['subset_time', by, sv[0], sv[-1]])
            ops.append(['subset_time', by, sv[len(sv) // 2], sv[-1]])
            if rich:
                ops.append(['subset_time', by, vals[0], vals[0]])
                if by == 'time':
                    ops.append(['subset_time', by, -5.0, -4.0])         # no time point in range: the empty subset
    if set(v.tm) == {'time'}:
        tv = [float(v.tm['time'][t]) for t in v.times]
        nt = len(tv)
        kinds = [[tv], [[t] for t in tv[::-1]]]
        if nt >= 2:
            kinds += [[tv[:nt // 2], tv[nt // 2:]], [tv[0::2], tv[1::2]]]
        if nt >= 3:
            kinds += [[[tv[0], tv[-1]], tv[1:]]]
        for b in kinds:
            if b not in [o[2] for o in ops if o[0] == 'bin_time']:
                ops.append(['bin_time', 'time', b])
    return ops


def _enumerate(base, depth, rich=True, extra=False):
    """all admissible operation sequences of length 1..depth from the base (depth-first over model states);
    a history ends after a step that carries a defect label or yields an empty dataset; yields (ops, tag)"""
    _, v0 = _build(base)
    bform = base.get('binform', 'float')

    def rec(cur, prefix):
        for op in _candidates(cur, rich, extra):
            tag = _tag(op, cur, bform)
            if tag is None:
                continue
            yield prefix + [op], tag
            if tag == 'ok' and len(prefix) + 1 < depth:
                nxt = _apply_model(op, cur)
                if not any(w.empty() for w in nxt):
                    yield from rec(nxt, prefix + [op])
    yield from rec([v0], [])


def _random_history(base, seed, length, extra=False):
    rs = np.random.RandomState(seed)
    _, v0 = _build(base)
    cur, ops = [v0], []
    for _ in range(length):
        cands = [op for op in _candidates(cur, True, extra) if _tag(op, cur, base.get('binform', 'float')) == 'ok']
        # keep the history alive: results must be non-empty; prefer not to collapse to a single cell too early
        good = []
        for op in cands:
            nxt = _apply_model(op, cur)
            if not any(w.empty() for w in nxt) and len(nxt) <= 12:
                good.append((op, nxt))
        if not good:
            break
        # weight structure-changing operations
        w = np.array([3.0 if op[0] in ('merge', 'split_obs', 'sort_by', 'odd_even', 'nested_odd_even', 'tao', 'tac',
                                       'bin_time', 'df') else 1.0 for op, _ in good])
        op, cur = good[rs.choice(len(good), p=w / w.sum())]
        ops.append(op)
    return ops


# =====================================================================================================
# oracles
# =====================================================================================================
@oracle('C11/history')
def orc_history(case):
    """sweep keys of the case: argform (list / tuple / ndarray for lists of values), binform (float / int / list), and the
    call-sequence clauses  keep: after every step the datasets the step was applied to are still what they were (sort_by, the
    only in-place operation, excepted), and at the end EVERY dataset the caller got in the course of the history still is what
    it was when it was returned;  twice: the identical call again gives the identical result"""
    d, v = _build(case)
    msg = _diff(d, v)
    if msg:
        return f'base dataset inconsistent with its view (harness error): {msg}'
    cur_r, cur_v = [d], [v]
    ops = case.get('ops', [])
    form, bform = case.get('argform', 'list'), case.get('binform', 'float')
    keep, twice = case.get('keep', False), case.get('twice', False)
    held = [[d, v]]          # every dataset object the caller holds, with the view it had when it was returned
    with warnings.catch_warnings():
        warnings.simplefilter('ignore')
        for i, op in enumerate(ops):
            where = f'step {i + 1}/{len(ops)} {op}'
            if _tag(op, cur_v, bform) is None:
                return f'{where}: harness error, operation not admissible in this state'
            prev_r, prev_v = cur_r, cur_v
            again = None
            try:
                if op[0] == 'average_by':
                    for dd, vv in zip(cur_r, cur_v):
                        for _ in range(2 if twice else 1):
                            msg = _check_average(dd, vv, op[1])
                            if msg:
                                return f'{where}: {msg}'
                    if keep:
                        msg = _diff_list(prev_r, prev_v)
                        if msg:
                            return f'{where}: the dataset the operation was applied to changed: {msg}'
                    continue
                if twice and op[0] == 'sort_by':
                    # queries before the in-place sort (their results are dropped): what is asked of the sorted dataset later
                    # must be answered from its sorted state
                    for dd, vv in zip(cur_r, cur_v):
                        for by in vv.obs:
                            if by not in _VEC:
                                dd.split_obs(by)
                                dd.subset_obs(by, vv.obs[by][vv.rows[0]])
                cur_r = _apply_real(op, cur_r, form, bform)
                if twice:
                    again = _apply_real(op, cur_r if op[0] == 'sort_by' else prev_r, form, bform)
            except Exception as e:
                return f'{where}: raised {type(e).__name__}: {e}'
            cur_v = _apply_model(op, cur_v)
            if keep:
                if op[0] == 'sort_by':       # in place: the held objects are now the sorted ones
                    for h in held:
                        for dd, vv in zip(cur_r, cur_v):
                            if h[0] is dd:
                                h[1] = vv
                else:
                    msg = _diff_list(prev_r, prev_v)
                    if msg:
                        return f'{where}: the dataset the operation was applied to changed: {msg}'
                held += [[dd, vv] for dd, vv in zip(cur_r, cur_v) if not any(h[0] is dd for h in held)]
            if case.get('last_only') and i + 1 < len(ops):
                continue
            msg = _diff_list(cur_r, cur_v)
            if msg:
                return f'{where}: {msg}'
            if again is not None:
                msg = _diff_list(again, cur_v)
                if msg:
                    return f'{where}: the identical call again: {msg}'
        for n, (dd, vv) in enumerate(held if keep else []):
            msg = _diff(dd, vv)
            if msg:
                return (f'after the history {ops}: dataset #{n} held by the caller (shape {tuple(np.shape(dd.measurements))}) is no '
                        f'longer what it was when it was returned: {msg}')
    return None


def _labelled(case):
    """dataset whose axis case['axis'] carries the explicit labels case['labels'] (descriptor 'lab') and ghost ids"""
    from rsatoolbox.data import Dataset, TemporalDataset
    lab = list(case['labels'])
    if case.get('names'):
        lab = [case['names'][i] for i in lab]
    ltype = case.get('ltype')                     # sweep: dtype of the label array (uint8, int16, float32, ...)
    if ltype and 'float' in ltype:
        lab = [float(x) for x in lab]
    n = len(lab)
    axis, temporal = case['axis'], case['kind'] == 'temporal'
    shape = [2, 2, 2]
    shape['obs channel time'.split().index(axis)] = n
    no, nc, nt = shape
    wrap = {'array': np.array, 'list': list, 'tuple': tuple}[case.get('container', 'array')]
    ids = [list(range(1, no + 1)), list(range(11, nc + 11)), list(range(21, nt + 21))]
    mdtype, scale = case.get('mdtype', 'float64'), float(case.get('scale', 1.0))      # sweep: typed data, units
    if mdtype in _INT_TYPES:        # distinct integers; uint8 / int16: at the top of the range (a sum of two overflows)
        top = {'uint8': 255.0, 'int16': 32767.0}.get(mdtype, 10000.0)
        assert no * nc * nt <= 250
        meas = top - np.arange(no * nc * nt, dtype=float).reshape(no, nc, nt)
    else:
        meas = np.array([[[1000.0 * o + 10.0 * c + 0.1 * t for t in ids[2]] for c in ids[1]] for o in ids[0]])
    real = (scale * meas).astype(mdtype)
    od, cd, td = dict(oid=wrap(ids[0])), dict(chid=wrap(ids[1])), dict(time=np.array(ids[2], dtype=float), tid=wrap(ids[2]))
    {'obs': od, 'channel': cd, 'time': td}[axis]['lab'] = np.array(lab, dtype=ltype) if ltype and wrap is np.array else wrap(lab)
    if temporal:
        return TemporalDataset(real, descriptors={'subj': 1}, obs_descriptors=od, channel_descriptors=cd,
                               time_descriptors=td), meas, lab, ids
    return Dataset(real[:, :, 0].copy(), descriptors={'subj': 1}, obs_descriptors=od, channel_descriptors=cd), \
        meas[:, :, :1], lab, ids


def _cells_g(d, temporal, scale=1.0, digits=6):
    """multiset of labelled measurements [(oid, chid, tid, obs-lab, value)] read off a real dataset (values in units of `scale`)"""
    out = []
    m = np.asarray(d.measurements)
    for i in range(m.shape[0]):
        for j in range(m.shape[1]):
            for k in range(m.shape[2] if temporal else 1):
                out.append((int(d.obs_descriptors['oid'][i]), int(d.channel_descriptors['chid'][j]),
                            int(d.time_descriptors['tid'][k]) if temporal else 21,
                            round(float(m[i, j, k] if temporal else m[i, j]) / scale, digits)))
    return sorted(out)


def _expected_cells_g(meas, ids, oi, ci, ti, digits=6):
    return sorted((ids[0][i], ids[1][j], ids[2][k], round(float(meas[i, j, k]), digits)) for i in oi for j in ci for k in ti)


@oracle('C11/labels')
def orc_labels(case):
    """split / subset / merge / odd-even / average on explicit label sequences, checked directly against the statement"""
    from rsatoolbox.data import average_dataset_by
    from rsatoolbox.data.ops import merge_datasets
    d, meas, lab, ids = _labelled(case)
    axis, temporal, what = case['axis'], case['kind'] == 'temporal', case['what']
    ax = 'obs channel time'.split().index(axis)
    n = len(lab)
    full = [list(range(meas.shape[0])), list(range(meas.shape[1])), list(range(meas.shape[2]))]
    distinct = _uniq(lab)
    # sweep keys: unit and dtype of the measurements (`meas` holds the values in units of scale), form of a list of values
    scale, f32 = float(case.get('scale', 1.0)), case.get('mdtype') == 'float32'
    vform = {'list': list, 'tuple': tuple, 'ndarray': np.array}[case.get('argform', 'list')]

    def _cells(p, temporal):
        return _cells_g(p, temporal, scale, 2 if f32 else 6)

    def _expected_cells(m, i, oi, ci, ti):
        return _expected_cells_g(m, i, oi, ci, ti, 2 if f32 else 6)

    def state():       # what the caller can see of the input: labelled cells, labels and ids in order
        return (_cells(d, temporal), [str(x) for x in labels_of(d)], sorted((k_, str(x)) for k_, x in d.descriptors.items()),
                [int(x) for x in d.obs_descriptors['oid']], [int(x) for x in d.channel_descriptors['chid']],
                sorted(d.obs_descriptors), sorted(d.channel_descriptors), sorted(getattr(d, 'time_descriptors', {})))

    def sel(idx):
        s = [list(x) for x in full]
        s[ax] = idx
        return s

    def labels_of(p):
        return list({'obs': p.obs_descriptors, 'channel': p.channel_descriptors,
                     'time': getattr(p, 'time_descriptors', None)}[axis]['lab'])
    before = state()
    with warnings.catch_warnings():
        warnings.simplefilter('ignore')
        if what == 'split':
            parts = {'obs': d.split_obs, 'channel': d.split_channel, 'time': getattr(d, 'split_time', None)}[axis]('lab')
            if len(parts) != len(distinct):
                return f'split gives {len(parts)} parts for {len(distinct)} distinct labels {distinct}'
            seen = []
            for pi, p in enumerate(parts):
                pl = labels_of(p)
                if len(_uniq(pl)) != 1:
                    return f'part {pi} holds items labelled {pl}'
                u = pl[0]
                if any(_eq(u, s) for s in seen):
                    return f'two parts hold items labelled {u!r}'
                seen.append(u)
                if 'lab' in p.descriptors and not _eq(p.descriptors['lab'], u):
                    return f"part {pi} is labelled descriptors['lab']={p.descriptors['lab']!r} but its items carry {u!r}"
                if not _eq(u, distinct[pi]):
                    return f'part {pi} holds label {u!r}; order of first occurrence is {distinct}'
                if axis == 'channel' or (axis == 'obs' and not temporal):
                    if 'lab' not in p.descriptors:
                        return f'part {pi} is not labelled with the value it was split by'
                idx = [i for i in range(n) if _eq(lab[i], u)]
                want = _expected_cells(meas, ids, *sel(idx))
                if _cells(p, temporal) != want:
                    return f'part {pi} (label {u!r}) does not hold exactly the items {idx} of the source with their ids'
                got_ids = [int(x) for x in {'obs': p.obs_descriptors['oid'], 'channel': p.channel_descriptors['chid'],
                                            'time': getattr(p, 'time_descriptors', {}).get('tid', [])}[axis]]
                if got_ids != [ids[ax][i] for i in idx]:
                    return f'part {pi} (label {u!r}) holds items {got_ids}, source order is {[ids[ax][i] for i in idx]}'
            if axis == 'obs':
                mg = merge_datasets(parts)
                if _cells(mg, temporal) != _expected_cells(meas, ids, *full):
                    return 'merge of the parts of split_obs does not return the original rows (as a multiset, with their ids)'
                got = sorted((int(o), str(x)) for o, x in zip(mg.obs_descriptors['oid'], mg.obs_descriptors['lab']))
                if got != sorted((ids[0][i], str(lab[i])) for i in range(n)):
                    return f'merge of the parts of split_obs: (oid, label) pairs are {got}'
                if [int(o) for o in mg.obs_descriptors['oid']] != [ids[0][i] for u in distinct for i in range(n) if _eq(lab[i], u)]:
                    return 'merge of the parts is not their concatenation in list order'
        elif what == 'subset':
            # (a list may name a value twice, e.g. another dataset's descriptor column: every matching item still once)
            for value in list(distinct) + ([[distinct[-1], distinct[0]]] if len(distinct) > 1 else []) + [[distinct[0], distinct[0]]] \
                    + ([[distinct[0], distinct[-1], distinct[0]]] if len(distinct) > 1 else []):
                if axis == 'time':
                    if isinstance(value, list):
                        continue
                    p = d.subset_time('lab', value, value)
                else:
                    p = {'obs': d.subset_obs, 'channel': d.subset_channel}[axis]('lab', vform(value) if isinstance(value, list)
                                                                                 else value)
                idx = [i for i in range(n) if _match(lab[i], value)]
                got_ids = [int(x) for x in {'obs': p.obs_descriptors['oid'], 'channel': p.channel_descriptors['chid'],
                                            'time': getattr(p, 'time_descriptors', {}).get('tid', [])}[axis]]
                if got_ids != [ids[ax][i] for i in idx]:
                    return f'subset {value!r} holds items {got_ids}, the matching items in original order are {[ids[ax][i] for i in idx]}'
                if _cells(p, temporal) != _expected_cells(meas, ids, *sel(idx)):
                    return f'subset {value!r}: measurements are not those of the matching items'
                if not all(_eq(a, b) for a, b in zip(labels_of(p), [lab[i] for i in idx])):
                    return f'subset {value!r}: labels are {labels_of(p)}, the items carried {[lab[i] for i in idx]}'
        elif what == 'odd_even':
            odd, even = d.odd_even_split('lab')
            lo, le = labels_of(odd), labels_of(even)
            if any(_eq(a, b) for a in lo for b in le):
                return f'odd half holds labels {_uniq(lo)}, even half {_uniq(le)}: a label is on both sides'
            if sorted(_cells(odd, temporal) + _cells(even, temporal)) != _expected_cells(meas, ids, *full):
                return 'odd and even halves together are not the original rows (as a multiset, with their ids)'
            for h, name in ((odd, 'odd'), (even, 'even')):
                for o, x in zip(h.obs_descriptors['oid'], labels_of(h)):
                    if not _eq(x, lab[ids[0].index(int(o))]):
                        return f'{name} half: observation {int(o)} is labelled {x!r}, it carried {lab[ids[0].index(int(o))]!r}'
            want_odd = [ids[0][i] for u in distinct[0::2] for i in range(n) if _eq(lab[i], u)]
            if [int(o) for o in odd.obs_descriptors['oid']] != want_odd:
                return f'odd half holds observations {[int(o) for o in odd.obs_descriptors["oid"]]}, parts 0,2,.. are {want_odd}'
        elif what == 'average':
            avg, values, n_obs = average_dataset_by(d, 'lab')
            if len(values) != len(distinct) or sorted(map(str, values)) != sorted(map(str, distinct)):
                return f'average_dataset_by returns labels {list(values)}, distinct labels are {distinct}'
            for i, u in enumerate(values):
                idx = [k for k in range(n) if _eq(lab[k], u)]
                want = np.mean([meas[k, :, 0] for k in idx], axis=0)
                if not all(_eq(a / scale, b, 1e-6 if f32 else 1e-9) for a, b in zip(avg[i], want)):
                    return (f'average for label {u!r} is {list(avg[i])}' + (f' (in units of {scale:g})' if scale != 1.0 else '')
                            + f'; mean of rows {idx} labelled {u!r} is {list(want)}')
                if not _eq(n_obs[i], len(idx)):
                    return f'n_obs for label {u!r} is {n_obs[i]}, {len(idx)} rows carry it'
            if case.get('nonfinite') and len(distinct) >= 2:
                # a missing / overflowed sample (NaN / inf) in ONE row: only the average of that row's label may be affected
                bad = float('nan') if case['nonfinite'] == 'nan' else float('inf')
                d2 = _labelled(case)[0]
                r0 = n // 2
                d2.measurements[r0, 0] = bad
                avg2, values2, _ = average_dataset_by(d2, 'lab')
                for i, u in enumerate(values2):
                    idx = [k for k in range(n) if _eq(lab[k], u)]
                    want = np.mean([meas[k, :, 0] for k in idx], axis=0)
                    for j in range(len(want)):
                        if r0 in idx and j == 0:
                            if np.isfinite(avg2[i][j]):
                                return f'{case["nonfinite"]} in row {r0}, channel 0: the average of its label {u!r} is finite ({avg2[i][j]!r})'
                        elif not _eq(avg2[i][j] / scale, want[j], 1e-6 if f32 else 1e-9):
                            return (f'{case["nonfinite"]} in row {r0} (label {lab[r0]!r}), channel 0: the average for label {u!r}, '
                                    f'channel {j} became {avg2[i][j]!r}; the mean of its own rows {idx} is {want[j] * scale!r}')
        else:
            return f'harness error: unknown check {what}'
    if state() != before:
        return f'{what}: the dataset it was applied to is no longer what it was (labelled cells / labels / ids changed)'
    return None


@oracle('C11/bin-time')
def orc_bin(case):
    """sweep keys: tunit [offset, step] (time point i of case['time'] is offset + step * i, the bins likewise; both are computed
    by the same expression, so that membership is exact), tform (container / dtype of the time descriptor: array, list, tuple,
    int), bform (bins as float arrays, int arrays, python lists), mdtype / scale (dtype and unit of the measurements),
    twice (the identical call again)"""
    from rsatoolbox.data import TemporalDataset
    off, step = case.get('tunit', [0.0, 1.0])

    def tval(t):
        return off + step * float(t)
    time = [tval(t) for t in case['time']]
    no, nc = case['n']
    nt = len(time)
    mdtype, scale = case.get('mdtype', 'float64'), float(case.get('scale', 1.0))
    if mdtype == 'uint8':        # distinct, at the top of the range: the sum of two members overflows uint8
        meas = np.array([[[255.0 - (10.0 * (o - 1) + 5.0 * (c - 1) + (t - 1)) for t in range(1, nt + 1)] for c in range(1, nc + 1)]
                         for o in range(1, no + 1)])
        assert nt <= 5 and nc <= 2
    else:
        base = 32000.0 if mdtype == 'int16' else 0.0
        meas = np.array([[[base + 100.0 * o + 10.0 * c + t for t in range(1, nt + 1)] for c in range(1, nc + 1)]
                         for o in range(1, no + 1)])
    real = (scale * meas).astype(mdtype)
    tol = 1e-6 if mdtype == 'float32' else 1e-9
    cond = [['x', 'y', 'x'][i % 3] for i in range(no)]
    roi = [['V1', 'IT'][j % 2] for j in range(nc)]
    tform = case.get('tform', 'array')
    tdesc = {'array': lambda x: np.array(x, dtype=float), 'list': list, 'tuple': tuple,
             'int': lambda x: np.array([int(round(y)) for y in x], dtype=int)}[tform](time)
    d = TemporalDataset(real.copy(), descriptors={'subj': 1}, obs_descriptors={'cond': np.array(cond)},
                        channel_descriptors={'roi': np.array(roi)}, time_descriptors={'time': tdesc})
    bins = [[tval(x) for x in b] for b in case['bins']]
    for rep_ in range(2 if case.get('twice') else 1):
        b = d.bin_time('time', _binform(bins, case.get('bform', 'float')))
        again = ' (the identical call again)' if rep_ else ''
        if tuple(b.measurements.shape) != (no, nc, len(bins)):
            return f'binned measurements have shape {tuple(b.measurements.shape)}, expected {(no, nc, len(bins))}{again}'
        if list(b.obs_descriptors['cond']) != cond or list(b.channel_descriptors['roi']) != roi:
            return 'obs / channel descriptors changed by bin_time' + again
        if b.descriptors != {'subj': 1}:
            return 'dataset descriptors changed by bin_time' + again
        if len(b.time_descriptors['time']) != len(bins):
            return f"time descriptor has {len(b.time_descriptors['time'])} entries for {len(bins)} bins{again}"
        for i, members_t in enumerate(bins):
            members = [k for k in range(nt) if any(time[k] == x for x in members_t)]
            for o in range(no):
                for c in range(nc):
                    want = sum(meas[o, c, k] for k in members) / len(members)
                    if not _eq(b.measurements[o, c, i] / scale, want, tol):
                        return (f'bin {i} {members_t}: value at obs {o}, channel {c} is {b.measurements[o, c, i]}'
                                + (f' (in units of {scale:g}: {b.measurements[o, c, i] / scale})' if scale != 1.0 else '')
                                + f'; the mean of the time points {[time[k] for k in members]} listed in the bin is {want}{again}')
            tw = sum(time[k] for k in members) / len(members)
            # tolerance relative to the largest member (the mean of time points around 0 may cancel to 0 +- rounding)
            if abs(float(b.time_descriptors['time'][i]) - tw) > 1e-9 * max(abs(time[k]) for k in members):
                return f"bin {i} {members_t}: time label is {b.time_descriptors['time'][i]}, mean of its time points is {tw}{again}"
        if not np.array_equal(d.measurements, real) or d.measurements.dtype != real.dtype:
            return 'bin_time modified the measurements of its input'
        if [float(x) for x in d.time_descriptors['time']] != [float(x) for x in tdesc] or list(d.time_descriptors) != ['time']:
            return 'bin_time modified the time descriptors of its input'
    return None


@oracle('C11/sort-stable')
def orc_sort(case):
    from rsatoolbox.data import Dataset, TemporalDataset
    rs = np.random.RandomState(case['seed'])
    n, k = case['n'], case['k']
    lab = rs.randint(0, k, n)
    if case.get('labels') is not None:
        lab = np.array(case['labels'])
    typ = case['type']
    # sweep types: typed key arrays (uint8, int16 incl. negative values, float32), keys whose order is the reverse of the label
    # order ('neg'), keys in extreme units ('tiny': steps of 5e-13, 'big': steps of 0.5 on an offset of 1e6), strings of
    # unequal length ('str2'; their order is not that of their first characters' positions in the list)
    key = {'int': [int(x) for x in lab], 'float': [0.5 * int(x) for x in lab], 'str': ['abcdefgh'[int(x)] for x in lab],
           'uint8': [int(x) for x in lab], 'int16': [int(x) - 1 for x in lab], 'float32': [0.5 * int(x) for x in lab],
           'neg': [-0.5 * int(x) for x in lab], 'tiny': [5e-13 * int(x) for x in lab], 'big': [1e6 + 0.5 * int(x) for x in lab],
           'str2': [['b', 'ab', 'abc', 'a', 'ba', 'B', 'aa', ''][int(x)] for x in lab]}[typ]
    wrap = {'array': np.array, 'list': list, 'tuple': tuple}[case.get('container', 'array')]
    kwrap = (lambda x: np.array(x, dtype=typ)) if typ in ('uint8', 'int16', 'float32') and wrap is np.array else wrap
    oid = list(range(n))
    other = ['uvw'[i % 3] for i in range(n)]
    mdtype = case.get('mdtype', 'float64')            # sweep: dtype of the measurements (values are moved, never changed)
    if case['kind'] == 'temporal':
        meas = np.array([[[10.0 * o + c + 0.1 * t for t in range(2)] for c in range(2)] for o in oid])
        if mdtype in _INT_TYPES:
            meas = np.array([[[10.0 * o + 2 * c + t for t in range(2)] for c in range(2)] for o in oid])
        meas = meas.astype(mdtype)
        d = TemporalDataset(meas.copy(), obs_descriptors=dict(key=kwrap(key), oid=wrap(oid), other=wrap(other)))
    else:
        meas = np.array([[10.0 * o + c for c in range(2)] for o in oid]).astype(mdtype)
        d = Dataset(meas.copy(), obs_descriptors=dict(key=kwrap(key), oid=wrap(oid), other=wrap(other)))
    assert len({tuple(np.ravel(x).tolist()) for x in meas}) == n
    d.sort_by('key')
    if case.get('twice'):         # call sequence: sorting the sorted dataset again changes nothing (stability)
        d.sort_by('key')
    want = sorted(oid, key=lambda i: key[i])              # stable
    got = [int(x) for x in d.obs_descriptors['oid']]
    if sorted(got) != oid:
        return f'sort_by is not a permutation of the observations: {got}'
    gk = list(d.obs_descriptors['key'])
    for a, b in zip(gk, gk[1:]):
        if a > b:
            return f'not sorted: keys after sort_by are {gk}'
    for pos, o in enumerate(got):
        if not _eq(gk[pos], key[o]) or d.obs_descriptors['other'][pos] != other[o]:
            return f'row {pos} is observation {o} but carries key {gk[pos]!r} / other {d.obs_descriptors["other"][pos]!r}'
        if not np.array_equal(d.measurements[pos], meas[o]) or d.measurements.dtype != meas.dtype:
            return f'row {pos} is labelled observation {o} but holds the measurements of another observation'
    if got != want:
        bad = next(i for i in range(n) if got[i] != want[i])
        return (f'not stable: keys {key}; observations with equal key are reordered, result order {got}, stable order {want} '
                f'(first difference at row {bad})')
    return None


@oracle('C11/conversions')
def orc_convert(case):
    from rsatoolbox.data import TemporalDataset, Dataset
    no, nc, nt = case['n']
    wrap = {'array': np.array, 'list': list, 'tuple': tuple}[case.get('container', 'array')]
    oid, chid, tid = list(range(1, no + 1)), list(range(11, nc + 11)), list(range(21, nt + 21))
    cond = [['b', 'a', 'b'][i % 3] for i in range(no)]
    roi = [['y', 'x'][j % 2] for j in range(nc)]
    # sweep keys: tunit [offset, step] of the time axis, mdtype / scale of the measurements (values are only moved: exact)
    off, step = case.get('tunit', [0.0, 0.5])
    time = [off + step * t for t in tid]
    mdtype = case.get('mdtype', 'float64')
    meas = np.array([[[100.0 * o + 10.0 * (c - 10) + (t - 20) for t in tid] for c in chid] for o in oid])
    if mdtype == 'uint8':
        meas = 255.0 - np.arange(no * nc * nt, dtype=float).reshape(no, nc, nt)
    meas = (float(case.get('scale', 1.0)) * meas).astype(mdtype)
    assert len(set(meas.ravel().tolist())) == meas.size
    d = TemporalDataset(meas.copy(), descriptors={'subj': 3}, obs_descriptors=dict(oid=wrap(oid), cond=wrap(cond)),
                        channel_descriptors=dict(chid=wrap(chid), roi=wrap(roi)),
                        time_descriptors=dict(time=wrap(time) if wrap is tuple else np.array(time), tid=wrap(tid)))
    want = sorted((oid[i], cond[i], chid[j], roi[j], tid[k], time[k], float(meas[i, j, k]))
                  for i in range(no) for j in range(nc) for k in range(nt))
    if case['op'] == 'tao':
        f = d.time_as_observations('time')
        if type(f) is not Dataset:
            return f'time_as_observations returns a {type(f).__name__}'
        if tuple(f.measurements.shape) != (no * nt, nc):
            return f'time_as_observations: shape {tuple(f.measurements.shape)}, expected {(no * nt, nc)}'
        for n_ in ('oid', 'cond', 'time', 'tid'):
            if n_ not in f.obs_descriptors or len(f.obs_descriptors[n_]) != no * nt:
                return f'time_as_observations: obs descriptor {n_!r} missing or of wrong length'
        if [int(x) for x in f.channel_descriptors['chid']] != chid or list(f.channel_descriptors['roi']) != roi:
            return 'time_as_observations: channel descriptors changed'
        got = sorted((int(f.obs_descriptors['oid'][r]), str(f.obs_descriptors['cond'][r]), chid[j], roi[j],
                      int(f.obs_descriptors['tid'][r]), float(f.obs_descriptors['time'][r]), float(f.measurements[r, j]))
                     for r in range(no * nt) for j in range(nc))
    else:
        f = d.time_as_channels()
        if type(f) is not Dataset:
            return f'time_as_channels returns a {type(f).__name__}'
        if tuple(f.measurements.shape) != (no, nc * nt):
            return f'time_as_channels: shape {tuple(f.measurements.shape)}, expected {(no, nc * nt)}'
        for n_ in ('chid', 'roi', 'time', 'tid'):
            if n_ not in f.channel_descriptors or len(f.channel_descriptors[n_]) != nc * nt:
                return f'time_as_channels: channel descriptor {n_!r} missing or of wrong length'
        if [int(x) for x in f.obs_descriptors['oid']] != oid or list(f.obs_descriptors['cond']) != cond:
            return 'time_as_channels: obs descriptors changed'
        got = sorted((oid[i], cond[i], int(f.channel_descriptors['chid'][c]), str(f.channel_descriptors['roi'][c]),
                      int(f.channel_descriptors['tid'][c]), float(f.channel_descriptors['time'][c]), float(f.measurements[i, c]))
                     for i in range(no) for c in range(nc * nt))
    if f.descriptors != {'subj': 3}:
        return f'dataset descriptors became {f.descriptors}'
    if not np.array_equal(d.measurements, meas) or d.measurements.dtype != meas.dtype \
            or [float(x) for x in d.time_descriptors['time']] != time or [int(x) for x in d.obs_descriptors['oid']] != oid:
        return 'the conversion changed the temporal dataset it was applied to'
    if got != want:
        bad = next((g, w) for g, w in zip(got, want) if g != w)
        return (f'the labelled measurements (oid, cond, chid, roi, tid, time, value) differ from the original: e.g. {bad[0]} '
                f'where the original has {bad[1]}')
    return None


_CHILD = r"""
import json, sys
import contracts.C11_c  # noqa: registers the oracles
import rsatoolbox.data  # noqa: before the jobs are read, so that the interpreters start up side by side
from vf.rt.harness import ORACLES
out = []
for name, case in json.load(sys.stdin):
    try:
        out.append(ORACLES[name](case))
    except Exception as e:
        out.append(f'exception {type(e).__name__}: {e}')
json.dump(out, sys.stdout)
"""


@oracle('C11/fresh-interpreter')
def orc_fresh(case):
    """environment: a new interpreter started with another PYTHONHASHSEED (the order in which sets of descriptor names / labels
    are iterated changes) satisfies the same oracles on the same cases; case = dict(hashseeds=[..], jobs=[[oracle, case], ..])"""
    import json
    import os
    import subprocess
    import sys
    job = json.dumps(case['jobs'])
    procs = []
    for hs in case['hashseeds']:
        env = dict(os.environ, PYTHONHASHSEED=str(hs), MPLBACKEND='Agg', PYTHONDONTWRITEBYTECODE='1',
                   PYTHONPATH=os.pathsep.join(x for x in sys.path if x))
        procs.append((hs, subprocess.Popen([sys.executable, '-c', _CHILD], stdin=subprocess.PIPE, stdout=subprocess.PIPE,
                                           stderr=subprocess.PIPE, env=env, text=True)))
    res = None
    for hs, pr in procs:
        try:
            o, e = pr.communicate(job, timeout=300)
        except subprocess.TimeoutExpired:
            pr.kill()
            res = res or f'PYTHONHASHSEED={hs}: the new interpreter did not finish within 300 s'
            continue
        if pr.returncode != 0:
            res = res or f'PYTHONHASHSEED={hs}: the new interpreter failed: {e.strip().splitlines()[-1:]}'
            continue
        for (name, c), r in zip(case['jobs'], json.loads(o)):
            if r is not None and res is None:
                res = f'PYTHONHASHSEED={hs}: {name} on {json.dumps(c)[:600]}: {r}'
    return res


# =====================================================================================================
# domains
# =====================================================================================================
def _hist_class(kind, tag):
    return kind if tag == 'ok' else tag


def _hist_function(ops):
    names = {'tao': 'time_as_observations', 'tac': 'time_as_channels', 'merge': 'merge_datasets', 'df': 'to_df/from_df',
             'odd_even': 'odd_even_split', 'nested_odd_even': 'nested_odd_even_split', 'average_by': 'average_dataset_by',
             'pick': 'split_obs'}
    return names.get(ops[-1][0], ops[-1][0])


def tier_c(run, thorough):
    bds = []

    # ---- exhaustive label sequences --------------------------------------------------------------
    L = 6 if thorough else 5
    bd = Bounded(run, 'C11/labels', 'C11/split-subset-merge-average/oracle/labels',
                 'ALL label sequences of length 1..%d over 3 values (int and str labels, array descriptors; list descriptors '
                 'for length <= 3) on the obs / channel / time axis of 2x2[x2]-extended flat and temporal datasets; '
                 'split+merge, subset, odd_even_split, average_dataset_by%s' % (
                     L, ' (length 6: int labels on flat obs / flat channel / temporal time only)' if thorough else ''), exhaustive=True, function='split_obs')
    fn = {('split', 'obs'): 'split_obs', ('split', 'channel'): 'split_channel', ('split', 'time'): 'split_time',
          ('subset', 'obs'): 'subset_obs', ('subset', 'channel'): 'subset_channel', ('subset', 'time'): 'subset_time',
          ('odd_even', 'obs'): 'odd_even_split', ('average', 'obs'): 'average_dataset_by'}
    for n in range(1, L + 1):
        for labels in itertools.product(range(3), repeat=n):
            for names in (None, ['c', 'a', 'b']) if n <= 5 else (None,):
                for container in (('array', 'list') if n <= 3 else ('array',)):
                    for kind, axis in (('flat', 'obs'), ('flat', 'channel'), ('temporal', 'obs'), ('temporal', 'channel'),
                                       ('temporal', 'time')):
                        for what in ('split', 'subset', 'odd_even', 'average'):
                            if (what, axis) not in fn or (what == 'average' and kind != 'flat'):
                                continue
                            if n == 6 and (kind, axis) not in (('flat', 'obs'), ('temporal', 'time'), ('flat', 'channel')):
                                continue
                            case = dict(labels=list(labels), names=names, container=container, kind=kind, axis=axis, what=what)
                            ic = f'{kind},{axis}'
                            if what == 'odd_even' and len(set(labels)) < 2:
                                ic = K_ODD_SINGLE
                            bd.check(orc_labels, case, ic, function=fn[(what, axis)])
                            if what == 'average' and len(set(labels)) >= 2 and n >= 3 and container == 'array':
                                # one missing / overflowed sample: only the average of its own label may change
                                bd.check(orc_labels, dict(case, nonfinite=('nan', 'inf')[n % 2]), f'{kind},{axis},non-finite-sample',
                                         function=fn[(what, axis)])
    bd.done()
    bds.append(bd)

    # ---- bin_time ------------------------------------------------------------------------------
    NT = 5 if thorough else 4
    bd = Bounded(run, 'C11/bin-time', 'C11/bin_time/oracle/means-of-members',
                 'ALL assignments of 1..%d time points to two bins (each point in none / first / second / both, both bins '
                 'non-empty) plus single-bin and three-bin covers; sorted and unsorted time axis; shapes (3,2) and, for '
                 '<= 3 points, (1,2), (2,1), (1,1)' % NT, exhaustive=True, function='bin_time')
    for nt in range(1, NT + 1):
        axes = [[float(t) for t in range(nt)]]
        if nt >= 3:
            axes.append([float(t) for t in {3: [2, 0, 1], 4: [2, 0, 3, 1], 5: [3, 0, 4, 1, 2]}[nt]])      # unsorted, distinct
        for time in axes:
            assert len(set(time)) == nt
            for assign in itertools.product(range(4), repeat=nt):
                b0 = [time[i] for i in range(nt) if assign[i] in (1, 3)]
                b1 = [time[i] for i in range(nt) if assign[i] in (2, 3)]
                if not b0 or not b1:
                    continue
                for shape in ([(3, 2)] + ([(1, 2), (2, 1), (1, 1)] if nt <= 3 else [])):
                    contiguous = all(_is_stretch(b, time) for b in (b0, b1))
                    bd.check(orc_bin, dict(time=time, bins=[b0, b1], n=list(shape)),
                             'contiguous-bins' if contiguous else 'non-contiguous-bins', function='bin_time')
            bd.check(orc_bin, dict(time=time, bins=[time], n=[2, 2]), 'contiguous-bins', function='bin_time')
            bd.check(orc_bin, dict(time=time, bins=[[t] for t in time[::-1]], n=[2, 2]), 'contiguous-bins', function='bin_time')
            if nt >= 3:
                bd.check(orc_bin, dict(time=time, bins=[time[0::3], time[1::3], time[2::3]], n=[2, 2]),
                         'non-contiguous-bins', function='bin_time')
    bd.done()
    bds.append(bd)

    # ---- stability of sorting ------------------------------------------------------------------------
    bd = Bounded(run, 'C11/sort-stable', 'C11/sort_by/oracle/stable-permutation',
                 'all key sequences of length 2..%d over 2 values and seeded sequences of length 5..64 over 2..4 values; '
                 'int / float / str keys; list / array descriptors; Dataset and TemporalDataset' % (6 if thorough else 5),
                 exhaustive=False, function='sort_by')
    for kind in ('flat', 'temporal'):
        ic = 'flat' if kind == 'flat' else K_TSORT
        fnn = 'Dataset.sort_by' if kind == 'flat' else 'TemporalDataset.sort_by'
        for n in range(2, 7 if thorough else 6):
            for labels in itertools.product(range(2), repeat=n):
                for typ in ('int', 'str'):
                    bd.check(orc_sort, dict(kind=kind, n=n, k=2, seed=0, labels=list(labels), type=typ, container='array'),
                             ic if len(set(labels)) < n else kind, function=fnn)
        for n in ([5, 8, 12, 16, 17, 18, 24, 33, 40, 64] if thorough else [8, 16, 17, 24, 40]):
            for k in (2, 3, 4):
                for seed in range(4 if thorough else 2):
                    for typ in ('int', 'float', 'str'):
                        for container in ('array', 'list'):
                            bd.check(orc_sort, dict(kind=kind, n=n, k=k, seed=seed, type=typ, container=container), ic,
                                     function=fnn)
    bd.done()
    bds.append(bd)

    # ---- conversions, all small shapes ------------------------------------------------------------------
    bd = Bounded(run, 'C11/conversions', 'C11/time_as_observations,time_as_channels/oracle/labelled-cells',
                 'ALL shapes (n_obs, n_channel, n_time) in {1,2,3}^3, array and list descriptors', exhaustive=True,
                 function='time_as_observations')
    for shape in itertools.product((1, 2, 3), repeat=3):
        for container in ('array', 'list'):
            for op in ('tao', 'tac'):
                ic = 'generic-shape'
                if op == 'tao' and (shape[0] == 1 or shape[1] == 1):
                    ic = K_TAO_SINGLE
                bd.check(orc_convert, dict(n=list(shape), container=container, op=op), ic,
                         function='time_as_observations' if op == 'tao' else 'time_as_channels')
    bd.done()
    bds.append(bd)

    # ---- histories: exhaustive short sequences ----------------------------------------------------------
    flat_shapes = [(1, 1), (1, 2), (2, 1), (3, 2), (4, 3)]
    temp_shapes = [(1, 1, 1), (1, 2, 2), (2, 1, 2), (2, 2, 1), (3, 2, 2), (3, 2, 3)]
    bases = []
    for s in flat_shapes:
        bases.append(_base_case('flat', s + (1,), seed=sum(s), container='array'))
    bases.append(_base_case('flat', (3, 2, 1), seed=2, container='list'))
    for s in temp_shapes:
        bases.append(_base_case('temporal', s, seed=sum(s), container='array', tm_extra=True, tmono=True))
        bases.append(_base_case('temporal', s, seed=sum(s) + 1, container='array', tm_extra=False, tmono=(s[2] < 3)))
    bases.insert(3, _base_case('temporal', (2, 2, 3), seed=4, container='list', tm_extra=True, tmono=False))
    bases.insert(4, _base_case('temporal', (2, 2, 2), seed=5, container='list', tm_extra=False, tmono=True))
    if thorough:
        bases.append(_base_case('flat', (5, 3, 1), seed=11, container='array'))
        bases.append(_base_case('temporal', (4, 3, 4), seed=12, container='array', tm_extra=False, tmono=False))
        bases.append(_base_case('temporal', (4, 2, 3), seed=13, container='array', tm_extra=True, tmono=False))
    bd = Bounded(run, 'C11/history-exhaustive', 'C11/dataset-operations/oracle/model-based-history',
                 'ALL admissible operation sequences of length 1..2 over the argument alphabet of _candidates from %d base '
                 'datasets (flat shapes %s, temporal shapes %s; list / array descriptors; with / without extra time '
                 'descriptors; sorted / unsorted time axis)%s' % (
                     len(bases), flat_shapes, temp_shapes,
                     '; length 3 on the bases with at most 12 cells' if thorough else ''),
                 exhaustive=True, function='Dataset operations', budget_s=600 if thorough else 30)
    for base in bases:
        cells = base['n'][0] * base['n'][1] * base['n'][2]
        depth = 3 if (thorough and cells <= 12) else 2
        for ops, tag in _enumerate(base, depth, rich=True):
            if bd.out_of_budget():
                break
            case = dict(base, ops=ops, last_only=True)
            bd.check(orc_history, case, _hist_class(base['kind'], tag), function=_hist_function(ops))
    bd.done()
    bds.append(bd)

    # ---- histories: seeded random longer sequences -------------------------------------------------------
    n_rand = 1500 if thorough else 150
    bd = Bounded(run, 'C11/history-random', 'C11/dataset-operations/oracle/model-based-history',
                 '%d seeded random admissible operation sequences of length <= 8 from flat datasets up to 6x4 and temporal '
                 'datasets up to 5x3x4, compared with the view after every step' % n_rand, exhaustive=False,
                 function='Dataset operations', budget_s=240 if thorough else 15)
    for s in range(n_rand):
        if bd.out_of_budget():
            break
        rs = np.random.RandomState(1000 + s)
        if s % 2 == 0:
            base = _base_case('flat', (int(rs.randint(2, 7)), int(rs.randint(1, 5)), 1), seed=s,
                              container='list' if s % 6 == 0 else 'array')
        else:
            base = _base_case('temporal', (int(rs.randint(2, 6)), int(rs.randint(1, 4)), int(rs.randint(1, 5))), seed=s,
                              container='list' if s % 10 == 1 else 'array', tm_extra=(s % 4 == 1), tmono=(s % 8 < 5))
        ops = _random_history(base, s, 8)
        if not ops:
            continue
        bd.check(orc_history, dict(base, ops=ops), base['kind'], function=_hist_function(ops))
    bd.done()
    bds.append(bd)
    bds += _sweeps(run, thorough)
    return bds


# =====================================================================================================
# dimension sweeps (tools/SWEEP_BRIEF.md): the same oracles, inputs varied along further dimensions
# =====================================================================================================
_LABEL_FN = {('split', 'obs'): 'split_obs', ('split', 'channel'): 'split_channel', ('split', 'time'): 'split_time',
             ('subset', 'obs'): 'subset_obs', ('subset', 'channel'): 'subset_channel', ('subset', 'time'): 'subset_time',
             ('odd_even', 'obs'): 'odd_even_split', ('average', 'obs'): 'average_dataset_by'}
_AXES = (('flat', 'obs'), ('flat', 'channel'), ('temporal', 'obs'), ('temporal', 'channel'), ('temporal', 'time'))


def _label_cases(labels, extra, axes=_AXES):
    for kind, axis in axes:
        for what in ('split', 'subset', 'odd_even', 'average'):
            if (what, axis) not in _LABEL_FN or (what == 'average' and kind != 'flat'):
                continue
            case = dict(labels=list(labels), names=None, container='array', kind=kind, axis=axis, what=what)
            case.update(extra)
            ic = f'{kind},{axis}'
            if what == 'odd_even' and len(set(labels)) < 2:
                ic = K_ODD_SINGLE
            yield case, ic, _LABEL_FN[(what, axis)]


def _sweeps(run, thorough):
    bds = []

    # ---- labels: containers, typed labels / data, units, argument forms, sizes ---------------------------------------
    variants = [
        ('tuple descriptors', dict(container='tuple')),
        ('tuple descriptors, str labels, values as tuple', dict(container='tuple', names=['c', 'a', 'b'], argform='tuple')),
        ('values as ndarray', dict(argform='ndarray', names=['c', 'a', 'b'])),
        ('float labels in units of 1e-12', dict(names=[3e-12, 1e-12, 2e-12])),
        ('float labels 0.25 apart on an offset of 1e6', dict(names=[1e6 + 0.5, 1e6, 1e6 + 0.25], argform='tuple')),
        ('float32 labels incl. 0 and a negative value', dict(names=[0.5, -1.5, 0.0], ltype='float32')),
        ('uint8 labels, uint8 data', dict(ltype='uint8', mdtype='uint8')),
        ('int16 labels incl. a negative value, int16 data', dict(names=[300, -2, 0], ltype='int16', mdtype='int16')),
        ('int64 data, str labels', dict(mdtype='int64', names=['c', 'a', 'b'])),
        ('float32 data in units of 1e12', dict(mdtype='float32', scale=1e12)),
        ('data in units of 1e-20', dict(scale=1e-20, names=['c', 'a', 'b'])),
        ('data in units of 1e-26, list descriptors', dict(scale=1e-26, container='list')),
        ('data in units of 1e9', dict(scale=1e9)),
    ]
    L = 5 if thorough else 3
    seqs = [s_ for n in range(1, L + 1) for s_ in itertools.product(range(3), repeat=n)]
    rs = np.random.RandomState(11)
    more = [[int(x) for x in rs.randint(0, 3, n)] for n in ((6, 7, 8, 9) if thorough else (4, 5, 6, 7)) for _ in range(6)]
    bd = Bounded(run, 'C11/labels[sweep]', 'C11/split-subset-merge-average/oracle/labels',
                 'sweep of the labels oracle: ALL label sequences of length 1..%d over 3 values + 24 seeded sequences of length '
                 '%s, each as: %s; long sequences (sizes): seeded sequences of length %s over 4 / 5 values (int, str, float labels; '
                 'uint8 and float data); the dataset the operation is applied to must be unchanged afterwards' % (
                     L, '6..9' if thorough else '4..7', '; '.join(t for t, _ in variants),
                     '9, 16, 33, 40' if thorough else '9, 16, 33'), exhaustive=False, function='split_obs')
    for _, extra in variants:
        for labels in list(seqs) + more:
            for case, ic, fn in _label_cases(labels, extra):
                bd.check(orc_labels, case, ic, function=fn)
    for n in ((9, 16, 33, 40) if thorough else (9, 16, 33)):
        for k, names in ((4, None), (5, ['e', 'c', 'a', 'd', 'b']), (4, [2e-12, -1e-12, 0.0, 1e-12])):
            for seed in range(3 if thorough else 1):
                labels = [int(x) for x in np.random.RandomState(7 * n + k + seed).randint(0, k, n)]
                for extra in (dict(names=names), dict(names=names, mdtype='uint8', container='tuple' if seed else 'array'),
                              dict(names=names, mdtype='float32', scale=1e-12, argform='tuple')):
                    for case, ic, fn in _label_cases(labels, extra, _AXES if seed == 0 and not extra.get('mdtype') else _AXES[:2]):
                        bd.check(orc_labels, case, ic, function=fn)
    bd.done()
    bds.append(bd)

    # ---- bin_time: units of the time axis, typed time axis / bins / data, containers, identical call again ---------------
    NT = 5 if thorough else 3
    bvars = [
        ('time in units of 1e-12', dict(tunit=[0.0, 1e-12])),
        ('time in units of 1e-12 from -2e-12', dict(tunit=[-2e-12, 1e-12], tform='list')),
        ('time in steps of 1 on an offset of 1e6', dict(tunit=[1e6, 1.0])),
        ('time in steps of 1e-3 on an offset of 1e3', dict(tunit=[1e3, 1e-3], tform='tuple')),
        ('time in units of 1e9', dict(tunit=[0.0, 1e9])),
        ('integer time axis and integer bins', dict(tform='int', bform='int')),
        ('integer time axis, float bins, the call repeated', dict(tform='int', twice=True)),
        ('time descriptor as tuple', dict(tform='tuple')),
        ('time descriptor as list, uint8 data', dict(tform='list', mdtype='uint8')),
        ('int16 data', dict(mdtype='int16')),
        ('int64 data, integer time axis', dict(mdtype='int64', tform='int', bform='int')),
        ('float32 data in units of 1e12', dict(mdtype='float32', scale=1e12)),
        ('data in units of 1e-20, time in units of 1e-12', dict(scale=1e-20, tunit=[0.0, 1e-12])),
        ('data in units of 1e-26', dict(scale=1e-26)),
    ]
    bd = Bounded(run, 'C11/bin-time[sweep]', 'C11/bin_time/oracle/means-of-members',
                 'sweep of the bin-time oracle: ALL assignments of 1..%d time points to two bins (sorted and unsorted axis, shape '
                 '(3,2)) plus the one-bin / singleton / three-bin covers, each as: %s' % (NT, '; '.join(t for t, _ in bvars)),
                 exhaustive=False, function='bin_time')

    def bin_cases():
        for nt in range(1, NT + 1):
            axes = [[float(t) for t in range(nt)]]
            if nt >= 3:
                axes.append([float(t) for t in {3: [2, 0, 1], 4: [2, 0, 3, 1], 5: [3, 0, 4, 1, 2]}[nt]])
            for time in axes:
                for assign in itertools.product(range(4), repeat=nt):
                    b0 = [time[i] for i in range(nt) if assign[i] in (1, 3)]
                    b1 = [time[i] for i in range(nt) if assign[i] in (2, 3)]
                    if b0 and b1:
                        yield dict(time=time, bins=[b0, b1], n=[3, 2])
                yield dict(time=time, bins=[time], n=[2, 2])
                yield dict(time=time, bins=[[t] for t in time[::-1]], n=[1, 2])
                if nt >= 3:
                    yield dict(time=time, bins=[time[0::3], time[1::3], time[2::3]], n=[2, 1])
    for _, extra in bvars:
        for case in bin_cases():
            contiguous = all(_is_stretch(b, case['time']) for b in case['bins'])
            bd.check(orc_bin, dict(case, **extra), 'contiguous-bins' if contiguous else 'non-contiguous-bins', function='bin_time')
    if True:   # repaired in /repo c15140b4 (was pending triage): bin_time,bins-as-python-lists
        for case in bin_cases():
            bd.check(orc_bin, dict(case, bform='list'), K_BIN_PYLIST, function='bin_time')
    bd.done()
    bds.append(bd)

    # ---- sort_by: typed keys, keys in extreme units, containers, typed data, sorting twice ------------------------------
    bd = Bounded(run, 'C11/sort-stable[sweep]', 'C11/sort_by/oracle/stable-permutation',
                 'sweep of the sort oracle: key types uint8 / int16 (incl. negative) / float32 / descending floats / floats in '
                 'steps of 5e-13 / floats in steps of 0.5 on an offset of 1e6 / strings of unequal length; all key sequences of '
                 'length 2..4 over 2 values and seeded sequences of length 8..%d over 2..8 values; array / list / tuple descriptors; '
                 'uint8 / int16 / float32 data; sort_by called twice; Dataset and TemporalDataset' % (64 if thorough else 40),
                 exhaustive=False, function='sort_by')
    for kind in ('flat', 'temporal'):
        ic = 'flat' if kind == 'flat' else K_TSORT
        fnn = 'Dataset.sort_by' if kind == 'flat' else 'TemporalDataset.sort_by'
        for typ in ('uint8', 'int16', 'float32', 'neg', 'tiny', 'big', 'str2'):
            for n in range(2, 5):
                for labels in itertools.product(range(2), repeat=n):
                    bd.check(orc_sort, dict(kind=kind, n=n, k=2, seed=0, labels=list(labels), type=typ, container='array'),
                             ic if len(set(labels)) < n else kind, function=fnn)
            for n in ([8, 17, 24, 40, 64] if thorough else [8, 17, 40]):
                for k in ((2, 3, 8) if typ == 'str2' else (2, 4)):
                    for seed in range(3 if thorough else 1):
                        for extra in (dict(container='array'), dict(container='tuple', twice=True),
                                      dict(container='list', mdtype='float32' if n > 25 else 'uint8'),
                                      dict(container='array', mdtype='int16', twice=True)):
                            bd.check(orc_sort, dict(dict(kind=kind, n=n, k=k, seed=seed, type=typ), **extra), ic, function=fnn)
        for typ in ('int', 'float', 'str'):
            for n in (5, 17, 33):
                bd.check(orc_sort, dict(kind=kind, n=n, k=3, seed=1, type=typ, container='tuple', twice=True), ic, function=fnn)
    bd.done()
    bds.append(bd)

    # ---- conversions: containers, typed data, units -------------------------------------------------------------------
    cvars = [dict(container='tuple'), dict(mdtype='uint8'), dict(mdtype='int16', container='list'), dict(mdtype='float32', scale=1e12),
             dict(scale=1e-20, tunit=[0.0, 1e-12]), dict(scale=1e-26, container='tuple', tunit=[1e6, 1.0]), dict(mdtype='int64', tunit=[-30.0, 1.0])]
    bd = Bounded(run, 'C11/conversions[sweep]', 'C11/time_as_observations,time_as_channels/oracle/labelled-cells',
                 'sweep of the conversions oracle: ALL shapes in {1,2,3}^3 with tuple descriptors; uint8 / int16 / int64 / float32 '
                 'data; data in units of 1e-26, 1e-20, 1e12; time in units of 1e-12, on an offset of 1e6, starting below 0; the '
                 'temporal dataset must be unchanged afterwards', exhaustive=False, function='time_as_observations')
    for shape in itertools.product((1, 2, 3), repeat=3):
        for extra in cvars:
            for op in ('tao', 'tac'):
                ic = 'generic-shape'
                if op == 'tao' and (shape[0] == 1 or shape[1] == 1):
                    ic = K_TAO_SINGLE
                bd.check(orc_convert, dict(dict(n=list(shape), container='array', op=op), **extra), ic,
                         function='time_as_observations' if op == 'tao' else 'time_as_channels')
    bd.done()
    bds.append(bd)

    # ---- histories --------------------------------------------------------------------------------------------------------
    B = _base_case
    bases = [
        # typed data
        B('flat', (4, 3, 1), seed=21, mdtype='int16', container='tuple', argform='tuple'),
        B('temporal', (3, 2, 3), seed=22, mdtype='uint8', tm_extra=False, tmono=False, ldtype='uint8', tunit='int', binform='int'),
        B('flat', (3, 2, 1), seed=23, mdtype='float32', scale=1e12, ldtype='float32', argform='ndarray', keep=True),
        # units
        B('temporal', (3, 2, 2), seed=24, scale=1e-20, tunit=[0.0, 1e-12], tm_extra=False, twice=True),
        B('temporal', (2, 2, 3), seed=25, scale=1e9, tunit=[1e6, 1.0], tm_extra=False, tmono=False, container='list'),
        B('flat', (3, 2, 1), seed=26, scale=1e-26, korder='rev', twice=True),
        # containers / dict order / call sequences
        B('temporal', (3, 2, 2), seed=27, container='tuple', korder='rev', argform='tuple', keep=True),
        B('temporal', (2, 2, 2), seed=28, container='tuple', tm_extra=False, tunit='int', keep=True, twice=True),
        B('flat', (4, 2, 1), seed=29, container='list', keep=True, twice=True),
        # vector-valued descriptors carried along (never used as `by`)
        B('flat', (3, 2, 1), seed=30, vec=['obs', 'channel']),
        B('temporal', (2, 2, 2), seed=31, vec=['obs', 'channel', 'time'], container='list'),
        B('temporal', (2, 2, 2), seed=32, vec=['channel'], container='tuple', tm_extra=False),
        B('temporal', (2, 2, 2), seed=33, vec=['obs']),
    ]
    if thorough:
        bases += [
            B('flat', (5, 3, 1), seed=41, mdtype='uint8', container='tuple', keep=True, twice=True),
            B('temporal', (4, 2, 3), seed=42, mdtype='int16', tm_extra=False, tmono=False, tunit=[1e3, 1e-3], keep=True),
            B('temporal', (3, 3, 4), seed=43, scale=1e-26, tunit=[3e-12, 1e-12], tm_extra=False, tmono=False, twice=True),
            B('temporal', (3, 2, 3), seed=44, vec=['obs', 'channel', 'time'], korder='rev', tmono=False, keep=True),
            B('flat', (4, 3, 1), seed=45, vec=['obs', 'channel'], container='tuple', argform='tuple', twice=True),
            B('temporal', (3, 2, 2), seed=46, mdtype='float32', scale=1e-12, ldtype='int16', argform='ndarray', keep=True, twice=True),
        ]
    bd = Bounded(run, 'C11/history[sweep]', 'C11/dataset-operations/oracle/model-based-history',
                 'sweep of the history oracle: %s admissible operation sequences of length 1..2 (alphabet of _candidates plus the '
                 'DataFrame round trip with the channel columns / the rows handed over in reversed order) from %d base datasets: '
                 'int16 / uint8 / float32 data, data in units of 1e-26 / 1e-20 / 1e9 / 1e12, time in units of 1e-12 / on an offset '
                 'of 1e6 / integer, typed label arrays, tuple / list descriptors, descriptor dicts in reversed key order, lists '
                 'of values as tuple / ndarray, integer bins, vector-valued descriptors carried on each axis; call sequences: '
                 'inputs unchanged after each step, every dataset returned in the course of the history unchanged at its end, the '
                 'identical call again gives the identical result%s; %d seeded random histories of length <= 8 on such bases, with '
                 'the call-sequence clauses' % (
                     'ALL' if thorough else 'all of length 1 and every third of length 2 of the', len(bases),
                     '; length 3 on three of the bases with at most 8 cells (units + twice, tuple + keep + twice, vectors on all '
                     'axes)' if thorough else '', 400 if thorough else 40),
                 exhaustive=False, function='Dataset operations', budget_s=600 if thorough else 20)
    deep = (5, 7, 10)       # indices of the bases enumerated to length 3 in thorough mode
    for base in bases:
        depth = 3 if (thorough and bases.index(base) in deep) else 2
        kind = base['kind'] + ',sweep'
        for ne, (ops, tag) in enumerate(_enumerate(base, depth, rich=True, extra=True)):
            if bd.out_of_budget():
                break
            if not thorough and len(ops) > 1 and ne % 3 != bases.index(base) % 3:
                continue
            case = dict(base, ops=ops, last_only=not base.get('twice'))
            if tag in PENDING:
                if True:   # recorded as open finding (was pending triage): to_df,vector-valued-descriptor
                    bd.check(orc_history, case, tag, function=_hist_function(ops))
                continue
            bd.check(orc_history, case, _hist_class(kind, tag), function=_hist_function(ops))
    if True:   # repaired in /repo c15140b4 (was pending triage): bin_time,bins-as-python-lists
        base = B('temporal', (2, 2, 3), seed=34, tm_extra=False, binform='list')
        for ops, tag in _enumerate(base, 1):
            if tag == K_BIN_PYLIST:
                bd.check(orc_history, dict(base, ops=ops), tag, function='bin_time')
    # seeded random longer histories on swept bases, checked after every step, with the call-sequence clauses
    n_rand = 400 if thorough else 40
    for s_ in range(n_rand):
        if bd.out_of_budget():
            break
        rs = np.random.RandomState(5000 + s_)
        sweep = [dict(mdtype='int16'), dict(scale=1e-20, tunit=[0.0, 1e-12]), dict(container='tuple', argform='tuple'),
                 dict(vec=['channel'] if s_ % 2 else ['obs', 'channel']), dict(mdtype='float32', scale=1e12, korder='rev'),
                 dict(tunit='int', binform='int', mdtype='uint8')][s_ % 6]
        if s_ % 2 == 0:
            base = B('flat', (int(rs.randint(2, 7)), int(rs.randint(1, 5)), 1), seed=s_, keep=True, twice=(s_ % 4 == 0),
                     **{k: v for k, v in sweep.items() if k not in ('tunit', 'binform')})
        else:
            base = B('temporal', (int(rs.randint(2, 6)), int(rs.randint(1, 4)), int(rs.randint(1, 5))), seed=s_,
                     tm_extra=(s_ % 4 == 1), tmono=(s_ % 8 < 5), keep=True, twice=(s_ % 4 == 1), **sweep)
        ops = _random_history(base, s_, 8, extra=True)
        if ops:
            bd.check(orc_history, dict(base, ops=ops), base['kind'] + ',sweep', function=_hist_function(ops))
    bd.done()
    bds.append(bd)

    # ---- environment: new interpreters with other hash seeds -----------------------------------------------------------------
    jobs = []
    for labels in itertools.product(range(3), repeat=4):
        if len(set(labels)) == 3:
            for case, ic, fn in _label_cases(labels, dict(names=['c', 'a', 'b']), _AXES[:1] + _AXES[4:]):
                if case['what'] != 'subset':
                    jobs.append([orc_labels.oracle_name, case])
    for s_ in range(0, 24 if thorough else 12):
        base = B('flat', (5, 3, 1), seed=s_) if s_ % 2 == 0 else B('temporal', (4, 2, 3), seed=s_, tm_extra=(s_ % 4 == 1))
        ops = _random_history(base, 900 + s_, 6, extra=True)
        jobs.append([orc_history.oracle_name, dict(base, ops=ops)])
    base = B('flat', (4, 3, 1), seed=3)
    for ops in ([['split_obs', 'cond'], ['merge', [2, 0, 1]], ['df', 'chid', True]], [['nested_odd_even', 'cond', 'run'], ['df', 'chid', False]],
                [['split_channel', 'roi'], ['pick', 0], ['df', 'chid', True, 'perm']], [['split_obs', 'run'], ['merge', [1, 0]], ['sort_by', 'cond']]):
        jobs.append([orc_history.oracle_name, dict(base, ops=ops)])
    bd = Bounded(run, 'C11/fresh-interpreter', 'C11/dataset-operations/oracle/fresh-interpreter',
                 'new interpreters with PYTHONHASHSEED=%s run %d cases of the labels oracle (all label sequences of length 4 with 3 '
                 'distinct str values; split+merge, odd_even, average) and of the history oracle (seeded histories of length <= 6, '
                 'split / merge / DataFrame round trips)' % ('1, 2, 3, 4' if thorough else '1, 2', len(jobs)),
                 exhaustive=False, function='Dataset operations')
    for job in jobs:         # the same cases in this process first: a failure here is not a matter of the environment
        bd.check(_ORACLES[job[0]], job[1], job[1]['kind'] + ',sweep', function='Dataset operations')
    bd.check(orc_fresh, dict(hashseeds=[1, 2, 3, 4] if thorough else [1, 2], jobs=jobs), 'fresh-interpreter',
             function='Dataset operations')
    bd.done()
    bds.append(bd)
    return bds


def _is_stretch(b, time):
    """the members of bin b are one contiguous stretch of the sorted time values"""
    st = sorted(time)
    pos = sorted(st.index(x) for x in b)
    return pos == list(range(pos[0], pos[0] + len(pos)))
