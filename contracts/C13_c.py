"""C13 tier C -- bounded run-time oracles: missing dissimilarities are ignored consistently or rejected, never misaligned.

Every expected value is computed in this file from the property statement (explicit loops over pairs, O(n^2) rank /
pair counting, numpy solves on the sub-block of V written out entry by entry); repo code is only used to BUILD inputs
(`RDMs(...)`, `ModelWeighted(...)`, and -- where the clause is about masks "produced by pattern bootstrap or by
from_partials" -- `subsample_pattern` / `from_partials`, whose output is itself checked against a literal spec first).
The single exception is C13/compare-whole-condition, a metamorphic check that is labelled as such.

"entry-deleted definition": with `keep` = positions that are not missing, x = row[keep], V = (C Sigma C^T)**2
(element-wise square, C the pair contrast in upper-triangle row-major order, Sigma = I | diag(vector) | matrix) and
V_k = V[keep][:, keep]:
    cosine x.y/|x||y| ; corr = cosine of centred ; spearman = Pearson of average ranks ; rho-a = 12 sum(rx-m)(ry-m)/(n^3-n)
    kendall = tau-b and tau-a by counting concordant / discordant / tied pairs ; cosine_cov x V_k^-1 y / sqrt(..)(..)
    corr_cov = cosine_cov of centred ; bures / bures_metric (only defined when the mask removes whole conditions, then:
    the measure of the sub-RDMs, fidelity = nuclear norm of A^1/2 B^1/2 of the centred second moments).

oracles (clause of the property statement -> oracle)
* C13/compare-same-mask     "when the compared RDMs lack exactly the same entries, every comparison measure returns what it
                            returns on the RDMs with those entries deleted (whitened: matching rows and columns of V
                            deleted)": ALL explicit common masks up to 3 missing pairs, 8 vector measures, sigma_k None /
                            constant vector / non-constant vector / matrix, with and without ties, 2x3 RDMs; arguments
                            unchanged.
* C13/compare-generated     same clause on masks produced by `subsample_pattern` (pattern bootstrap) and `from_partials`
                            (whole conditions missing; here also bures, bures_metric); the produced vectors themselves
                            are compared with a literal spec of the two operations (mask positions!).
* C13/compare-whole-condition  METAMORPHIC reading of the same clause: if the common mask removes whole conditions, the
                            entry-deleted RDMs are RDMs again, so compare(NaN-bearing, sigma_k) must equal compare(sub-RDMs,
                            sigma_k restricted); all 11 methods (the only value check of neg_riem_dist, whose value is a
                            Nelder-Mead minimum) and all four sigma_k kinds -- the only NaN-path check with a
                            non-constant VECTOR sigma_k that does not run into the C03 defect; plus invariance under
                            scaling of the vector.
* C13/from-partials         literal placement spec of the mask producer (several RDMs objects, descending / mixed
                            condition order, all_patterns given / permuted / with extra names / None).
* C13/compare-differing, C13/compare-differing-generated
                            "RDMs whose missing entries sit at different positions are rejected with an error rather than
                            compared entry-shifted": differing masks between the stacks, within one stack, strict subset
                            masks in both argument orders, masks from different bootstrap samples / different partial
                            condition sets / one side complete; all 11 methods; ANY raised exception counts as rejection,
                            a returned array is the failure.
* C13/pool                  "pooled ... RDM": `util.inference_util.pool_rdm` and `util.pooling.pool_rdm` (the copy used by
                            the fitters, with sigma_k) on common-mask stacks = pooling definition on the deleted vectors,
                            NaN exactly at the missing positions; input unchanged.
* C13/noise-ceiling         "noise-ceiling": `boot_noise_ceiling` and `cv_noise_ceiling` (with a pattern bootstrap sample as
                            test patterns) on common-mask stacks = leave-one-out / pooled definition on deleted vectors.
* C13/fit-regress, C13/fit-regress-differing
                            "regression fit": `fit_regress` / `fit_regress_nn` (cosine, corr, cosine_cov, corr_cov; sigma_k
                            None / matrix; ridge; pattern_idx route) on NaN-bearing model+data = (non-negative, via
                            scipy nnls on the Cholesky-whitened problem) GLS solution on the deleted vectors with the V
                            sub-block; model-vs-data masks that differ must raise.
* C13/mean                  "averaging RDMs ignores missing entries per pair, honours per-RDM or per-entry weights and yields
                            NaN only where no RDM has a value": `RDMs.mean()` with no weights / per-entry array (NaN or
                            finite at the missing entries) / per-RDM weights tiled to an array / rdm-descriptor name holding
                            one weight per RDM / descriptor name holding a per-entry array; differing masks per RDM incl.
                            entries missing everywhere; caller's weights, the stored descriptor and the RDMs unchanged.
* C13/rescale               "rescaling partial RDMs multiplies each RDM by one positive constant, keeps its NaN pattern":
                            arbitrary (non-proportional) partial stacks, 3 methods, default and small threshold;
                            'rescalingWeights' descriptor present (one row per RDM, NaN exactly at missing entries,
                            positive elsewhere) and usable as `mean(weights='rescalingWeights')`; other descriptors
                            carried over; input unchanged and not given the new descriptor.
* C13/rescale-proportional  "... and brings mutually proportional partial RDMs to a common scale": chains of partial
                            overlaps with scale ratios up to 1000 per link, random condition covers, arbitrary entry masks
                            (connected overlap graph), threshold 1e-20 -> shared entries agree to 1e-6 and
                            constant x true scale is the same for all RDMs.
* C13/rescale-default-threshold  the same stacks with the DEFAULT threshold, coarse tolerance 25 % (the default stopping rule
                            only promises approximate convergence; only gross misalignment is flagged).
Every call of rescale runs under a 20 s alarm (the loop has no iteration bound): a run-away call is a reported failure.

input_class labels are pure functions of the case, never of the outcome.  Classes that FAIL on the unchanged tree
(details, concrete inputs and repairs in C13_findings.md):
  compare / fit_regress   'masks-differ,equal-counts', 'within-stack-masks-differ,equal-widths'   (only NaN COUNTS compared)
  RDMs.mean               'weights-descriptor-per-rdm'   ((n_rdm,) weights not broadcast -> ValueError)
                          'weights-array-finite-at-missing'   (weights of missing entries stay in the denominator)
  compare-same-mask       'sigma_k-vector-nonconstant'   (vector sigma_k is not the V(diag(vector)) definition, with or
                          without NaNs -- the C03 defect seen from C13)
  rescale-default-threshold  'evidence,chain,non-monotone-scales'   (default rescale() stops up to a factor 1000 away
                          from the common scale)

Dimension sweeps (tools/SWEEP_BRIEF.md; same clauses and obligations, inputs varied along further dimensions; domains named
'C13/<oracle>[...]' and C13/fresh-interpreter, registered in `_sweeps`; every expected value is still the literal definition)
  typed data        NaN-bearing float32 stacks (only floating types hold NaN; both stacks or one of them, model / data of the fits,
                    partial RDMs; expected: the definition on the same values as float64, tolerance 1e-5 -- the statement fixes no
                    precision); COMPLETE integer stacks over the range of the type: uint8 / int16 / uint16 / int64 for compare, uint8 /
                    int16 for pool_rdm and mean; integer-typed weights for all weight kinds of mean.
  units             stacks times 1e-20 .. 1e12 (each stack its own factor; pool / noise ceiling / fit data: one factor per RDM),
                    sigma_k times 1e-12 / 1e8, weights times 1e-15 / 1e12 (the weighted mean does not change), model RDMs times
                    1e-6 / 1e4, proportional partial RDMs times 1e-12 / 1e8.  Results that carry a unit (pooled RDMs, means, squared
                    Bures metric) are compared relative to their own magnitude (`_rclose`; harness.close has a floor at 1).
  containers/labels bootstrap samples as list / tuple / ndarray, patterns selected by int / str labels whose sorted order differs from
                    the pattern order; from_partials with integer condition labels and the pattern descriptor as tuple / ndarray; stacks
                    given as square matrices (NaN at [i, j] and [j, i]), Fortran-ordered or as non-contiguous view; one weight per RDM
                    as 1-D ndarray argument and as ndarray-valued rdm descriptor; rdm descriptor groups for boot_noise_ceiling.
  repeated values   samples in non-ascending order with interleaved repeats ([3, 1, 3, 0, 4]); str groups 's2', 's10', 's2', 's1', 's2'
                    (interleaved, unbalanced, appearance order != sorted order); the same condition set in several partial objects.
  sizes             stacks of 1 / 4 / 5 RDMs (1x1, 1x4, 5x1), 3 conditions (2 entries left), 7 (thorough: 8, 9) conditions with up to 8
                    missing pairs; 1 and 3 basis RDMs, 1 and 4 data RDMs; single-RDM mean / rescale; partial RDMs of 2 conditions;
                    differing masks only in the LAST / a middle RDM of stacks of 3-4 RDMs.
  call sequences    key `again`: compare / pool_rdm / fit_regress(_nn) are called on ANOTHER stack of the same shape with another mask
                    of the same size and then again on the first (rescale: the identical call twice): identical result, results held
                    by the caller and sigma_k / model / data unchanged.
  environment       C13/fresh-interpreter: interpreters with other PYTHONHASHSEEDs build the same partial RDMs from str labels and give
                    the definition's comparison values and weighted mean, and this process's pooled / rescaled RDMs.
  not applicable    competitor sets (no optimality claim beyond the GLS solution, which is computed exactly), files.  Not demanded:
                    Python lists as weights or RDM stacks, `all_patterns` other than a list (documented as list).
  a noise-ceiling case whose pooled training RDM is constant on the remaining entries (correlation 0/0 by definition) is not judged.
  PENDING TRIAGE (fail on the unchanged tree; registrations behind `if False:  # pending triage: <class>` in `_sweeps`)   [TRIAGED since: every class repaired in /repo, recorded as open finding, or dropped -- DESIGN.md 10.10]
    'units-tiny,whitened-pooling'  util.pooling.pool_rdm(cosine_cov / corr_cov) of RDMs in units of 1e-12 returns inf / NaN
    'units-tiny,whitened-fit'      fit_regress / fit_regress_nn (cosine_cov / corr_cov) with data RDMs times 1e-12 (NaN / zero weights /
                                   ValueError) or model RDMs times 1e-10 (LinAlgError); 7e-4 off already at 1e-6
                                   (all three: conjugate gradients with atol=1e-9, an absolute residual bound)
    'units-model,nonneg'           fit_regress_nn with model RDMs times 1e4 does not return (no result within 20 s; erratic from
                                   1e2 on), times 1e-15 returns all-zero weights (`while np.max(w) > 100 * eps` in _nn_least_squares)

NOT covered by this tier: stacks larger than 6 conditions / 4 RDMs (8 for chains) outside the sweeps above; value of bures / neg_riem_dist on masks
that do not remove whole conditions (the entry-deleted vector is not an RDM; the functions raise or are undefined);
pool_rdm on stacks whose RDMs have different masks (the statement does not define the value); rescale on RDMs that are
not connected by shared entries or contain all-NaN / all-zero rows; the value rescale converges to for non-proportional
RDMs; method='evidence' with threshold 1e-20 on widely different non-monotone scales (> 1e5 iterations: run time);
fit_optimize / fit_interpolate (iterative optimisers; they go through compare()); eval_* drivers (C04/C05);
ndarray (non-RDMs) arguments of compare; `RDMs.mean` object-level descriptors (returned as a set of tuples when a
descriptor name is passed -- noted in the findings file, not part of the statement).  The all-inputs alignment contract
of the two parsers is engine A.
"""
import itertools
import warnings

import numpy as np

from vf.rt.harness import oracle, Bounded, close, replay_file

NAN = float('nan')
VEC_METHODS = ['cosine', 'corr', 'spearman', 'kendall', 'tau-a', 'rho-a', 'cosine_cov', 'corr_cov']
MAT_METHODS = ['bures', 'bures_metric', 'neg_riem_dist']
SPEC_MAT_METHODS = ['bures', 'bures_metric']     # neg_riem_dist is a Nelder-Mead minimum: only in the metamorphic oracle
ALL_METHODS = VEC_METHODS + MAT_METHODS


# =====================================================================================================
# spec side (no repo code)
# =====================================================================================================
def _pairs(n):
    return [(i, j) for i in range(n) for j in range(i + 1, n)]


def _n_pairs(n):
    return n * (n - 1) // 2


def _spec_V(n, sigma):
    """V[(i,j),(k,l)] = (S_ik - S_il - S_jk + S_jl)^2 written out entry by entry"""
    prs = _pairs(n)
    V = np.zeros((len(prs), len(prs)))
    for a, (i, j) in enumerate(prs):
        for b, (k, l) in enumerate(prs):
            xi = sigma[i, k] - sigma[i, l] - sigma[j, k] + sigma[j, l]
            V[a, b] = xi * xi
    return V


def _avg_ranks(x):
    x = np.asarray(x, dtype=float)
    r = np.zeros(len(x))
    for i in range(len(x)):
        less = 0
        equal = 0
        for j in range(len(x)):
            if x[j] < x[i]:
                less += 1
            elif x[j] == x[i]:
                equal += 1
        r[i] = less + (equal + 1) / 2.0
    return r


def _cos(x, y):
    return float(np.dot(x, y) / np.sqrt(np.dot(x, x) * np.dot(y, y)))


def _pair_counts(x, y):
    con = dis = tx = ty = 0
    n = len(x)
    for i in range(n):
        for j in range(i + 1, n):
            dx = x[i] - x[j]
            dy = y[i] - y[j]
            if dx == 0:
                tx += 1
            if dy == 0:
                ty += 1
            if dx * dy > 0:
                con += 1
            elif dx * dy < 0:
                dis += 1
    return con, dis, tx, ty, n * (n - 1) // 2


def _psd_sqrt(A):
    w, U = np.linalg.eigh((A + A.T) / 2)
    return (U * np.sqrt(np.maximum(w, 0.0))) @ U.T


def _vec_to_mat(v, n):
    M = np.zeros((n, n))
    for a, (i, j) in enumerate(_pairs(n)):
        M[i, j] = M[j, i] = v[a]
    return M


def _centred_gram(v, n):
    D = _vec_to_mat(v, n)
    H = np.eye(n) - np.ones((n, n)) / n
    return -0.5 * H @ D @ H


def _spec_sim(method, x, y, Vk=None, n_sub=None):
    """similarity of two entry-deleted vectors by the literal definition"""
    x = np.asarray(x, dtype=float)
    y = np.asarray(y, dtype=float)
    if method == 'cosine':
        return _cos(x, y)
    if method == 'corr':
        return _cos(x - x.mean(), y - y.mean())
    if method == 'spearman':
        rx, ry = _avg_ranks(x), _avg_ranks(y)
        return _cos(rx - rx.mean(), ry - ry.mean())
    if method == 'rho-a':
        rx, ry = _avg_ranks(x), _avg_ranks(y)
        n = len(x)
        return float(np.sum((rx - rx.mean()) * (ry - ry.mean())) * 12.0 / (n ** 3 - n))
    if method in ('kendall', 'tau-b'):
        con, dis, tx, ty, n0 = _pair_counts(x, y)
        return (con - dis) / np.sqrt(float(n0 - tx) * float(n0 - ty))
    if method == 'tau-a':
        con, dis, tx, ty, n0 = _pair_counts(x, y)
        return (con - dis) / float(n0)
    if method in ('cosine_cov', 'corr_cov'):
        if method == 'corr_cov':
            x = x - x.mean()
            y = y - y.mean()
        vx = np.linalg.solve(Vk, x)
        vy = np.linalg.solve(Vk, y)
        return float(np.dot(x, vy) / np.sqrt(np.dot(x, vx) * np.dot(y, vy)))
    if method in ('bures', 'bures_metric'):
        A = _centred_gram(x, n_sub)
        B = _centred_gram(y, n_sub)
        fid = float(np.sum(np.linalg.svd(_psd_sqrt(A) @ _psd_sqrt(B), compute_uv=False)))
        if method == 'bures':
            return fid / np.sqrt(np.trace(A) * np.trace(B))
        return float(np.trace(A) + np.trace(B) - 2 * fid)
    raise ValueError(method)


def _tol(method, sigma_kind='none'):
    if method in ('bures', 'bures_metric'):
        return 1e-6          # matrix square roots of rank-deficient Gram matrices
    if method in ('cosine_cov', 'corr_cov') and sigma_kind in ('matrix', 'vector', 'vector-nonconstant', 'vector-constant') or \
            (method in ('cosine_cov', 'corr_cov') and str(sigma_kind).startswith('vector')):
        return 1e-4          # the real code solves V x = b by conjugate gradients with rtol 1e-5 (seen: 8e-6)
    return 1e-9


def _sigma(kind, n, rs):
    """returns (argument for sigma_k, Sigma matrix of the definition)"""
    if kind == 'none':
        return None, np.eye(n)
    if kind == 'vector-constant':
        s = np.full(n, 2.5)
        return s, np.diag(s)
    if kind == 'vector':
        s = rs.rand(n) + 0.5
        return s, np.diag(s)
    if kind == 'matrix':
        A = rs.randn(n, n)
        S = A @ A.T + n * np.eye(n)
        return S, S
    raise ValueError(kind)


def _values(rs, n_rdm, n_pair, ties, keep):
    """dissimilarity rows; with ties: few distinct integer levels, but not constant on `keep`"""
    for _ in range(200):
        if ties:
            v = rs.randint(1, 4, size=(n_rdm, n_pair)).astype(float)
        else:
            v = rs.rand(n_rdm, n_pair) + 0.1
        if all(len(set(row[keep].tolist())) >= 2 for row in v):
            return v
    raise RuntimeError('could not draw non-constant rows')


def _sq_euclid_vectors(rs, n_rdm, n_cond):
    """squared Euclidean RDM vectors of random point sets in n_cond dimensions (positive definite second moments)"""
    out = []
    for _ in range(n_rdm):
        p = rs.randn(n_cond, n_cond + 1)
        out.append([float(((p[i] - p[j]) ** 2).sum()) for (i, j) in _pairs(n_cond)])
    return np.array(out)


def _with_nan(v, missing_rows):
    """copy of v with NaN at missing_rows[r] in row r (or the same list for all rows)"""
    v = np.array(v, dtype=float)
    if missing_rows and not isinstance(missing_rows[0], (list, tuple)):
        missing_rows = [missing_rows] * v.shape[0]
    for r, miss in enumerate(missing_rows or []):
        for k in miss:
            v[r, k] = np.nan
    return v


def _spec_compare(method, a, b, keep, Vk=None, n_sub=None):
    out = np.zeros((a.shape[0], b.shape[0]))
    for i in range(a.shape[0]):
        for j in range(b.shape[0]):
            out[i, j] = _spec_sim(method, a[i][keep], b[j][keep], Vk, n_sub)
    return out


def _fmt(a):
    return np.array2string(np.asarray(a, dtype=float), precision=6, threshold=40).replace('\n', ' ')


# ---- dimension sweeps (tools/SWEEP_BRIEF.md): typed stacks, units, forms of the stack, repeated calls ---------------------------
def _rclose(a, b, tol):
    """like harness.close, but relative to the magnitude of the EXPECTED values without the floor at 1 (values in units of
    1e-12 would pass any absolute tolerance)"""
    a = np.asarray(a, dtype=float)
    b = np.asarray(b, dtype=float)
    if a.shape != b.shape or not np.array_equal(np.isnan(a), np.isnan(b)):
        return False
    ok = ~np.isnan(b)
    if not ok.any():
        return True
    scale = float(np.max(np.abs(b[ok])))
    if scale == 0 or not np.isfinite(scale):
        return bool(np.array_equal(a[ok], b[ok]))
    return bool(np.max(np.abs(a[ok] - b[ok])) <= tol * scale)


def _typed(v, dtype):
    """(array handed to the library, the same values as float64 for the definition).  Only floating types can hold NaN, so
    the typed NaN-bearing stacks are float32; integer types are used for complete stacks only."""
    v = np.asarray(v, dtype=float)
    if dtype in (None, 'float64'):
        return v.copy(), v.copy()
    t = np.asarray(v).astype(dtype)
    return t, np.asarray(t, dtype=float)


def _dtype_tol(tol, *dtypes):
    """a float32 stack may be processed in float32 (the statement fixes no precision): 1e-5 then"""
    return max(tol, 1e-5) if any(d == 'float32' for d in dtypes) else tol


def _stack_form(v, n, form):
    """the same stack of RDM vectors in another legitimate form: 3-D square matrices (NaN at [i, j] and [j, i]), Fortran-ordered,
    a non-contiguous view"""
    if form in (None, 'vectors'):
        return v
    if form == 'matrices':
        out = np.zeros((v.shape[0], n, n), dtype=v.dtype)
        for r in range(v.shape[0]):
            for a, (i, j) in enumerate(_pairs(n)):
                out[r, i, j] = out[r, j, i] = v[r, a]
        return out
    if form == 'fortran':
        return np.asfortranarray(v)
    if form == 'view':
        wide = np.full((v.shape[0], 2 * v.shape[1]), 7.0).astype(v.dtype)
        wide[:, ::2] = v
        return wide[:, ::2]
    raise ValueError(form)


def _other_mask(missing, P):
    """another mask with the same number of missing entries (a cache keyed by shape / count would mix them up)"""
    return sorted((k + 1) % P for k in missing)


def _as_form(seq, form):
    if form == 'tuple':
        return tuple(seq)
    if form == 'ndarray':
        return np.array(seq)
    return list(seq)


# =====================================================================================================
# compare(): same masks
# =====================================================================================================
@oracle('C13/compare-same-mask')
def orc_compare_same(case):
    """sweep keys (all optional): dtype1 / dtype2 ('float32'; integer types for complete stacks), unit1 / unit2 (stack times a
    positive number), sigma_unit, form1 / form2 (see _stack_form), again (the call is repeated after a call on another stack of
    the same shape with ANOTHER mask of the same size; results held by the caller stay, sigma_k is unchanged)"""
    from rsatoolbox.rdm import RDMs, compare
    rs = np.random.RandomState(case['seed'])
    n = case['n_cond']
    P = _n_pairs(n)
    missing = list(case['missing'])
    keep = np.ones(P, bool)
    keep[missing] = False
    method = case['method']
    a = _values(rs, case['n1'], P, case.get('ties', False), keep)
    b = _values(rs, case['n2'], P, case.get('ties', False), keep)
    arg, S = _sigma(case.get('sigma', 'none'), n, rs)
    d1, d2 = case.get('dtype1'), case.get('dtype2')
    if case.get('levels'):
        # integer levels spread over the range of the type (squares and products leave uint8 / int16)
        a = np.round(a / a.max() * case['levels'])
        b = np.round(b / b.max() * case['levels'])
    a = a * case.get('unit1', 1.0)
    b = b * case.get('unit2', 1.0)
    if arg is not None and 'sigma_unit' in case:
        arg, S = arg * case['sigma_unit'], S * case['sigma_unit']
    an, a = _typed(_with_nan(a, missing), d1)
    bn, b = _typed(_with_nan(b, missing), d2)
    if not all(len(set(row[keep].tolist())) >= 2 for row in np.concatenate([a, b])):
        return 'case error: a typed row is constant'
    Vk = _spec_V(n, S)[keep][:, keep] if method.endswith('_cov') else None
    want = _spec_compare(method, a, b, keep, Vk)
    keep_a, keep_b = an.copy(), bn.copy()
    r1, r2 = RDMs(_stack_form(an, n, case.get('form1'))), RDMs(_stack_form(bn, n, case.get('form2')))
    arg_before = None if arg is None else arg.copy()
    kw = dict(sigma_k=arg) if method.endswith('_cov') else {}
    with warnings.catch_warnings():
        warnings.simplefilter('ignore')
        got = compare(r1, r2, method=method, **kw)
    held = got
    got = np.array(got, dtype=float)
    tol = _dtype_tol(_tol(method, case.get('sigma', 'none')), d1, d2)
    if got.shape != want.shape:
        return f'result shape {got.shape}, expected {want.shape} (n_rdm1 x n_rdm2)'
    if not close(got, want, tol):
        return (f'{method}(sigma_k={case.get("sigma", "none")}) with the common missing entries {missing}: got {_fmt(got)}, '
                f'entry-deleted definition gives {_fmt(want)} (max diff {np.nanmax(np.abs(got - want)):.3g})')
    if not (np.array_equal(r1.dissimilarities, keep_a, equal_nan=True)
            and np.array_equal(r2.dissimilarities, keep_b, equal_nan=True)):
        return 'compare modified the dissimilarities of its arguments'
    if arg is not None and not np.array_equal(arg, arg_before):
        return 'compare modified sigma_k'
    if case.get('again'):
        miss2 = _other_mask(missing, P)
        keep2 = np.ones(P, bool)
        keep2[miss2] = False
        c = _values(rs, case['n1'], P, case.get('ties', False), keep2)
        d = _values(rs, case['n2'], P, case.get('ties', False), keep2)
        want2 = _spec_compare(method, c, d, keep2, _spec_V(n, S)[keep2][:, keep2] if method.endswith('_cov') else None)
        with warnings.catch_warnings():
            warnings.simplefilter('ignore')
            got2 = np.array(compare(RDMs(_with_nan(c, miss2)), RDMs(_with_nan(d, miss2)), method=method, **kw), dtype=float)
            got3 = np.array(compare(r1, r2, method=method, **kw), dtype=float)
        if not close(got2, want2, tol):
            return (f'{method}: after a call with the missing entries {missing}, other RDMs of the same shape missing {miss2} give '
                    f'{_fmt(got2)}, entry-deleted definition {_fmt(want2)}')
        if not np.array_equal(np.asarray(held, dtype=float), got):
            return f'{method}: the result held by the caller changed from {_fmt(got)} to {_fmt(held)} in later calls'
        if not np.array_equal(got3, got):
            return f'{method}: the identical call gives {_fmt(got3)} after {_fmt(got)}'
        if arg is not None and not np.array_equal(arg, arg_before):
            return 'compare modified sigma_k'
    return None


# =====================================================================================================
# compare(): masks produced by subsample_pattern / from_partials
# =====================================================================================================
def _spec_subsample(v_full, n, sample):
    """literal pattern bootstrap: patterns `sample` (sorted), pairs of copies of the same pattern are missing"""
    sel = sorted(sample)
    out = np.zeros((v_full.shape[0], _n_pairs(len(sel))))
    for r in range(v_full.shape[0]):
        M = _vec_to_mat(v_full[r], n)
        for a, (i, j) in enumerate(_pairs(len(sel))):
            out[r, a] = np.nan if sel[i] == sel[j] else M[sel[i], sel[j]]
    return out


def _spec_partials(v_sub, sub_idx, n_all):
    """literal from_partials: sub-RDM over conditions sub_idx (in that order) placed into n_all conditions"""
    out = np.full((v_sub.shape[0], _n_pairs(n_all)), np.nan)
    pos = {p: a for a, p in enumerate(_pairs(n_all))}
    for r in range(v_sub.shape[0]):
        for a, (i, j) in enumerate(_pairs(len(sub_idx))):
            gi, gj = sub_idx[i], sub_idx[j]
            out[r, pos[(min(gi, gj), max(gi, gj))]] = v_sub[r, a]
    return out


def _labels(kind, n):
    """distinct pattern labels whose sorted order differs from the pattern order (n <= 11)"""
    if kind == 'int':
        return [10 * ((7 * i + 3) % 11) + 3 for i in range(n)]
    if kind == 'str':
        return ['s%02d' % ((7 * i + 3) % 11) for i in range(n)]
    return ['c%d' % i for i in range(n)]


def _make_generated(kind, rs, n_rdm, spec, euclid=False, unit=1.0, dtype=None):
    """returns (RDMs object built by the real operation, spec vectors with NaN, n_cond of the result,
    sub-RDM vectors without NaN or None, n_sub).
    sweep keys of `spec`: sample (any order; the bootstrap RDM has the patterns in ascending order), sample_form (list / tuple /
    ndarray), by ('index' | 'int' | 'str': the descriptor the patterns are selected by); labels ('int' | 'str') and conds_form
    for from_partials"""
    from rsatoolbox.rdm import RDMs
    from rsatoolbox.rdm.combine import from_partials
    if kind == 'subsample':
        n = spec['n_cond']
        v = _sq_euclid_vectors(rs, n_rdm, n) if euclid else rs.rand(n_rdm, _n_pairs(n)) + 0.1
        vin, v = _typed(v * unit, dtype)
        by = spec.get('by', 'index')
        if by == 'index':
            obj = RDMs(vin).subsample_pattern('index', _as_form(spec['sample'], spec.get('sample_form')))
        else:
            lab = _labels(by, n)
            obj = RDMs(vin, pattern_descriptors={'lab': list(lab)}).subsample_pattern(
                'lab', _as_form([lab[i] for i in spec['sample']], spec.get('sample_form')))
        return obj, _spec_subsample(v, n, spec['sample']), len(spec['sample']), None, None
    if kind == 'partials':
        names = ['c%d' % i for i in range(spec['n_all'])] if 'labels' not in spec else _labels(spec['labels'], spec['n_all'])
        sub = list(spec['sub'])
        v = _sq_euclid_vectors(rs, n_rdm, len(sub)) if euclid else rs.rand(n_rdm, _n_pairs(len(sub))) + 0.1
        vin, v = _typed(v * unit, dtype)
        part = RDMs(vin, pattern_descriptors={'conds': _as_form([names[i] for i in sub], spec.get('conds_form'))})
        obj = from_partials([part], all_patterns=names)
        return obj, _spec_partials(v, sub, spec['n_all']), spec['n_all'], v, len(sub)
    if kind == 'full':
        n = spec['n_cond']
        v = rs.rand(n_rdm, _n_pairs(n)) + 0.1
        return RDMs(v.copy()), v, n, None, None
    raise ValueError(kind)


@oracle('C13/compare-generated')
def orc_compare_generated(case):
    """sweep keys: unit1 / unit2, dtype1 / dtype2 of the stacks the masks are produced from (see also _make_generated)"""
    from rsatoolbox.rdm import compare
    rs = np.random.RandomState(case['seed'])
    method = case['method']
    euclid = method in MAT_METHODS
    d1, d2 = case.get('dtype1'), case.get('dtype2')
    o1, s1, n, sub1, n_sub = _make_generated(case['kind'], rs, case['n1'], case['spec'], euclid, case.get('unit1', 1.0), d1)
    o2, s2, _, sub2, _ = _make_generated(case['kind'], rs, case['n2'], case['spec'], euclid, case.get('unit2', 1.0), d2)
    for o, s, nm in ((o1, s1, 'rdm1'), (o2, s2, 'rdm2')):
        if not _rclose(o.get_vectors(), s, 1e-12):
            return (f'{case["kind"]} produced {_fmt(o.get_vectors())} for {nm}, literal definition gives {_fmt(s)} '
                    f'(missing positions {np.where(np.isnan(o.get_vectors()[0]))[0].tolist()} vs '
                    f'{np.where(np.isnan(s[0]))[0].tolist()})')
    keep = ~np.isnan(s1[0])
    arg, S = _sigma(case.get('sigma', 'none'), n, rs)
    if method in MAT_METHODS:
        if sub1 is None:
            return 'case error: matrix measures need a whole-condition mask'
        want = np.zeros((case['n1'], case['n2']))
        for i in range(case['n1']):
            for j in range(case['n2']):
                want[i, j] = _spec_sim(method, sub1[i], sub2[j], None, n_sub)
    else:
        Vk = _spec_V(n, S)[keep][:, keep] if method.endswith('_cov') else None
        want = _spec_compare(method, s1, s2, keep, Vk)
    with warnings.catch_warnings():
        warnings.simplefilter('ignore')
        if method.endswith('_cov'):
            got = compare(o1, o2, method=method, sigma_k=arg)
        else:
            got = compare(o1, o2, method=method)
    got = np.asarray(got, dtype=float)
    if got.shape != want.shape:
        return f'result shape {got.shape}, expected {want.shape}'
    # the squared Bures metric carries the unit of the RDMs: judged relative to its own magnitude when units are swept
    cmp_ = _rclose if (method == 'bures_metric' and ('unit1' in case or 'unit2' in case)) else close
    if not cmp_(got, want, _dtype_tol(_tol(method, case.get('sigma', 'none')), d1, d2)):
        return (f'{method} on a common {case["kind"]} mask (missing {np.where(~keep)[0].tolist()}): got {_fmt(got)}, '
                f'entry-deleted definition gives {_fmt(want)}')
    return None


@oracle('C13/compare-whole-condition')
def orc_compare_whole_condition(case):
    """METAMORPHIC form of the statement ("returns what it returns on the RDMs with those entries deleted"): when the common
    mask removes whole conditions the entry-deleted RDMs are RDMs again, so both sides can be given to compare() itself
    (sigma_k restricted to the remaining conditions).  This is the only check of the NaN path with a non-constant VECTOR
    sigma_k that is independent of the C03 defect (vector sigma_k != diag(vector) definition)."""
    from rsatoolbox.rdm import RDMs, compare
    from rsatoolbox.rdm.combine import from_partials
    rs = np.random.RandomState(case['seed'])
    n_all, sub = case['n_all'], list(case['sub'])
    method = case['method']
    names = ['c%d' % i for i in range(n_all)]
    va = _sq_euclid_vectors(rs, case['n1'], len(sub)) if method in MAT_METHODS else rs.rand(case['n1'], _n_pairs(len(sub))) + 0.1
    vb = _sq_euclid_vectors(rs, case['n2'], len(sub)) if method in MAT_METHODS else rs.rand(case['n2'], _n_pairs(len(sub))) + 0.1
    # sweep keys: unit1 / unit2 (positive factor of the stack), dtype1 / dtype2 ('float32')
    va, _ = _typed(va * case.get('unit1', 1.0), case.get('dtype1'))
    vb, _ = _typed(vb * case.get('unit2', 1.0), case.get('dtype2'))
    a = RDMs(va.copy(), pattern_descriptors={'conds': [names[i] for i in sub]})
    b = RDMs(vb.copy(), pattern_descriptors={'conds': [names[i] for i in sub]})
    # the NaN-bearing versions are built from the literal placement, not by from_partials
    A = RDMs(_spec_partials(va, sub, n_all).astype(va.dtype))
    B = RDMs(_spec_partials(vb, sub, n_all).astype(vb.dtype))
    kind = case.get('sigma', 'none')
    arg, _ = _sigma(kind, n_all, rs)
    kw_full, kw_sub = {}, {}
    if method.endswith('_cov') and arg is not None:
        idx = np.array(sub)
        # condition i of the sub-RDM is condition sub[i] of the full one
        kw_full = dict(sigma_k=arg)
        kw_sub = dict(sigma_k=arg[idx] if arg.ndim == 1 else arg[np.ix_(idx, idx)])
    with warnings.catch_warnings():
        warnings.simplefilter('ignore')
        got = np.asarray(compare(A, B, method=method, **kw_full), dtype=float)
        want = np.asarray(compare(a, b, method=method, **kw_sub), dtype=float)
        if kw_full and arg.ndim == 1:
            scaled = np.asarray(compare(A, B, method=method, sigma_k=3.7 * arg), dtype=float)
            if not close(scaled, got, 1e-9):
                return f'{method}: multiplying the vector sigma_k by 3.7 changed the result from {_fmt(got)} to {_fmt(scaled)}'
    if sub != sorted(sub):
        return 'case error: sub must be ascending here'
    cmp_ = _rclose if (method == 'bures_metric' and ('unit1' in case or 'unit2' in case)) else close
    if not cmp_(got, want, _dtype_tol(max(_tol(method, kind), 1e-9), case.get('dtype1'), case.get('dtype2'))):
        return (f'{method}(sigma_k={kind}) on RDMs lacking every pair of conditions {sorted(set(range(n_all)) - set(sub))}: {_fmt(got)}, '
                f'on the RDMs of the remaining conditions: {_fmt(want)}')
    return None


@oracle('C13/from-partials')
def orc_from_partials(case):
    """literal spec of the mask producer: every partial RDM lands on the pairs of ITS conditions, everything else is missing.
    sweep keys: label_map ('int': integer condition labels whose order differs from the alphabetical one), conds_form (the
    pattern descriptor of the partial RDMs as list / tuple / ndarray), dtype ('float32' partial RDMs), unit"""
    from rsatoolbox.rdm import RDMs
    from rsatoolbox.rdm.combine import from_partials
    rs = np.random.RandomState(case['seed'])
    parts, rows = [], []
    given = case.get('all_patterns')
    lm = {'a': 30, 'b': 10, 'c': 50, 'd': 20, 'e': 40} if case.get('label_map') == 'int' else None

    def lab(nm):
        return nm if lm is None else lm[nm]
    if given is None:
        order = []
        for names in case['parts']:
            for nm in names:
                if nm not in order:
                    order.append(nm)
    else:
        order = list(given)
    for names, n_rdm in zip(case['parts'], case['n_rdms']):
        v = (rs.rand(n_rdm, _n_pairs(len(names))) + 0.1) * case.get('unit', 1.0)
        vin, v = _typed(v, case.get('dtype'))
        parts.append(RDMs(vin, pattern_descriptors={'conds': _as_form([lab(nm) for nm in names], case.get('conds_form'))}))
        rows.append(_spec_partials(v, [order.index(nm) for nm in names], len(order)))
    want = np.concatenate(rows, axis=0)
    with warnings.catch_warnings():
        warnings.simplefilter('ignore')
        res = from_partials(parts) if given is None else from_partials(parts, all_patterns=[lab(nm) for nm in given])
    got = np.asarray(res.dissimilarities, dtype=float)
    if got.shape != want.shape:
        return f'from_partials gives shape {got.shape}, expected {want.shape}'
    if not _rclose(got, want, 1e-12):
        return f'from_partials({case["parts"]}, all_patterns={given}): {_fmt(got)}, literal placement gives {_fmt(want)}'
    if list(res.pattern_descriptors.get('conds', [])) != [lab(nm) for nm in order]:
        return f'pattern descriptor of the result is {list(res.pattern_descriptors.get("conds", []))}, expected {[lab(nm) for nm in order]}'
    return None


# =====================================================================================================
# compare(): differing masks must be rejected
# =====================================================================================================
def _mask_class(rows1, rows2, P):
    """label from the masks only.  rows = list of missing-position lists, one per RDM"""
    s1 = [frozenset(r) for r in rows1]
    s2 = [frozenset(r) for r in rows2]
    within = len(set(s1)) > 1 or len(set(s2)) > 1

    def width(rows):
        tot = sum(P - len(r) for r in rows)
        return tot // len(rows) if tot % len(rows) == 0 else None
    w1, w2 = width(s1), width(s2)
    count_check_can_tell = w1 is None or w2 is None or w1 != w2
    if within:
        return 'within-stack-masks-differ,ragged-or-unequal-widths' if count_check_can_tell \
            else 'within-stack-masks-differ,equal-widths'
    a, b = s1[0], s2[0]
    if a == b:
        return 'same-mask'
    if b < a:
        return 'subset-mask,rdm1-more-missing'
    if a < b:
        return 'subset-mask,rdm2-more-missing'
    return 'masks-differ,counts-differ' if count_check_can_tell else 'masks-differ,equal-counts'


def _call_must_raise(fn, what):
    try:
        with warnings.catch_warnings():
            warnings.simplefilter('ignore')
            res = fn()
    except Exception:
        return None
    return f'{what} was not rejected, returned {_fmt(res)}'


@oracle('C13/compare-differing')
def orc_compare_differ(case):
    """explicit masks: rows1 / rows2 = missing positions per RDM of stack 1 / 2"""
    from rsatoolbox.rdm import RDMs, compare
    rs = np.random.RandomState(case['seed'])
    n = case['n_cond']
    P = _n_pairs(n)
    rows1, rows2 = case['rows1'], case['rows2']
    a = _with_nan(rs.rand(len(rows1), P) + 0.1, [list(r) for r in rows1])
    b = _with_nan(rs.rand(len(rows2), P) + 0.1, [list(r) for r in rows2])
    if all(set(r) == set(rows1[0]) for r in list(rows1) + list(rows2)):
        return 'case error: masks do not differ'
    # sweep keys: unit1 / unit2, dtype1 / dtype2 ('float32'), form1 / form2
    a, _ = _typed(a * case.get('unit1', 1.0), case.get('dtype1'))
    b, _ = _typed(b * case.get('unit2', 1.0), case.get('dtype2'))
    a, b = _stack_form(a, n, case.get('form1')), _stack_form(b, n, case.get('form2'))
    method = case['method']
    arg, _ = _sigma(case.get('sigma', 'none'), n, rs)
    kw = dict(sigma_k=arg) if method.endswith('_cov') else {}
    return _call_must_raise(lambda: compare(RDMs(a), RDMs(b), method=method, **kw),
                            f'compare(method={method}) of RDMs missing {rows1} vs {rows2}')


@oracle('C13/compare-differing-generated')
def orc_compare_differ_generated(case):
    """masks from two DIFFERENT pattern bootstrap samples / partial condition sets / one of them complete"""
    from rsatoolbox.rdm import compare
    rs = np.random.RandomState(case['seed'])
    o1, s1, _, _, _ = _make_generated(case['kind1'], rs, case['n1'], case['spec1'])
    o2, s2, _, _, _ = _make_generated(case['kind2'], rs, case['n2'], case['spec2'])
    m1 = np.where(np.isnan(s1[0]))[0].tolist()
    m2 = np.where(np.isnan(s2[0]))[0].tolist()
    if s1.shape[1] != s2.shape[1] or m1 == m2:
        return 'case error: need equal n_cond and different masks'
    if not (close(o1.get_vectors(), s1, 1e-12) and close(o2.get_vectors(), s2, 1e-12)):
        return 'mask-producing operation did not give the literal result (see C13/compare-generated)'
    method = case['method']
    return _call_must_raise(lambda: compare(o1, o2, method=method),
                            f'compare(method={method}) of {case["kind1"]}{case["spec1"]} (missing {m1}) vs '
                            f'{case["kind2"]}{case["spec2"]} (missing {m2})')


# =====================================================================================================
# pooling, noise ceilings
# =====================================================================================================
def _spec_pool(method, x, Vk=None, offset=0.0):
    """pooling definition on complete rows x (n_rdm, m).  Vk only for the whitened methods of util.pooling"""
    x = np.asarray(x, dtype=float)
    if method in ('euclid', 'neg_riem_dist'):
        return x.mean(0)
    if method == 'cosine' or (method == 'cosine_cov' and Vk is None):
        return np.mean([r / np.sqrt(np.mean(r ** 2)) for r in x], axis=0)
    if method == 'corr' or (method == 'corr_cov' and Vk is None):
        z = np.mean([(r - r.mean()) / np.sqrt(np.mean((r - r.mean()) ** 2)) for r in x], axis=0)
        return z - z.min() + offset
    if method == 'cosine_cov':
        return np.mean([r / np.sqrt(r @ np.linalg.solve(Vk, r)) for r in x], axis=0)
    if method == 'corr_cov':
        c = [r - r.mean() for r in x]
        z = np.mean([r / np.sqrt(r @ np.linalg.solve(Vk, r)) for r in c], axis=0)
        return z - z.min() + offset
    if method in ('spearman', 'rho-a', 'kendall', 'tau-b', 'tau-a'):
        return np.mean([_avg_ranks(r) for r in x], axis=0)
    raise ValueError(method)


POOL_METHODS = ['euclid', 'neg_riem_dist', 'cosine', 'corr', 'cosine_cov', 'corr_cov', 'spearman', 'rho-a', 'kendall',
                'tau-b', 'tau-a']


def _row_units(case, R):
    u = case.get('units', 1.0)
    return np.array(u, dtype=float).reshape(-1, 1) if isinstance(u, (list, tuple)) else np.full((R, 1), float(u))


@oracle('C13/pool')
def orc_pool(case):
    """sweep keys: units (one positive factor for the stack or one per RDM), dtype ('float32'; integer types with `levels` for
    complete stacks), again (another stack of the same shape with another mask in between, then the identical call)"""
    from rsatoolbox.rdm import RDMs
    rs = np.random.RandomState(case['seed'])
    n = case['n_cond']
    P = _n_pairs(n)
    missing = list(case['missing'])
    keep = np.ones(P, bool)
    keep[missing] = False
    method = case['method']
    v = _values(rs, case['n_rdm'], P, case.get('ties', False), keep)
    if case.get('levels'):
        v = np.round(v / v.max() * case['levels'])
    v = v * _row_units(case, case['n_rdm'])
    vn, vs = _typed(_with_nan(v, missing), case.get('dtype'))
    v = np.where(np.isnan(vs), v, vs)
    if not all(len(set(row[keep].tolist())) >= 2 for row in v):
        return 'case error: a typed row is constant'
    before = vn.copy()
    rdms = RDMs(vn, pattern_descriptors={'conds': ['c%d' % i for i in range(n)]})

    def call(obj):
        with warnings.catch_warnings():
            warnings.simplefilter('ignore')
            if case['copy'] == 'inference_util':
                from rsatoolbox.util.inference_util import pool_rdm
                return pool_rdm(obj, method=method)
            from rsatoolbox.util.pooling import pool_rdm
            return pool_rdm(obj, method=method, sigma_k=arg)

    def spec(x, kp):
        if case['copy'] == 'inference_util':
            wk = _spec_pool(method, x[:, kp], None, 0.0)
        else:
            wk = _spec_pool(method, x[:, kp], _spec_V(n, S)[kp][:, kp] if method.endswith('_cov') else None, 0.01)
        w = np.full((1, P), np.nan)
        w[0, kp] = wk
        return w
    arg = S = None
    if case['copy'] == 'inference_util':
        tol = 1e-9
    else:
        arg, S = _sigma(case.get('sigma', 'none'), n, rs)
        if method in ('neg_riem_dist',):
            return 'case error: util.pooling has no neg_riem_dist'
        tol = 1e-4 if method.endswith('_cov') else 1e-9      # conjugate gradients with rtol 1e-5 in the real code
    tol = _dtype_tol(tol, case.get('dtype'))
    got = call(rdms)
    want = spec(v, keep)
    g = got.get_vectors()
    if g.shape != want.shape:
        return f'pooled RDM has shape {g.shape}, expected {want.shape}'
    # pooled RDMs carry the unit of the stack for some methods: relative to their own magnitude when units are swept
    cmp_ = _rclose if 'units' in case else close
    if not cmp_(g, want, tol):
        return (f'pool_rdm[{case["copy"]}]({method}) on the common mask {missing}: got {_fmt(g)}, pooling the '
                f'entry-deleted RDMs gives {_fmt(want)}')
    if not np.array_equal(rdms.dissimilarities, before, equal_nan=True):
        return 'pool_rdm modified its input'
    if case.get('again'):
        g_held = np.array(g, dtype=float)
        miss2 = _other_mask(missing, P)
        keep2 = np.ones(P, bool)
        keep2[miss2] = False
        v2 = _values(rs, case['n_rdm'], P, case.get('ties', False), keep2)
        g2 = call(RDMs(_with_nan(v2, miss2))).get_vectors()
        if not close(g2, spec(v2, keep2), tol):
            return (f'pool_rdm[{case["copy"]}]({method}): after a call with the mask {missing}, another stack of the same shape '
                    f'missing {miss2} gives {_fmt(g2)}, definition {_fmt(spec(v2, keep2))}')
        g3 = call(rdms).get_vectors()
        if not np.array_equal(g3, g_held, equal_nan=True):
            return f'pool_rdm[{case["copy"]}]({method}): the identical call gives {_fmt(g3)} after {_fmt(g_held)}'
        if not np.array_equal(np.asarray(got.get_vectors(), dtype=float), g_held, equal_nan=True):
            return f'pool_rdm[{case["copy"]}]({method}): the pooled RDM held by the caller changed in later calls'
    return None


@oracle('C13/noise-ceiling')
def orc_noise_ceiling(case):
    """sweep keys: units (per stack or per RDM), dtype ('float32'), groups (boot: rdm descriptor 'subj' with repeated / interleaved /
    unbalanced str values, one level left out at a time), sample in any order and sample_form, by ('str': patterns selected by a
    str-valued descriptor) for cv"""
    from rsatoolbox.rdm import RDMs
    from rsatoolbox.inference.noise_ceiling import boot_noise_ceiling, cv_noise_ceiling
    rs = np.random.RandomState(case['seed'])
    n = case['n_cond']
    method = case['method']
    R = case['n_rdm']
    if case['kind'] == 'boot':
        P = _n_pairs(n)
        missing = list(case['missing'])
        keep = np.ones(P, bool)
        keep[missing] = False
        v = _values(rs, R, P, False, keep)
        vin, vs = _typed(_with_nan(v * _row_units(case, R), missing), case.get('dtype'))
        Vk = _spec_V(n, np.eye(n))[keep][:, keep] if method.endswith('_cov') else None
        x = vs[:, keep]
        pall = _spec_pool(method, x)
        if 'groups' in case:
            grp = list(case['groups'])
            rdms = RDMs(vin, rdm_descriptors={'subj': list(grp)})
            los, his = [], []
            for g in sorted(set(grp)):
                te = [i for i in range(R) if grp[i] == g]
                tr = [i for i in range(R) if grp[i] != g]
                ptr = _spec_pool(method, x[tr])
                los.append(np.mean([_spec_sim(method, ptr, x[i], Vk) for i in te]))
                his.append(np.mean([_spec_sim(method, pall, x[i], Vk) for i in te]))
            lo, hi = np.mean(los), np.mean(his)
            kw = dict(rdm_descriptor='subj')
        else:
            rdms = RDMs(vin)
            lo = np.mean([_spec_sim(method, _spec_pool(method, np.delete(x, i, axis=0)), x[i], Vk) for i in range(R)])
            hi = np.mean([_spec_sim(method, pall, x[i], Vk) for i in range(R)])
            kw = {}
        with warnings.catch_warnings():
            warnings.simplefilter('ignore')
            got = boot_noise_ceiling(rdms, method=method, **kw)
        what = f'boot_noise_ceiling({method}) on the common mask {missing}'
    else:
        # crossvalidation fold: train RDMs `tr`, test RDMs `te`, test patterns = a pattern bootstrap sample
        sample = sorted(case['sample'])
        given = _as_form(case['sample'], case.get('sample_form', 'ndarray'))
        v = rs.rand(R, _n_pairs(n)) + 0.1
        vin, v = _typed(v * _row_units(case, R), case.get('dtype'))
        tr, te = list(case['train']), list(case['test'])
        if case.get('by') == 'str':
            lab = _labels('str', n)
            rdms = RDMs(vin.copy(), pattern_descriptors={'lab': list(lab)})
            train = RDMs(vin[tr].copy(), pattern_descriptors={'lab': list(lab)})
            given = _as_form([lab[i] for i in case['sample']], case.get('sample_form', 'ndarray'))
            test = RDMs(vin[te].copy(), pattern_descriptors={'lab': list(lab)}).subsample_pattern('lab', given)
            kw = dict(pattern_descriptor='lab')
        else:
            rdms = RDMs(vin.copy())
            train = RDMs(vin[tr].copy())
            test = RDMs(vin[te].copy()).subsample_pattern('index', _as_form(case['sample'], case.get('sample_form')))
            kw = {}
        sub = _spec_subsample(v, n, sample)
        if not _rclose(test.get_vectors(), sub[te], 1e-12):
            return 'subsample_pattern did not give the literal bootstrap RDM'
        keep = ~np.isnan(sub[0])
        ns = len(sample)
        Vk = _spec_V(ns, np.eye(ns))[keep][:, keep] if method.endswith('_cov') else None
        # the predictions are pooled over COMPLETE RDMs and then restricted to the sampled patterns
        p_tr = _spec_subsample(_spec_pool(method, v[tr])[None, :], n, sample)[0][keep]
        p_all = _spec_subsample(_spec_pool(method, v)[None, :], n, sample)[0][keep]
        lo = np.mean([_spec_sim(method, p_tr, sub[i][keep], Vk) for i in te])
        hi = np.mean([_spec_sim(method, p_all, sub[i][keep], Vk) for i in te])
        with warnings.catch_warnings():
            warnings.simplefilter('ignore')
            got = cv_noise_ceiling(rdms, [(train, given)], [(test, given)], method=method, **kw)
        what = f'cv_noise_ceiling({method}) with test patterns {list(case["sample"])}'
    got = np.array(got, dtype=float)
    if not np.all(np.isfinite([lo, hi])):
        return None      # a pooled training RDM that is constant on the remaining entries: the correlation is 0/0 by definition
    if not close(got, np.array([lo, hi]), _dtype_tol(1e-8, case.get('dtype'))):
        return f'{what}: got (lower, upper) = {_fmt(got)}, definition on the entry-deleted RDMs gives {_fmt([lo, hi])}'
    return None


# =====================================================================================================
# fit_regress / fit_regress_nn
# =====================================================================================================
def _spec_theta(X, y, Vk, ridge, nonneg):
    """argmin (y - X^T t)^T V^-1 (y - X^T t) + ridge |t|^2 (t >= 0 if nonneg), normalised to unit length"""
    if Vk is None:
        Vk = np.eye(X.shape[1])
    ViX = np.linalg.solve(Vk, X.T)                 # m x k
    A = X @ ViX + ridge * np.eye(X.shape[0])
    bvec = ViX.T @ y
    if not nonneg:
        t = np.linalg.solve(A, bvec)
    else:
        from scipy.optimize import nnls
        # A = L L^T:  |L^T t - L^-1 b|^2 = t^T A t - 2 b^T t + const
        L = np.linalg.cholesky((A + A.T) / 2)
        t, _ = nnls(L.T, np.linalg.solve(L, bvec), maxiter=2000)
    nrm = np.sqrt(np.sum(t ** 2))
    return t / nrm if nrm > 0 else t


@oracle('C13/fit-regress')
def orc_fit_regress(case):
    """sweep keys: unit_model (one positive factor for all basis RDMs), unit_data (per stack or per RDM), dtype_model / dtype_data
    ('float32'), sample in any order / sample_form / by ('str') for the pattern_idx route, again (model and data unchanged, the
    identical call gives the identical weights after a fit of other RDMs of the same shape).  Every call runs under a 20 s alarm."""
    from rsatoolbox.rdm import RDMs
    from rsatoolbox.model import ModelWeighted
    from rsatoolbox.model.fitter import fit_regress, fit_regress_nn
    rs = np.random.RandomState(case['seed'])
    n = case['n_cond']
    method = case['method']
    k, R = case['n_basis'], case['n_rdm']
    nonneg = case.get('nonneg', False)
    ridge = case.get('ridge', 0.0)
    fit = fit_regress_nn if nonneg else fit_regress
    kw = {}
    um = float(case.get('unit_model', 1.0))
    ud = np.array(case['unit_data'], dtype=float).reshape(-1, 1) if isinstance(case.get('unit_data'), (list, tuple)) \
        else float(case.get('unit_data', 1.0))
    dm, dd = case.get('dtype_model'), case.get('dtype_data')
    if case['route'] == 'explicit':
        P = _n_pairs(n)
        missing = list(case['missing'])
        keep = np.ones(P, bool)
        keep[missing] = False
        B = rs.rand(k, P) + 0.1
        Y = rs.rand(R, P) + 0.1
        Bin, B = _typed(_with_nan(B * um, missing), dm)
        Yin, Y = _typed(_with_nan(Y * ud, missing), dd)
        model = ModelWeighted('m', RDMs(Bin))
        data = RDMs(Yin)
        Xk, Yk, n_eff = B[:, keep], Y[:, keep], n
    else:
        # pattern_idx route: complete model restricted by the fitter to the bootstrap sample, data already subsampled
        sample = sorted(case['sample'])
        B = rs.rand(k, _n_pairs(n)) + 0.1
        Y = rs.rand(R, _n_pairs(n)) + 0.1
        Bin, B = _typed(B * um, dm)
        Yin, Y = _typed(Y * ud, dd)
        if case.get('by') == 'str':
            lab = _labels('str', n)
            given = _as_form([lab[i] for i in case['sample']], case.get('sample_form', 'ndarray'))
            model = ModelWeighted('m', RDMs(Bin, pattern_descriptors={'lab': list(lab)}))
            data = RDMs(Yin, pattern_descriptors={'lab': list(lab)}).subsample_pattern('lab', given)
            kw = dict(pattern_idx=given, pattern_descriptor='lab')
        else:
            model = ModelWeighted('m', RDMs(Bin))
            data = RDMs(Yin).subsample_pattern('index', _as_form(case['sample'], case.get('sample_form')))
            kw = dict(pattern_idx=_as_form(case['sample'], case.get('sample_form', 'ndarray')), pattern_descriptor='index')
        sb, sy = _spec_subsample(B, n, sample), _spec_subsample(Y, n, sample)
        keep = ~np.isnan(sb[0])
        Xk, Yk, n_eff = sb[:, keep], sy[:, keep], len(sample)
    arg, S = _sigma(case.get('sigma', 'none'), n_eff, rs)
    # the training RDMs are pooled under the criterion's own metric V(sigma_k) (the oracle used to mirror the fitters' former
    # behaviour of pooling without sigma_k -- an oracle error found when /repo commit 3a124530 repaired that defect, see C08 F1/F2)
    V0 = _spec_V(n_eff, S if method.endswith('_cov') else np.eye(n_eff))[keep][:, keep]
    Vk = _spec_V(n_eff, S)[keep][:, keep] if method.endswith('_cov') else None
    y = _spec_pool(method, Yk, V0 if method.endswith('_cov') else None, 0.01)
    X = Xk
    if method in ('corr', 'corr_cov'):
        X = X - X.mean(1, keepdims=True)
    if method == 'corr_cov':
        y = y - y.mean()
    want = _spec_theta(X, y, Vk, ridge, nonneg)
    m_before = np.array(model.rdm_obj.dissimilarities, copy=True)
    d_before = np.array(data.dissimilarities, copy=True)
    what = (f'{fit.__name__}({method}, sigma_k={case.get("sigma", "none")}, ridge={ridge}, route={case["route"]}) with '
            f'missing entries {np.where(~keep)[0].tolist()}')

    def call(mod, dat):
        with warnings.catch_warnings(), _TimeLimit(20):
            warnings.simplefilter('ignore')
            return np.array(fit(mod, dat, method=method, ridge_weight=ridge, sigma_k=arg, **kw), dtype=float)
    try:
        got = call(model, data)
    except TimeoutError as e:
        return f'{what}: {e}'
    if got.shape != want.shape:
        return f'theta has shape {got.shape}, expected {want.shape}'
    # whitened: the fitters solve V x = b by conjugate gradients with rtol 1e-5 (seen: 1e-5 on theta)
    if not close(got, want, _dtype_tol(1e-4 if method.endswith('_cov') else 1e-7, dm, dd)):
        return (f'{what}: theta {_fmt(got)}, generalised least squares on the '
                f'entry-deleted vectors gives {_fmt(want)}')
    if case.get('again'):
        if not (np.array_equal(model.rdm_obj.dissimilarities, m_before, equal_nan=True)
                and np.array_equal(data.dissimilarities, d_before, equal_nan=True)):
            return f'{what}: the fit modified the model or data RDMs'
        if case['route'] == 'explicit':
            # other RDMs of the same shape with another mask of the same size in between
            miss2 = _other_mask(missing, _n_pairs(n))
            B2, Y2 = rs.rand(k, _n_pairs(n)) + 0.1, rs.rand(R, _n_pairs(n)) + 0.1
            try:
                call(ModelWeighted('m2', RDMs(_with_nan(B2, miss2))), RDMs(_with_nan(Y2, miss2)))
            except TimeoutError as e:
                return f'{what}: {e}'
        try:
            got2 = call(model, data)
        except TimeoutError as e:
            return f'{what}: {e}'
        if not np.array_equal(got2, got):
            return f'{what}: the identical call gives {_fmt(got2)} after {_fmt(got)}'
    return None


@oracle('C13/fit-regress-differing')
def orc_fit_differ(case):
    """model mask and (pooled) data mask differ -> the fitter must raise instead of regressing shifted vectors"""
    from rsatoolbox.rdm import RDMs
    from rsatoolbox.model import ModelWeighted
    from rsatoolbox.model.fitter import fit_regress, fit_regress_nn
    rs = np.random.RandomState(case['seed'])
    n = case['n_cond']
    P = _n_pairs(n)
    mm, dm = list(case['model_missing']), list(case['data_missing'])
    if set(mm) == set(dm):
        return 'case error: masks do not differ'
    B = rs.rand(case['n_basis'], P) + 0.1
    Y = rs.rand(case['n_rdm'], P) + 0.1
    model = ModelWeighted('m', RDMs(_with_nan(B, mm)))
    data = RDMs(_with_nan(Y, dm))
    fit = fit_regress_nn if case.get('nonneg') else fit_regress
    return _call_must_raise(lambda: fit(model, data, method=case['method']),
                            f'{fit.__name__}({case["method"]}) with model RDMs missing {mm} and data RDMs missing {dm}')


# =====================================================================================================
# RDMs.mean
# =====================================================================================================
@oracle('C13/mean')
def orc_mean(case):
    """sweep keys: dtype ('float32'; integer types for complete stacks), unit (positive factor of the RDMs), w_unit (positive factor
    of all weights: the weighted mean does not change), w_int (integer-typed weights 1..5); weights kinds 'array-per-rdm-1d'
    (one weight per RDM as ndarray argument) and 'descriptor-per-rdm-ndarray' (the rdm descriptor is an ndarray)"""
    from rsatoolbox.rdm import RDMs
    rs = np.random.RandomState(case['seed'])
    n = case['n_cond']
    P = _n_pairs(n)
    rows = [list(r) for r in case['rows']]
    R = len(rows)
    x = _with_nan(rs.rand(R, P) + 0.1 + 3 * np.arange(R)[:, None], rows)   # rows on clearly different levels
    if case.get('levels'):
        x = np.round(x / np.nanmax(x) * case['levels'])
    xin, x = _typed(x * case.get('unit', 1.0), case.get('dtype'))
    wkind = case['weights']
    names = ['p%d' % i for i in range(n)]
    rdms = RDMs(xin.copy(), pattern_descriptors={'conds': names}, rdm_descriptors={'subj': list(range(10, 10 + R))})
    w_eff = np.ones((R, P))
    arg = None
    snapshot = None
    wu = case.get('w_unit', 1.0)

    def draw(*shape):
        if case.get('w_int'):
            return rs.randint(1, 6, size=shape)
        return (rs.rand(*shape) + 0.2) * wu
    if wkind == 'none':
        pass
    elif wkind in ('array-nan-at-missing', 'array-finite-at-missing'):
        w_eff = draw(R, P)
        arg = w_eff.copy()
        if wkind == 'array-nan-at-missing':
            arg = arg.astype(float)
            arg[np.isnan(x)] = np.nan
        snapshot = arg.copy()
    elif wkind == 'per-rdm-tiled-array-nan-at-missing':
        wr = draw(R)
        w_eff = np.tile(wr[:, None], (1, P))
        arg = w_eff.astype(float)
        arg[np.isnan(x)] = np.nan
        snapshot = arg.copy()
    elif wkind == 'array-per-rdm-1d':
        wr = draw(R)
        w_eff = np.tile(wr[:, None], (1, P))
        arg = wr.copy()
        snapshot = arg.copy()
    elif wkind in ('descriptor-per-rdm', 'descriptor-per-rdm-ndarray'):
        wr = draw(R).tolist()
        w_eff = np.tile(np.array(wr)[:, None], (1, P))
        rdms.rdm_descriptors['w'] = list(wr) if wkind == 'descriptor-per-rdm' else np.array(wr)
        arg = 'w'
        snapshot = list(wr)
    elif wkind in ('descriptor-array-nan-at-missing',):
        w_eff = draw(R, P)
        stored = w_eff.astype(float)
        stored[np.isnan(x)] = np.nan
        rdms.rdm_descriptors['w'] = stored
        arg = 'w'
        snapshot = stored.copy()
    else:
        return f'case error: unknown weights kind {wkind}'
    w_eff = np.asarray(w_eff, dtype=float)
    want = np.full((1, P), np.nan)
    for kk in range(P):
        num = den = 0.0
        have = False
        for r in range(R):
            if not np.isnan(x[r, kk]):
                num += w_eff[r, kk] * x[r, kk]
                den += w_eff[r, kk]
                have = True
        if have:
            want[0, kk] = num / den
    with warnings.catch_warnings():
        warnings.simplefilter('ignore')
        m = rdms.mean() if arg is None else rdms.mean(weights=arg)
    got = np.asarray(m.dissimilarities, dtype=float)
    if got.shape != want.shape:
        return f'mean has shape {got.shape}, expected {want.shape}'
    if not (_rclose if 'unit' in case else close)(got, want, _dtype_tol(1e-10, case.get('dtype'))):
        return (f'mean(weights={wkind}) of RDMs missing {rows}: got {_fmt(got)}, weighted mean over the RDMs that have '
                f'the entry gives {_fmt(want)}')
    if list(m.pattern_descriptors.get('conds', [])) != names:
        return 'mean lost the pattern descriptors'
    if not np.array_equal(rdms.dissimilarities, xin, equal_nan=True):
        return 'mean modified the dissimilarities of the RDMs'
    if isinstance(arg, np.ndarray) and not np.array_equal(arg, snapshot, equal_nan=True):
        return f"mean modified the caller's weights array: {_fmt(arg)} was {_fmt(snapshot)}"
    if isinstance(arg, str):
        now = rdms.rdm_descriptors.get('w')
        if now is None or not np.array_equal(np.asarray(now, dtype=float), np.asarray(snapshot, dtype=float),
                                             equal_nan=True):
            return 'mean modified the weights stored in the rdm descriptor'
    return None


# =====================================================================================================
# rescale
# =====================================================================================================
RESCALE_METHODS = ['evidence', 'setsize', 'simple']

class _TimeLimit:
    """the rescaling loop has no iteration bound: turn a run-away call into a reported failure instead of a hung tier"""

    def __init__(self, seconds):
        self.seconds = seconds
        self.armed = False

    def _fire(self, signum, frame):
        raise TimeoutError(f'no result within {self.seconds} s')

    def __enter__(self):
        import signal
        import threading
        if threading.current_thread() is threading.main_thread() and hasattr(signal, 'setitimer'):
            self.old = signal.signal(signal.SIGALRM, self._fire)
            signal.setitimer(signal.ITIMER_REAL, self.seconds)
            self.armed = True
        return self

    def __exit__(self, *exc):
        if self.armed:
            import signal
            signal.setitimer(signal.ITIMER_REAL, 0)
            signal.signal(signal.SIGALRM, self.old)
        return False



def _check_constants(out, orig, what, rtol=1e-9):
    """each row of out = positive constant x row of orig, NaN pattern kept.  returns (message|None, constants)"""
    if out.shape != orig.shape:
        return f'{what}: shape {out.shape}, expected {orig.shape}', None
    if not np.array_equal(np.isnan(out), np.isnan(orig)):
        r = int(np.where((np.isnan(out) != np.isnan(orig)).any(1))[0][0])
        return (f'{what}: NaN pattern of RDM {r} changed from {np.where(np.isnan(orig[r]))[0].tolist()} to '
                f'{np.where(np.isnan(out[r]))[0].tolist()}'), None
    consts = np.zeros(orig.shape[0])
    for r in range(orig.shape[0]):
        ok = ~np.isnan(orig[r]) & (orig[r] != 0)
        ratio = out[r, ok] / orig[r, ok]
        c = float(np.median(ratio))
        consts[r] = c
        if not (c > 0 and np.all(np.isfinite(ratio))):
            return f'{what}: RDM {r} is not multiplied by a positive constant (ratios {_fmt(ratio)})', None
        if np.max(np.abs(ratio / c - 1)) > rtol:
            return f'{what}: RDM {r} is not multiplied by ONE constant (ratios out/in {_fmt(ratio)})', None
        z = ~np.isnan(orig[r]) & (orig[r] == 0)
        if z.any() and np.any(out[r, z] != 0):
            return f'{what}: zero entries of RDM {r} became {_fmt(out[r, z])}', None
    return None, consts


def _check_weights_descriptor(res, orig, what):
    w = res.rdm_descriptors.get('rescalingWeights')
    if w is None:
        return f"{what}: no 'rescalingWeights' rdm descriptor on the result"
    w = np.asarray(w, dtype=float)
    if w.shape[0] != orig.shape[0]:
        return f"{what}: 'rescalingWeights' has {w.shape[0]} rows for {orig.shape[0]} RDMs"
    if w.shape == orig.shape:
        if not np.array_equal(np.isnan(w), np.isnan(orig)):
            return f"{what}: 'rescalingWeights' is not missing exactly where the RDMs are missing"
        if not np.all(w[~np.isnan(w)] > 0):
            return f"{what}: 'rescalingWeights' contains non-positive weights"
    return None


@oracle('C13/rescale')
def orc_rescale(case):
    from rsatoolbox.rdm import RDMs
    from rsatoolbox.rdm.combine import rescale
    rs = np.random.RandomState(case['seed'])
    n = case['n_cond']
    P = _n_pairs(n)
    rows = [list(r) for r in case['rows']]
    R = len(rows)
    scales = np.array(case.get('scales', [1.0] * R), dtype=float)
    x = _with_nan((rs.rand(R, P) + 0.05) * scales[:, None], rows)
    if case.get('zero_entry'):
        r0 = 0
        k0 = [k for k in range(P) if k not in rows[r0]][0]
        x[r0, k0] = 0.0
    # sweep keys: unit (positive factor of the whole stack), dtype ('float32'), again (the identical call gives the identical result)
    xin, x = _typed(x * case.get('unit', 1.0), case.get('dtype'))
    rdms = RDMs(xin.copy(), rdm_descriptors={'subj': ['s%d' % r for r in range(R)]},
                pattern_descriptors={'conds': ['p%d' % i for i in range(n)]})
    method = case['method']
    kw = {} if case.get('threshold') is None else dict(threshold=case['threshold'])
    what = f'rescale({method}{", threshold=%g" % case["threshold"] if kw else ""}) of RDMs missing {rows}'
    try:
        with warnings.catch_warnings(), _TimeLimit(20):
            warnings.simplefilter('ignore')
            res = rescale(rdms, method=method, **kw)
    except TimeoutError as e:
        return f'{what}: {e}'
    out = np.asarray(res.dissimilarities, dtype=float)
    msg, _ = _check_constants(out, x, what, _dtype_tol(1e-9, case.get('dtype')))
    if msg:
        return msg
    msg = _check_weights_descriptor(res, x, what)
    if msg:
        return msg
    if list(res.rdm_descriptors.get('subj', [])) != ['s%d' % r for r in range(R)]:
        return f'{what}: rdm descriptors of the input were not carried over'
    if list(res.pattern_descriptors.get('conds', [])) != ['p%d' % i for i in range(n)]:
        return f'{what}: pattern descriptors were not carried over'
    if not np.array_equal(rdms.dissimilarities, xin, equal_nan=True):
        return f'{what}: the input RDMs were modified'
    if 'rescalingWeights' in rdms.rdm_descriptors:
        return f"{what}: 'rescalingWeights' was added to the INPUT object"
    # the stored weights are usable for the weighted average (per-entry weights taken from the descriptor)
    w = np.asarray(res.rdm_descriptors['rescalingWeights'], dtype=float)
    if w.shape == out.shape:
        want = np.full((1, P), np.nan)
        for kk in range(P):
            have = [r for r in range(R) if not np.isnan(out[r, kk])]
            if have:
                want[0, kk] = sum(w[r, kk] * out[r, kk] for r in have) / sum(w[r, kk] for r in have)
        with warnings.catch_warnings():
            warnings.simplefilter('ignore')
            got = res.mean(weights='rescalingWeights').dissimilarities
        if not _rclose(got, want, _dtype_tol(1e-10, case.get('dtype'))):
            return (f"{what}: mean(weights='rescalingWeights') gives {_fmt(got)}, weighted mean over available entries "
                    f'is {_fmt(want)}')
    if case.get('again'):
        try:
            with warnings.catch_warnings(), _TimeLimit(20):
                warnings.simplefilter('ignore')
                out2 = np.asarray(rescale(rdms, method=method, **kw).dissimilarities, dtype=float)
        except TimeoutError as e:
            return f'{what}: {e}'
        if not np.array_equal(out2, out, equal_nan=True):
            return f'{what}: the identical call gives {_fmt(out2)} after {_fmt(out)}'
        if not np.array_equal(np.asarray(res.dissimilarities, dtype=float), out, equal_nan=True):
            return f'{what}: the result held by the caller changed in the later call'
    return None


def _proportional_stack(case, rs):
    """returns (RDMs, true scales, spec vectors).  All rows are scale_r x one underlying RDM on their support"""
    from rsatoolbox.rdm import RDMs
    from rsatoolbox.rdm.combine import from_partials
    kind = case['kind']
    if kind == 'chain':
        K, size, share = case['K'], case['size'], case['share']
        step = size - share
        n = step * (K - 1) + size
        subs = [list(range(step * k, step * k + size)) for k in range(K)]
        scales = [float(x) for x in case['scales']]
    elif kind == 'cover':
        n = case['n_cond']
        subs = [list(s) for s in case['subs']]
        scales = [float(s) for s in case['scales']]
    elif kind == 'entries':
        n = case['n_cond']
        subs = None
        scales = [float(s) for s in case['scales']]
    else:
        raise ValueError(kind)
    pts = rs.rand(n, 3)
    # sweep keys: unit (the underlying RDM in other units), dtype ('float32' partial RDMs)
    full = np.array([np.sqrt(((pts[i] - pts[j]) ** 2).sum()) + 0.2 for (i, j) in _pairs(n)]) * case.get('unit', 1.0)
    names = ['c%02d' % i for i in range(n)]
    if subs is not None:
        parts = []
        spec = np.full((len(subs), _n_pairs(n)), np.nan)
        pos = {p: a for a, p in enumerate(_pairs(n))}
        for r, (sub, sc) in enumerate(zip(subs, scales)):
            v = np.array([full[pos[(min(sub[i], sub[j]), max(sub[i], sub[j]))]] for (i, j) in _pairs(len(sub))]) * sc
            vin, vv = _typed(v[None, :], case.get('dtype'))
            parts.append(RDMs(vin, pattern_descriptors={'conds': [names[i] for i in sub]}))
            spec[r] = _spec_partials(vv, sub, n)[0]
        rdms = from_partials(parts, all_patterns=names)
    else:
        sin, spec = _typed(_with_nan(np.array([full * sc for sc in scales]), [list(r) for r in case['rows']]), case.get('dtype'))
        rdms = RDMs(sin)
    return rdms, np.array(scales), spec


def _connected(spec):
    have = ~np.isnan(spec)
    R = spec.shape[0]
    seen = {0}
    todo = [0]
    while todo:
        r = todo.pop()
        for q in range(R):
            if q not in seen and (have[r] & have[q]).any():
                seen.add(q)
                todo.append(q)
    return len(seen) == R


@oracle('C13/rescale-proportional')
def orc_rescale_prop(case):
    from rsatoolbox.rdm.combine import rescale
    rs = np.random.RandomState(case['seed'])
    rdms, scales, spec = _proportional_stack(case, rs)
    if not _rclose(rdms.dissimilarities, spec, 1e-12):
        return 'from_partials did not give the literal partial RDMs'
    if not _connected(spec):
        return 'case error: overlap graph not connected'
    method = case['method']
    thr = case.get('threshold', 1e-20)
    kw = {} if thr is None else dict(threshold=thr)
    what = (f'rescale({method}, threshold={"default" if thr is None else "%g" % thr}) of {spec.shape[0]} proportional partial RDMs '
            f'({case["kind"]}, scales {_fmt(scales)})')
    try:
        with warnings.catch_warnings(), _TimeLimit(20):
            warnings.simplefilter('ignore')
            res = rescale(rdms, method=method, **kw)
    except TimeoutError as e:
        return f'{what}: {e}'
    out = np.asarray(res.dissimilarities, dtype=float)
    msg, consts = _check_constants(out, spec, what, _dtype_tol(1e-9, case.get('dtype')))
    if msg:
        return msg
    msg = _check_weights_descriptor(res, spec, what)
    if msg:
        return msg
    tol = case.get('tol', 1e-6)
    have = ~np.isnan(spec)
    worst, where = 0.0, None
    for i in range(spec.shape[0]):
        for j in range(i + 1, spec.shape[0]):
            both = have[i] & have[j]
            if both.any():
                dev = float(np.max(np.abs(out[i, both] / out[j, both] - 1)))
                if dev > worst:
                    worst, where = dev, (i, j)
    undo = consts * scales
    undo_dev = float(np.max(np.abs(undo / undo[0] - 1)))
    if worst > tol or undo_dev > tol:
        return (f'{what}: not on a common scale (tolerance {tol:g}) -- shared entries of RDM {where} differ by a factor {1 + worst:.6g}; '
                f'constant x true scale relative to RDM 0 = {_fmt(undo / undo[0])} (should all be 1)')
    return None


# =====================================================================================================
# environment: new interpreters with other hash seeds
# =====================================================================================================
_CHILD = r"""
import json, sys, warnings
import numpy as np
warnings.simplefilter('ignore')
from rsatoolbox.rdm import RDMs, compare
from rsatoolbox.rdm.combine import from_partials, rescale
from rsatoolbox.util.inference_util import pool_rdm
job = json.load(sys.stdin)
out = {}
with np.errstate(all='ignore'):
    def build(parts):
        return [RDMs(np.array(p['v'], dtype=float), pattern_descriptors={'conds': list(p['conds'])},
                     rdm_descriptors={'w': list(p['w'])}, descriptors={'session': p['session']}) for p in parts]
    fa = from_partials(build(job['a']))
    fb = from_partials(build(job['b']), all_patterns=list(fa.pattern_descriptors['conds']))
    out['conds'] = list(fa.pattern_descriptors['conds'])
    out['va'] = [[None if np.isnan(x) else float(x) for x in r] for r in fa.dissimilarities]
    out['w'] = [float(x) for x in fa.rdm_descriptors['w']]
    out['compare'] = {m: np.asarray(compare(fa, fb, method=m), dtype=float).tolist() for m in job['methods']}
    out['mean'] = [None if np.isnan(x) else float(x) for x in fa.mean(weights='w').dissimilarities[0]]
    out['pool'] = [None if np.isnan(x) else float(x) for x in pool_rdm(fa, method='corr').dissimilarities[0]]
    rsc = rescale(fa, method='simple')
    out['rescale'] = [[None if np.isnan(x) else float(x) for x in r] for r in rsc.dissimilarities]
json.dump(out, sys.stdout)
"""


def _nan_list(a):
    return np.array([[np.nan if x is None else x for x in r] for r in a], dtype=float)


@oracle('C13/fresh-interpreter')
def orc_fresh_interpreter(case):
    """environment: interpreters started with other PYTHONHASHSEEDs build the same partial RDMs from str-labelled conditions (union
    of the labels in order of appearance), and give the entry-deleted comparison values, the weighted mean and -- compared with
    this process -- the same pooled and rescaled RDMs"""
    import json
    import os
    import subprocess
    import sys
    from rsatoolbox.rdm import RDMs, compare
    from rsatoolbox.rdm.combine import from_partials, rescale
    from rsatoolbox.util.inference_util import pool_rdm
    rs = np.random.RandomState(case['seed'])
    order = []
    for names in case['parts']:
        for nm in names:
            if nm not in order:
                order.append(nm)
    n = len(order)

    def make():
        parts, rows, ws = [], [], []
        for pi_, names in enumerate(case['parts']):
            v = rs.rand(2, _n_pairs(len(names))) + 0.1
            w = (rs.rand(2) + 0.2).tolist()
            parts.append(dict(v=v.tolist(), conds=list(names), w=w, session='ses-%d' % pi_))
            rows.append(_spec_partials(v, [order.index(nm) for nm in names], n))
            ws += w
        return parts, np.concatenate(rows, axis=0), np.array(ws)
    pa, sa, wa = make()
    pb, sb, _ = make()
    methods = ['cosine', 'corr', 'spearman', 'kendall', 'tau-a', 'rho-a', 'cosine_cov', 'corr_cov']
    # the definition: all RDMs of one stack must share the mask for compare -> only cases whose parts have the same condition set
    # are compared; otherwise the comparison part is skipped
    same_mask = all(np.array_equal(np.isnan(r), np.isnan(sa[0])) for r in np.concatenate([sa, sb]))
    job = json.dumps(dict(a=pa, b=pb, methods=methods if same_mask else []))
    procs = []
    for hs in case['hashseeds']:
        env = dict(os.environ, PYTHONHASHSEED=str(hs), MPLBACKEND='Agg')
        procs.append((hs, subprocess.Popen([sys.executable, '-c', _CHILD], stdin=subprocess.PIPE, stdout=subprocess.PIPE,
                                           stderr=subprocess.PIPE, env=env, text=True)))
    outs = []
    for hs, p in procs:
        try:
            o, e = p.communicate(job, timeout=240)
        except subprocess.TimeoutExpired:
            p.kill()
            return f'PYTHONHASHSEED={hs}: the new interpreter did not finish within 240 s'
        if p.returncode != 0:
            return f'PYTHONHASHSEED={hs}: the new interpreter failed: {e.strip().splitlines()[-1:]}'
        outs.append((hs, json.loads(o)))
    # expected values
    keep = ~np.isnan(sa[0])
    want_mean = np.full(_n_pairs(n), np.nan)
    for kk in range(_n_pairs(n)):
        have = [r for r in range(sa.shape[0]) if not np.isnan(sa[r, kk])]
        if have:
            want_mean[kk] = sum(wa[r] * sa[r, kk] for r in have) / sum(wa[r] for r in have)
    with warnings.catch_warnings():
        warnings.simplefilter('ignore')
        def build(parts):
            return [RDMs(np.array(q['v'], dtype=float), pattern_descriptors={'conds': list(q['conds'])},
                         rdm_descriptors={'w': list(q['w'])}, descriptors={'session': q['session']}) for q in parts]
        here = from_partials(build(pa))
        here_pool = pool_rdm(here, method='corr').dissimilarities if same_mask else None
        here_resc = rescale(here, method='simple').dissimilarities
    for hs, o in outs:
        tag = f'a new interpreter with PYTHONHASHSEED={hs}'
        if o['conds'] != order:
            return f'{tag}: from_partials orders the conditions {o["conds"]}, order of appearance is {order}'
        if not close(_nan_list(o['va']), sa, 1e-12):
            return f'{tag}: from_partials gives {_fmt(_nan_list(o["va"]))}, literal placement {_fmt(sa)}'
        if not close(o['w'], wa, 1e-15):
            return f'{tag}: rdm descriptor w of the partial RDMs is {o["w"]}, expected {wa.tolist()}'
        for m in (methods if same_mask else []):
            Vk = _spec_V(n, np.eye(n))[keep][:, keep] if m.endswith('_cov') else None
            want = _spec_compare(m, sa, sb, keep, Vk)
            if not close(np.array(o['compare'][m], dtype=float), want, _tol(m)):
                return f'{tag}: {m} = {o["compare"][m]}, entry-deleted definition {_fmt(want)}'
        if not close(_nan_list([o['mean']])[0], want_mean, 1e-10):
            return f'{tag}: mean(weights=descriptor) = {o["mean"]}, weighted mean over available entries {_fmt(want_mean)}'
        if same_mask and not close(_nan_list([o['pool']]), here_pool, 1e-12):
            return f'{tag}: pooled RDM {o["pool"]}, this process {_fmt(here_pool)}'
        if not close(_nan_list(o['rescale']), here_resc, 1e-12):
            return f'{tag}: rescaled RDMs {_fmt(_nan_list(o["rescale"]))}, this process {_fmt(here_resc)}'
    return None


# =====================================================================================================
# domains
# =====================================================================================================
def _masks_upto(P, kmax):
    for k in range(kmax + 1):
        for c in itertools.combinations(range(P), k):
            yield list(c)


def _sigma_class(method, sigma, missing):
    if method.endswith('_cov') and sigma == 'vector':
        return 'sigma_k-vector-nonconstant'
    return 'no-missing' if not missing else 'common-mask'


def tier_c(run, thorough):
    bds = []

    # ---------------------------------------------------------------- compare, same masks
    sizes = {4: 3, 5: 3, 6: 3} if thorough else {4: 3, 5: 1}
    bd = Bounded(run, 'C13/compare-same-mask', 'C13/compare/oracle/same-mask-equals-entry-deleted',
                 'ALL common masks with <= k missing pairs for n_cond:k in %s; 8 vector measures; sigma_k None / constant vector / '
                 'non-constant vector / matrix for the whitened ones; 2x3 RDMs, one seeded value set per case (+ tie-heavy '
                 'integer values for the rank measures)' % sizes, exhaustive=True, function='compare')
    for n, kmax in sizes.items():
        for mi, missing in enumerate(_masks_upto(_n_pairs(n), kmax)):
            for method in VEC_METHODS:
                sig = ['none', 'vector-constant', 'vector', 'matrix'] if method.endswith('_cov') else ['none']
                for s in sig:
                    bd.check(orc_compare_same, dict(seed=1000 * n + mi, n_cond=n, n1=2, n2=3, missing=missing, method=method, sigma=s),
                             _sigma_class(method, s, missing), function='compare_' + method)
                if method in ('spearman', 'kendall', 'tau-a', 'rho-a'):
                    bd.check(orc_compare_same, dict(seed=1000 * n + mi, n_cond=n, n1=2, n2=2, missing=missing, method=method, ties=True),
                             'no-missing' if not missing else 'common-mask,ties', function='compare_' + method)
    bd.done()
    bds.append(bd)

    # ---------------------------------------------------------------- compare, generated common masks
    bd = Bounded(run, 'C13/compare-generated', 'C13/compare/oracle/generated-mask-equals-entry-deleted',
                 'pattern bootstrap samples (all multisets of size n from n=4 patterns with >= 3 distinct; seeded ones for n=5,6) and '
                 'from_partials with 1-2 missing conditions at every position (n_all 4..6); 8 vector measures (+ bures, '
                 'bures_metric on whole-condition masks); sigma_k None / matrix', function='compare')
    samples = [(4, list(c)) for c in itertools.combinations_with_replacement(range(4), 4) if len(set(c)) >= 3]
    rs = np.random.RandomState(13)
    for n in ((5, 6) if thorough else (5,)):
        made = 0
        while made < (6 if thorough else 3):
            smp = sorted(rs.randint(0, n, size=n).tolist())
            if len(set(smp)) >= 3:
                samples.append((n, smp))
                made += 1
    for si, (n, sample) in enumerate(samples):
        for method in VEC_METHODS:
            for s in (['none', 'matrix'] if method.endswith('_cov') else ['none']):
                bd.check(orc_compare_generated, dict(seed=si, kind='subsample', spec=dict(n_cond=n, sample=sample), n1=2, n2=2,
                                                     method=method, sigma=s),
                         'bootstrap-mask' if len(set(sample)) < len(sample) else 'bootstrap-no-repeat', function='subsample_pattern')
    pi = 0
    for n_all in ((4, 5, 6) if thorough else (4, 5)):
        for n_miss in (1, 2):
            if n_all - n_miss < 3:
                continue
            for miss in itertools.combinations(range(n_all), n_miss):
                sub = [i for i in range(n_all) if i not in miss]
                variants = [sub] if not thorough else [sub, sub[::-1]]
                for subv in variants:
                    pi += 1
                    for method in VEC_METHODS + SPEC_MAT_METHODS:
                        for s in (['none', 'matrix'] if method.endswith('_cov') else ['none']):
                            bd.check(orc_compare_generated, dict(seed=100 + pi, kind='partials', spec=dict(n_all=n_all, sub=subv),
                                                                 n1=2, n2=2, method=method, sigma=s),
                                     'partials-mask', function='from_partials')
    bd.done()
    bds.append(bd)

    bd = Bounded(run, 'C13/compare-whole-condition', 'C13/compare/oracle/whole-condition-mask-equals-sub-rdm',
                 'metamorphic: ALL ways to drop 1-2 whole conditions from n_all=4..%d; 11 methods; sigma_k None / constant vector / '
                 'non-constant vector / matrix for the whitened ones; 2x2 RDMs' % (6 if thorough else 5), exhaustive=True,
                 function='compare')
    wi = 0
    for n_all in ((4, 5, 6) if thorough else (4, 5)):
        for n_miss in (1, 2):
            if n_all - n_miss < 3:
                continue
            for miss in itertools.combinations(range(n_all), n_miss):
                sub = [i for i in range(n_all) if i not in miss]
                wi += 1
                for method in ALL_METHODS:
                    if method == 'neg_riem_dist' and not (thorough or wi % 4 == 0):
                        continue
                    for s in (['none', 'vector-constant', 'vector', 'matrix'] if method.endswith('_cov') else ['none']):
                        bd.check(orc_compare_whole_condition, dict(seed=wi, n_all=n_all, sub=sub, n1=2, n2=2, method=method, sigma=s),
                                 'whole-condition-mask,sigma_k-' + s, function='_cov_weighting' if method.endswith('_cov') else 'compare')
    bd.done()
    bds.append(bd)

    bd = Bounded(run, 'C13/from-partials', 'C13/from_partials/oracle/literal-placement',
                 'lists of 1-3 partial RDMs objects (1-2 RDMs each) over 3-5 named conditions in ascending / descending / mixed order, '
                 'all_patterns given (incl. extra and permuted names) or None (union in order of appearance)', function='from_partials')
    fp_cases = [
        dict(parts=[['b', 'c', 'd']], n_rdms=[2], all_patterns=['a', 'b', 'c', 'd']),
        dict(parts=[['d', 'c', 'b']], n_rdms=[1], all_patterns=['a', 'b', 'c', 'd']),
        dict(parts=[['a', 'c', 'd'], ['b', 'c', 'd']], n_rdms=[1, 2], all_patterns=['a', 'b', 'c', 'd']),
        dict(parts=[['a', 'c', 'd'], ['b', 'c', 'd']], n_rdms=[1, 2], all_patterns=['d', 'a', 'c', 'b', 'e']),
        dict(parts=[['a', 'b', 'c'], ['c', 'd', 'e'], ['e', 'a', 'b', 'd']], n_rdms=[1, 1, 1], all_patterns=None),
        dict(parts=[['c', 'a', 'b'], ['d', 'b', 'a']], n_rdms=[2, 1], all_patterns=None),
        dict(parts=[['a', 'b', 'c', 'd']], n_rdms=[2], all_patterns=None),
        dict(parts=[['b', 'd', 'a', 'c'], ['a', 'c']], n_rdms=[1, 1], all_patterns=['a', 'b', 'c', 'd']),
    ]
    for fi_, c in enumerate(fp_cases):
        bd.check(orc_from_partials, dict(c, seed=fi_), 'all_patterns-given' if c['all_patterns'] else 'all_patterns-none',
                 function='from_partials')
    bd.done()
    bds.append(bd)

    # ---------------------------------------------------------------- compare, differing masks
    n = 4
    P = _n_pairs(n)
    single = list(_masks_upto(P, 2))
    methods_d = ALL_METHODS if thorough else ['cosine', 'corr', 'spearman', 'kendall', 'tau-a', 'rho-a', 'cosine_cov', 'corr_cov',
                                              'bures']
    bd = Bounded(run, 'C13/compare-differing', 'C13/compare/oracle/differing-masks-rejected',
                 'n_cond=4: ALL ordered pairs of different masks with <= 2 missing pairs (one mask per stack, 1x2 RDMs), ALL '
                 'two-RDM stacks whose rows have different masks (<= 2 missing) against a complete / first-row-masked / '
                 'single-missing stack in both argument orders; %d methods; n_cond=5 seeded' % len(methods_d),
                 exhaustive=True, function='_parse_input_rdms')
    ci = 0
    for m1 in single:
        for m2 in single:
            if set(m1) == set(m2):
                continue
            ci += 1
            for method in (methods_d if (thorough or ci % 3 == 0) else ['cosine', 'cosine_cov']):
                rows1, rows2 = [m1], [m2, m2]
                bd.check(orc_compare_differ, dict(seed=ci, n_cond=n, rows1=rows1, rows2=rows2, method=method),
                         _mask_class(rows1, rows2, P), function='_parse_input_rdms')
    for m1 in single:
        for m2 in single:
            if set(m1) == set(m2):
                continue
            ci += 1
            stack = [m1, m2]
            for other in ([[]], [m1], [[0]], [m1, m1]):
                for order in (0, 1):
                    rows1, rows2 = (stack, other) if order == 0 else (other, stack)
                    for method in (methods_d if thorough and ci % 5 == 0 else ['cosine', 'corr_cov']):
                        bd.check(orc_compare_differ, dict(seed=ci, n_cond=n, rows1=rows1, rows2=rows2, method=method),
                                 _mask_class(rows1, rows2, P), function='_parse_input_rdms')
    # three-RDM stacks with 0/1/2 missing entries: total count divisible although every row differs
    for other in ([[1]], [[1], [1], [1]], [[5]]):
        for order in (0, 1):
            stack = [[], [0], [0, 3]]
            rows1, rows2 = (stack, other) if order == 0 else (other, stack)
            for method in ('cosine', 'spearman', 'cosine_cov'):
                bd.check(orc_compare_differ, dict(seed=7, n_cond=n, rows1=rows1, rows2=rows2, method=method),
                         _mask_class(rows1, rows2, P), function='_parse_input_rdms')
    rs = np.random.RandomState(5)
    for _ in range(60 if thorough else 15):
        P5 = _n_pairs(5)
        k1, k2 = rs.randint(0, 4), rs.randint(0, 4)
        m1 = sorted(rs.choice(P5, k1, replace=False).tolist())
        m2 = sorted(rs.choice(P5, k2, replace=False).tolist())
        if set(m1) == set(m2):
            continue
        for method in ('cosine', 'kendall', 'corr_cov'):
            bd.check(orc_compare_differ, dict(seed=int(rs.randint(1000)), n_cond=5, rows1=[m1, m1], rows2=[m2], method=method),
                     _mask_class([m1, m1], [m2], P5), function='_parse_input_rdms')
    bd.done()
    bds.append(bd)

    bd = Bounded(run, 'C13/compare-differing-generated', 'C13/compare/oracle/differing-generated-masks-rejected',
                 'masks from two different pattern bootstrap samples (n=4: all pairs of multisets with >= 3 distinct patterns and '
                 'different masks; n=6 seeded), bootstrap sample vs complete RDMs, from_partials with different / no missing '
                 'conditions (n_all=4,5), both argument orders; %d methods' % len(methods_d), function='_parse_input_rdms')
    boots = [list(c) for c in itertools.combinations_with_replacement(range(4), 4) if len(set(c)) >= 3]

    def gen_class(kind1, spec1, kind2, spec2):
        def miss(kind, spec):
            if kind == 'subsample':
                sel = sorted(spec['sample'])
                return [a for a, (i, j) in enumerate(_pairs(len(sel))) if sel[i] == sel[j]]
            if kind == 'partials':
                return [a for a, (i, j) in enumerate(_pairs(spec['n_all'])) if i not in spec['sub'] or j not in spec['sub']]
            return []
        a, b = miss(kind1, spec1), miss(kind2, spec2)
        npair = _n_pairs(len(spec1['sample']) if kind1 == 'subsample' else spec1.get('n_all', spec1.get('n_cond')))
        return _mask_class([a], [b], npair), a, b
    gi = 0
    for b1 in boots:
        for b2 in boots:
            cls, a, b = gen_class('subsample', dict(sample=b1), 'subsample', dict(sample=b2))
            if a == b:
                continue
            gi += 1
            for method in (methods_d if (thorough or gi % 4 == 0) else ['cosine']):
                bd.check(orc_compare_differ_generated,
                         dict(seed=gi, kind1='subsample', spec1=dict(n_cond=4, sample=b1), n1=1, kind2='subsample',
                              spec2=dict(n_cond=4, sample=b2), n2=2, method=method), cls, function='subsample_pattern')
    for b1 in boots + [[0, 1, 1, 3, 4, 5], [0, 1, 1, 1, 4, 5], [0, 0, 2, 2, 4, 4]]:
        if len(set(b1)) == len(b1):
            continue
        nn = len(b1)
        for order in (0, 1):
            gi += 1
            A = ('subsample', dict(n_cond=nn, sample=b1), 1)
            B = ('full', dict(n_cond=nn), 3)
            (k1, s1, r1), (k2, s2, r2) = (A, B) if order == 0 else (B, A)
            cls = _mask_class([[0]], [[]], 6) if order == 0 else _mask_class([[]], [[0]], 6)
            for method in methods_d:
                bd.check(orc_compare_differ_generated, dict(seed=gi, kind1=k1, spec1=s1, n1=r1, kind2=k2, spec2=s2, n2=r2, method=method),
                         cls, function='subsample_pattern')
    for n_all in (4, 5):
        subsets = [[i for i in range(n_all) if i != m] for m in range(n_all)] + [list(range(n_all))]
        if n_all == 5:
            subsets += [[0, 1, 2], [2, 3, 4], [0, 2, 4]]
        for s1 in subsets:
            for s2 in subsets:
                cls, a, b = gen_class('partials', dict(n_all=n_all, sub=s1), 'partials', dict(n_all=n_all, sub=s2))
                if a == b:
                    continue
                gi += 1
                for method in (methods_d if (thorough or gi % 3 == 0) else ['cosine', 'corr']):
                    bd.check(orc_compare_differ_generated,
                             dict(seed=gi, kind1='partials', spec1=dict(n_all=n_all, sub=s1), n1=2, kind2='partials',
                                  spec2=dict(n_all=n_all, sub=s2), n2=1, method=method), cls, function='from_partials')
    bd.done()
    bds.append(bd)

    # ---------------------------------------------------------------- pooling
    bd = Bounded(run, 'C13/pool', 'C13/pool_rdm/oracle/common-mask-equals-entry-deleted',
                 'both copies of pool_rdm (util.inference_util: 11 methods; util.pooling: 10 methods, sigma_k None / matrix for the '
                 'whitened ones); ALL common masks with <= %s missing pairs for n_cond=4 (and <= %s for n_cond=5); 3 RDMs; '
                 'tie-heavy values for the rank methods' % ((3, 3) if thorough else (2, 1)), exhaustive=True, function='pool_rdm')
    for n, kmax in ((4, 3 if thorough else 2), (5, 3 if thorough else 1)):
        for mi, missing in enumerate(_masks_upto(_n_pairs(n), kmax)):
            cls = 'no-missing' if not missing else 'common-mask'
            for method in POOL_METHODS:
                bd.check(orc_pool, dict(seed=50 * n + mi, n_cond=n, n_rdm=3, missing=missing, method=method, copy='inference_util'),
                         cls, function='util.inference_util.pool_rdm')
                if method in ('spearman', 'kendall'):
                    bd.check(orc_pool, dict(seed=50 * n + mi, n_cond=n, n_rdm=3, missing=missing, method=method, copy='inference_util',
                                            ties=True), cls, function='_nan_rank_data')
                if method == 'neg_riem_dist':
                    continue
                for s in (['none', 'matrix'] if method.endswith('_cov') else ['none']):
                    bd.check(orc_pool, dict(seed=50 * n + mi, n_cond=n, n_rdm=3, missing=missing, method=method, copy='pooling', sigma=s),
                             cls, function='util.pooling.pool_rdm')
    bd.done()
    bds.append(bd)

    # ---------------------------------------------------------------- noise ceilings
    nc_methods = VEC_METHODS
    bd = Bounded(run, 'C13/noise-ceiling', 'C13/noise_ceiling/oracle/common-mask-equals-entry-deleted',
                 'boot_noise_ceiling: ALL common masks with <= 2 missing pairs, n_cond=4 (<= %d for n_cond=5), 3-4 RDMs; '
                 'cv_noise_ceiling: one fold, test patterns = bootstrap samples of 5 patterns, 4 RDMs split 2/2 and 3/1; '
                 '8 methods' % (2 if thorough else 1), function='boot_noise_ceiling')
    for n, kmax in ((4, 2), (5, 2 if thorough else 1)):
        for mi, missing in enumerate(_masks_upto(_n_pairs(n), kmax)):
            for method in (nc_methods if (thorough or mi % 2 == 0) else ['cosine', 'corr_cov']):
                bd.check(orc_noise_ceiling, dict(seed=mi, kind='boot', n_cond=n, n_rdm=3 + (mi % 2), missing=missing, method=method),
                         'no-missing' if not missing else 'common-mask', function='boot_noise_ceiling')
    for si, sample in enumerate([[0, 1, 2, 3, 4], [0, 1, 1, 3, 4], [0, 0, 2, 2, 4], [1, 1, 1, 3, 4], [0, 2, 3, 3, 3]]):
        for tr, te in (([0, 1], [2, 3]), ([0, 2, 3], [1])):
            for method in nc_methods:
                bd.check(orc_noise_ceiling, dict(seed=si, kind='cv', n_cond=5, n_rdm=4, sample=sample, train=tr, test=te, method=method),
                         'bootstrap-mask' if len(set(sample)) < 5 else 'bootstrap-no-repeat', function='cv_noise_ceiling')
    bd.done()
    bds.append(bd)

    # ---------------------------------------------------------------- fit_regress
    fit_methods = ['cosine', 'corr', 'cosine_cov', 'corr_cov']
    bd = Bounded(run, 'C13/fit-regress', 'C13/fit_regress/oracle/common-mask-equals-entry-deleted',
                 'fit_regress and fit_regress_nn, 4 methods, sigma_k None / matrix, ridge 0 / 0.5; 2 basis RDMs, 3 data RDMs; ALL '
                 'common masks with <= 2 missing pairs for n_cond=4 (<= %d for n_cond=5); pattern_idx route with 4 bootstrap samples'
                 % (2 if thorough else 1), exhaustive=True, function='fit_regress')
    for n, kmax in ((4, 2), (5, 2 if thorough else 1)):
        for mi, missing in enumerate(_masks_upto(_n_pairs(n), kmax)):
            for method in fit_methods:
                for s in (['none', 'matrix'] if method.endswith('_cov') else ['none']):
                    for nonneg in (False, True):
                        for ridge in ((0.0, 0.5) if (thorough or mi % 3 == 0) else (0.0,)):
                            bd.check(orc_fit_regress, dict(seed=mi, route='explicit', n_cond=n, n_basis=2, n_rdm=3, missing=missing,
                                                           method=method, sigma=s, nonneg=nonneg, ridge=ridge),
                                     'no-missing' if not missing else 'common-mask',
                                     function='fit_regress_nn' if nonneg else 'fit_regress')
    for si, sample in enumerate([[0, 1, 2, 3, 4], [0, 1, 1, 3, 4], [0, 0, 2, 2, 4], [0, 2, 3, 3, 3]]):
        for method in fit_methods:
            for nonneg in (False, True):
                bd.check(orc_fit_regress, dict(seed=si, route='pattern_idx', n_cond=5, n_basis=2, n_rdm=3, sample=sample, method=method,
                                               sigma='none', nonneg=nonneg, ridge=0.0),
                         'bootstrap-mask' if len(set(sample)) < 5 else 'bootstrap-no-repeat',
                         function='fit_regress_nn' if nonneg else 'fit_regress')
    bd.done()
    bds.append(bd)

    bd = Bounded(run, 'C13/fit-regress-differing', 'C13/fit_regress/oracle/differing-masks-rejected',
                 'n_cond=4: %s ordered pairs of different (model mask, data mask) with <= 2 missing pairs; fit_regress / '
                 'fit_regress_nn; cosine and corr_cov' % ('ALL' if thorough else 'every third of the'), exhaustive=thorough,
                 function='_parse_nan_vectors')
    fi = 0
    for m1 in single:
        for m2 in single:
            if set(m1) == set(m2):
                continue
            fi += 1
            if not thorough and fi % 3:
                continue
            for nonneg in (False, True):
                for method in ('cosine', 'corr_cov'):
                    bd.check(orc_fit_differ, dict(seed=fi, n_cond=4, n_basis=2, n_rdm=2, model_missing=m1, data_missing=m2,
                                                  method=method, nonneg=nonneg),
                             _mask_class([m1], [m2], P), function='_parse_nan_vectors')
    bd.done()
    bds.append(bd)

    # ---------------------------------------------------------------- mean
    wkinds = ['none', 'array-nan-at-missing', 'array-finite-at-missing', 'per-rdm-tiled-array-nan-at-missing', 'descriptor-per-rdm',
              'descriptor-array-nan-at-missing']

    def mean_class(wk, rows):
        anymiss = any(len(r) for r in rows)
        if wk == 'descriptor-per-rdm':
            return 'weights-descriptor-per-rdm'
        if wk == 'array-finite-at-missing':
            return 'weights-array-finite-at-missing' if anymiss else 'weights-array,no-missing'
        return 'weights-' + wk
    bd = Bounded(run, 'C13/mean', 'C13/RDMs.mean/oracle/weighted-nan-aware-mean',
                 'n_cond=3 (3 pairs): ALL mask combinations of 2 RDMs (64) and seeded ones of 3 RDMs; n_cond=4,5 seeded masks incl. '
                 'entries missing in every RDM; weights: none / per-entry array with NaN or finite values at missing entries / '
                 'per-RDM weights as tiled array / rdm-descriptor name with one weight per RDM / descriptor name with per-entry array',
                 exhaustive=True, function='RDMs.mean')
    all3 = list(_masks_upto(3, 3))
    mi = 0
    for r1 in all3:
        for r2 in all3:
            mi += 1
            for wk in wkinds:
                bd.check(orc_mean, dict(seed=mi, n_cond=3, rows=[r1, r2], weights=wk), mean_class(wk, [r1, r2]), function='RDMs.mean')
    rs = np.random.RandomState(3)
    for _ in range(40 if thorough else 12):
        n = int(rs.choice([3, 4, 5]))
        R = int(rs.randint(2, 5))
        Pn = _n_pairs(n)
        rows = [sorted(rs.choice(Pn, rs.randint(0, Pn), replace=False).tolist()) for _ in range(R)]
        mi += 1
        for wk in wkinds:
            bd.check(orc_mean, dict(seed=mi, n_cond=n, rows=rows, weights=wk), mean_class(wk, rows), function='RDMs.mean')
    bd.done()
    bds.append(bd)

    # ---------------------------------------------------------------- rescale, general
    bd = Bounded(run, 'C13/rescale', 'C13/rescale/oracle/positive-constant-nan-pattern-weights',
                 'non-proportional partial stacks: n_cond=3: ALL mask pairs of 2 RDMs that leave each RDM >= 1 entry and share >= 1; '
                 'n_cond=4,5 seeded masks of 2-4 RDMs (connected overlaps, scales up to 1000, optional zero entry, entries missing '
                 'everywhere); 3 methods; default threshold and 1e-14', function='rescale')
    ri = 0
    for r1 in all3:
        for r2 in all3:
            if len(r1) == 3 or len(r2) == 3 or not (set(range(3)) - set(r1) - set(r2)):
                continue
            ri += 1
            for method in RESCALE_METHODS:
                bd.check(orc_rescale, dict(seed=ri, n_cond=3, rows=[r1, r2], method=method, threshold=None, scales=[1.0, 7.0]),
                         'no-missing' if not (r1 or r2) else 'partial', function='_rescale')
    rs = np.random.RandomState(11)
    made = 0
    while made < (40 if thorough else 12):
        n = int(rs.choice([4, 5]))
        R = int(rs.randint(2, 5))
        Pn = _n_pairs(n)
        rows = [sorted(rs.choice(Pn, rs.randint(0, Pn - 1), replace=False).tolist()) for _ in range(R)]
        spec = _with_nan(np.ones((R, Pn)), rows)
        if not _connected(spec):
            continue
        made += 1
        scales = (10.0 ** rs.uniform(-1, 3, size=R)).round(3).tolist()
        for method in RESCALE_METHODS:
            for thr in (None, 1e-14):
                # 'evidence' with a small threshold: compressed scale range, see for_method() below (run time)
                sc = [round(x ** 0.25, 4) for x in scales] if (method == 'evidence' and thr is not None) else scales
                bd.check(orc_rescale, dict(seed=100 + made, n_cond=n, rows=rows, method=method, threshold=thr, scales=sc,
                                           zero_entry=bool(made % 4 == 0)), 'partial', function='_rescale')
    bd.done()
    bds.append(bd)

    # ---------------------------------------------------------------- rescale, proportional
    chains = [(2, 4, 2, 3.0), (3, 4, 2, 10.0), (4, 4, 2, 3.0), (5, 3, 2, 5.0), (6, 4, 2, 3.0), (4, 5, 3, 100.0), (6, 4, 2, 10.0)]
    if thorough:
        chains += [(8, 4, 2, 3.0), (7, 3, 2, 3.0), (5, 5, 2, 100.0), (3, 6, 2, 1000.0)]
    rs = np.random.RandomState(17)
    prop_cases = []          # (case without method/threshold, label)
    for ci_, (K, size, share, base) in enumerate(chains):
        inc = [float(base) ** k for k in range(K)]
        for order, scales in (('increasing', inc), ('reversed', inc[::-1]), ('shuffled', [inc[i] for i in rs.permutation(K)])):
            monotone = scales == sorted(scales) or scales == sorted(scales, reverse=True)
            prop_cases.append((dict(seed=ci_, kind='chain', K=K, size=size, share=share, scales=scales),
                               'chain,monotone-scales' if monotone else 'chain,non-monotone-scales'))
    made = 0
    while made < (16 if thorough else 6):
        n = int(rs.choice([5, 6]))
        R = int(rs.randint(3, 5))
        subs = [sorted(rs.choice(n, rs.randint(3, n), replace=False).tolist()) for _ in range(R)]
        spec = np.full((R, _n_pairs(n)), np.nan)
        for r, sub in enumerate(subs):
            spec[r] = _spec_partials(np.ones((1, _n_pairs(len(sub)))), sub, n)[0]
        if not _connected(spec):
            continue
        made += 1
        prop_cases.append((dict(seed=200 + made, kind='cover', n_cond=n, subs=subs,
                                scales=(10.0 ** rs.uniform(-2, 2, size=R)).round(4).tolist()), 'condition-cover'))
    made = 0
    while made < (16 if thorough else 6):
        n = int(rs.choice([4, 5]))
        R = int(rs.randint(2, 5))
        Pn = _n_pairs(n)
        rows = [sorted(rs.choice(Pn, rs.randint(0, Pn - 1), replace=False).tolist()) for _ in range(R)]
        if not _connected(_with_nan(np.ones((R, Pn)), rows)):
            continue
        made += 1
        prop_cases.append((dict(seed=300 + made, kind='entries', n_cond=n, rows=rows,
                                scales=(10.0 ** rs.uniform(-2, 2, size=R)).round(4).tolist()), 'entry-masks'))

    def for_method(base_case, label, method):
        """'evidence' weights are the squared RAW dissimilarities: information passes through a low-scale RDM at a rate
        ~ (scale ratio)^-2, so widely different scales that are not monotone along the chain need > 1e5 iterations.  Those
        inputs are kept out of the small-threshold domain (run time) and are examined at the default threshold below."""
        c = dict(base_case, method=method)
        if method == 'evidence' and base_case['kind'] != 'chain':
            c['scales'] = [round(float(x) ** 0.25, 4) for x in base_case['scales']]      # ratio <= 10
        return c

    bd = Bounded(run, 'C13/rescale-proportional', 'C13/rescale/oracle/proportional-to-common-scale',
                 'mutually proportional partial RDMs: chains of K=2..%d partial RDMs (3-6 conditions each, 2-3 shared with the next) '
                 'with scale ratio 3..1000 per link in increasing, reversed and shuffled order (evidence: monotone orders only); '
                 'seeded condition covers and arbitrary entry masks (n_cond 4-6, 2-4 RDMs, connected, scale ratios up to 1e4, '
                 'evidence up to 10); 3 methods; threshold 1e-20, agreement 1e-6' % (8 if thorough else 6), function='rescale')
    for base_case, label in prop_cases:
        for method in RESCALE_METHODS:
            if method == 'evidence' and label == 'chain,non-monotone-scales':
                continue
            bd.check(orc_rescale_prop, dict(for_method(base_case, label, method), threshold=1e-20, tol=1e-6), label, function='_rescale')
    bd.done()
    bds.append(bd)

    bd = Bounded(run, 'C13/rescale-default-threshold', 'C13/rescale/oracle/proportional-default-threshold-within-25pct',
                 'same proportional stacks (all three chain orders for all methods) with the DEFAULT threshold: the default stopping '
                 'rule only promises approximate convergence, so only gross misalignment is flagged: shared entries of two rescaled '
                 'RDMs, and constant x true scale, must agree within 25 %', function='rescale')
    for base_case, label in prop_cases:
        for method in RESCALE_METHODS:
            lab = label
            if method == 'evidence' and label == 'chain,non-monotone-scales':
                lab = 'evidence,chain,non-monotone-scales'
            bd.check(orc_rescale_prop, dict(for_method(base_case, label, method), threshold=None, tol=0.25), lab, function='_rescale')
    bd.done()
    bds.append(bd)
    _sweeps(run, thorough, bds)
    return bds


# =====================================================================================================
# dimension sweeps (tools/SWEEP_BRIEF.md): the same clauses, inputs varied along further dimensions
# =====================================================================================================
UNIT_PAIRS = [(1e-12, 1.0), (1.0, 1e-20), (1e8, 1e-12), (1e-20, 1e12)]


def _seeded_masks(rs, P, kmax, count, kmin=1):
    out = []
    while len(out) < count:
        k = int(rs.randint(kmin, kmax + 1))
        m = sorted(rs.choice(P, k, replace=False).tolist())
        if m not in out:
            out.append(m)
    return out


def _sweeps(run, thorough, bds):
    def sig_for(method, kinds=('none', 'vector', 'matrix')):
        return list(kinds) if method.endswith('_cov') else ['none']

    # ---------------------------------------------------------------- compare, same masks
    bd = Bounded(run, 'C13/compare-same-mask[sizes, typed, units, forms, repeated calls]',
                 'C13/compare/oracle/same-mask-equals-entry-deleted',
                 'n_cond=4 (all masks <= 2 missing, every %s) and n_cond=5 (<= 1 missing): stacks of 1x1, 1x4, 5x1 RDMs; n_cond=3 with 0 / 1 '
                 'missing pairs (2 entries left); n_cond=7%s with seeded masks of up to 8 missing pairs; float32 stacks (both / one of '
                 'them), uint8 / int16 / int64 complete stacks over the range of the type; stacks times 1e-20 .. 1e12, sigma_k times '
                 '1e-12 / 1e8; stacks given as square matrices / Fortran-ordered / non-contiguous view; repeated calls with another '
                 'mask of the same size in between; 8 vector measures, sigma_k None / vector / matrix'
                 % ('one' if thorough else 'second one', ', 8, 9' if thorough else ''), function='compare')
    m4 = list(_masks_upto(6, 2))
    m5 = list(_masks_upto(10, 1))
    base = [(4, m) for m in (m4 if thorough else m4[::2])] + [(5, m) for m in (m5 if thorough else m5[::3])]

    def reg(case, cls, method):
        bd.check(orc_compare_same, case, cls, function='compare_' + method)
    for bi, (n, missing) in enumerate(base):
        seed = 7000 + 100 * n + bi
        for method in VEC_METHODS:
            for s in sig_for(method):
                c0 = dict(seed=seed, n_cond=n, missing=missing, method=method, sigma=s)
                for n1, n2 in ((1, 1), (1, 4), (5, 1)):
                    reg(dict(c0, n1=n1, n2=n2), 'stack-sizes', method)
                reg(dict(c0, n1=2, n2=2, dtype1='float32', dtype2='float32'), 'typed-float32', method)
                reg(dict(c0, n1=2, n2=2, dtype1='float32'), 'typed-float32', method)
                for ui, (u1, u2) in enumerate(UNIT_PAIRS):
                    if (bi + ui) % 2 == 0 or thorough:
                        reg(dict(c0, n1=2, n2=2, unit1=u1, unit2=u2), 'units', method)
                if s != 'none':
                    for su in (1e-12, 1e8):
                        reg(dict(c0, n1=2, n2=2, sigma_unit=su), 'units-sigma_k', method)
                reg(dict(c0, n1=2, n2=2, dtype1='float32', dtype2='float32', unit1=1e-12, unit2=1e8), 'typed-float32,units', method)
                f1, f2 = (('matrices', None), ('fortran', 'view'), ('view', 'matrices'))[bi % 3]
                reg(dict(c0, n1=2, n2=3, form1=f1, form2=f2), 'stack-form', method)
                reg(dict(c0, n1=2, n2=2, again=True), 'repeated-call', method)
            if method in ('spearman', 'kendall', 'tau-a', 'rho-a'):
                reg(dict(seed=seed, n_cond=n, missing=missing, method=method, ties=True, n1=1, n2=3, again=True),
                    'repeated-call', method)
                reg(dict(seed=seed, n_cond=n, missing=missing, method=method, ties=True, n1=2, n2=2, dtype1='float32', dtype2='float32'),
                    'typed-float32', method)
    for n in (4, 5):
        for ti, (dt, lev) in enumerate((('uint8', 250), ('int16', 30000), ('int64', 1000), ('uint16', 60000))):
            for method in VEC_METHODS:
                for s in sig_for(method, ('none', 'matrix')):
                    reg(dict(seed=7900 + 10 * n + ti, n_cond=n, missing=[], method=method, sigma=s, n1=2, n2=2, dtype1=dt, dtype2=dt,
                             levels=lev), 'typed-integer,no-missing', method)
                    reg(dict(seed=7950 + 10 * n + ti, n_cond=n, missing=[], method=method, sigma=s, n1=2, n2=2, dtype1=dt,
                             levels=lev), 'typed-integer,no-missing', method)
    for k in ([], [0], [1], [2]):
        for method in VEC_METHODS:
            for s in sig_for(method):
                reg(dict(seed=7300 + len(k) + sum(k), n_cond=3, missing=k, method=method, sigma=s, n1=2, n2=2),
                    'three-conditions', method)
    rs = np.random.RandomState(77)
    for n in ((7, 8, 9) if thorough else (7,)):
        for mi, missing in enumerate(_seeded_masks(rs, _n_pairs(n), 8, 6 if thorough else 2)):
            for method in VEC_METHODS:
                for s in sig_for(method, ('none', 'matrix')):
                    reg(dict(seed=7700 + 10 * n + mi, n_cond=n, missing=missing, method=method, sigma=s, n1=3, n2=2), 'more-conditions',
                        method)
    bd.done()
    bds.append(bd)

    # ---------------------------------------------------------------- compare, generated masks
    bd = Bounded(run, 'C13/compare-generated[sample order and container, labels, typed, units, stack sizes]',
                 'C13/compare/oracle/generated-mask-equals-entry-deleted',
                 'pattern bootstrap samples given in non-ascending order with interleaved repeats as list / tuple / ndarray, patterns '
                 'selected by index / int labels / str labels whose order differs from the pattern order; from_partials with int / str '
                 'condition labels, the pattern descriptor as tuple / ndarray; float32 stacks; stacks times 1e-12 .. 1e8; 1x3 and 3x1 '
                 'RDMs; 8 vector measures (+ bures, bures_metric for from_partials), sigma_k None / matrix', function='compare')
    samples = [(4, [3, 0, 3, 1]), (5, [3, 1, 3, 0, 4]), (5, [4, 4, 0, 2, 1]), (5, [1, 0, 1, 0, 3]), (5, [2, 4, 2, 0, 2])]
    if thorough:
        samples += [(6, [5, 0, 5, 2, 2, 1]), (6, [1, 3, 0, 3, 1, 3]), (7, [6, 2, 6, 0, 1, 2, 4])]
    variants = [('list', 'index'), ('tuple', 'int'), ('ndarray', 'str'), ('ndarray', 'index'), ('list', 'str')]
    for si, (n, sample) in enumerate(samples):
        for vi, (form, by) in enumerate(variants):
            if not thorough and (si + vi) % 2:
                continue
            for method in VEC_METHODS:
                for s in sig_for(method, ('none', 'matrix')):
                    c0 = dict(seed=8000 + 10 * si + vi, kind='subsample', spec=dict(n_cond=n, sample=sample, sample_form=form, by=by),
                              method=method, sigma=s)
                    bd.check(orc_compare_generated, dict(c0, n1=2, n2=2), 'bootstrap-mask,sample-unsorted', function='subsample_pattern')
                    if vi == si % len(variants) or thorough:
                        bd.check(orc_compare_generated, dict(c0, n1=1, n2=3, dtype1='float32', dtype2='float32'),
                                 'bootstrap-mask,typed-float32', function='subsample_pattern')
                        bd.check(orc_compare_generated, dict(c0, n1=3, n2=1, unit1=1e-12, unit2=1e8), 'bootstrap-mask,units',
                                 function='subsample_pattern')
    pi = 0
    for n_all in ((4, 5, 6) if thorough else (5,)):
        for n_miss in (1, 2):
            for miss in itertools.combinations(range(n_all), n_miss):
                sub = [i for i in range(n_all) if i not in miss]
                pi += 1
                if len(sub) < 3 or (not thorough and pi % 3):
                    continue
                labels, cform = (('int', 'tuple'), ('str', 'ndarray'), ('int', 'ndarray'))[pi % 3]
                subv = sub[::-1] if pi % 2 else sub
                for method in VEC_METHODS + SPEC_MAT_METHODS:
                    for s in sig_for(method, ('none', 'matrix')):
                        c0 = dict(seed=8500 + pi, kind='partials', spec=dict(n_all=n_all, sub=subv, labels=labels, conds_form=cform),
                                  method=method, sigma=s)
                        bd.check(orc_compare_generated, dict(c0, n1=1, n2=3), 'partials-mask,labels', function='from_partials')
                        bd.check(orc_compare_generated, dict(c0, n1=2, n2=2, dtype1='float32', dtype2='float32'),
                                 'partials-mask,typed-float32', function='from_partials')
                        bd.check(orc_compare_generated, dict(c0, n1=2, n2=1, unit1=1e8, unit2=1e-12), 'partials-mask,units',
                                 function='from_partials')
    bd.done()
    bds.append(bd)

    bd = Bounded(run, 'C13/compare-whole-condition[typed, units, stack sizes]', 'C13/compare/oracle/whole-condition-mask-equals-sub-rdm',
                 'metamorphic: drop 1-2 whole conditions from n_all=5%s (every %s subset); float32 stacks; stacks times 1e-12 .. 1e8 '
                 '(not neg_riem_dist); 1x3 RDMs; sigma_k None / vector / matrix' % (', 6' if thorough else '', 'one' if thorough else 'third'),
                 function='compare')
    wi = 0
    for n_all in ((5, 6) if thorough else (5,)):
        for n_miss in (1, 2):
            for miss in itertools.combinations(range(n_all), n_miss):
                sub = [i for i in range(n_all) if i not in miss]
                wi += 1
                if not thorough and wi % 3:
                    continue
                for method in ALL_METHODS:
                    for s in sig_for(method):
                        c0 = dict(seed=8800 + wi, n_all=n_all, sub=sub, method=method, sigma=s)
                        if method != 'neg_riem_dist':
                            bd.check(orc_compare_whole_condition, dict(c0, n1=1, n2=3, dtype1='float32', dtype2='float32'),
                                     'whole-condition-mask,typed-float32', function='compare')
                            bd.check(orc_compare_whole_condition, dict(c0, n1=2, n2=2, unit1=1e-12, unit2=1e8),
                                     'whole-condition-mask,units', function='compare')
                        elif thorough or wi % 6 == 0:
                            bd.check(orc_compare_whole_condition, dict(c0, n1=1, n2=2), 'whole-condition-mask,stack-sizes',
                                     function='compare')
    bd.done()
    bds.append(bd)

    bd = Bounded(run, 'C13/from-partials[labels, containers, typed, units, sizes]', 'C13/from_partials/oracle/literal-placement',
                 'the lists of partial RDMs of C13/from-partials with integer condition labels (order differs from alphabetical), the '
                 'pattern descriptor as tuple / ndarray, float32 partial RDMs, values times 1e-12 / 1e8; partial RDMs of 2 conditions '
                 '(one pair), the same condition set twice, 5 partial objects', function='from_partials')
    fp_cases = [
        dict(parts=[['b', 'c', 'd']], n_rdms=[2], all_patterns=['a', 'b', 'c', 'd']),
        dict(parts=[['d', 'c', 'b']], n_rdms=[1], all_patterns=['a', 'b', 'c', 'd']),
        dict(parts=[['a', 'c', 'd'], ['b', 'c', 'd']], n_rdms=[1, 2], all_patterns=['d', 'a', 'c', 'b', 'e']),
        dict(parts=[['a', 'b', 'c'], ['c', 'd', 'e'], ['e', 'a', 'b', 'd']], n_rdms=[1, 1, 1], all_patterns=None),
        dict(parts=[['c', 'a', 'b'], ['d', 'b', 'a']], n_rdms=[2, 1], all_patterns=None),
        dict(parts=[['b', 'd', 'a', 'c'], ['a', 'c']], n_rdms=[1, 1], all_patterns=['a', 'b', 'c', 'd']),
        dict(parts=[['e', 'b'], ['b', 'a'], ['d', 'e']], n_rdms=[1, 3, 1], all_patterns=None),
        dict(parts=[['c', 'a', 'd'], ['c', 'a', 'd'], ['a', 'd', 'c']], n_rdms=[1, 2, 1], all_patterns=None),
        dict(parts=[['e', 'd'], ['d', 'c'], ['c', 'b'], ['b', 'a'], ['a', 'e']], n_rdms=[1, 1, 1, 1, 1], all_patterns=None),
        dict(parts=[['e', 'd', 'c', 'b', 'a']], n_rdms=[3], all_patterns=['a', 'b', 'c', 'd', 'e']),
    ]
    for fi_, c in enumerate(fp_cases):
        cls = 'all_patterns-given' if c['all_patterns'] else 'all_patterns-none'
        for vi, extra in enumerate((dict(), dict(label_map='int'), dict(conds_form='tuple'), dict(conds_form='ndarray', label_map='int'),
                                    dict(dtype='float32'), dict(unit=1e-12), dict(unit=1e8, conds_form='ndarray'))):
            if vi == 0 and fi_ < 6:
                continue        # already in C13/from-partials
            bd.check(orc_from_partials, dict(c, seed=9000 + fi_, **extra), cls + ',' + '+'.join(sorted(extra)) if extra else cls,
                     function='from_partials')
    bd.done()
    bds.append(bd)

    # ---------------------------------------------------------------- compare, differing masks
    bd = Bounded(run, 'C13/compare-differing[row position, typed, units, forms]', 'C13/compare/oracle/differing-masks-rejected',
                 'n_cond=4: stacks of 3-4 RDMs in which only the LAST / a middle RDM has another mask (in rdm1, in rdm2, against '
                 'stacks of 1-3 RDMs); the differing masks of C13/compare-differing (every %s pair) as float32 stacks, stacks times '
                 '1e-20 / 1e12, stacks given as square matrices; %d methods' % ('one' if thorough else 'seventh', len(ALL_METHODS)),
                 function='_parse_input_rdms')
    n, P = 4, 6
    singles = list(_masks_upto(P, 2))
    ci = 0
    for m1 in singles[:8]:
        for m2 in singles[:8]:
            if set(m1) == set(m2):
                continue
            ci += 1
            if not thorough and ci % 3:
                continue
            stacks = ([m1, m1, m2], [m1, m1, m1, m2], [m1, m2, m1])
            for st in stacks:
                for other in ([m1], [m1, m1, m1]):
                    for order in (0, 1):
                        rows1, rows2 = (st, other) if order == 0 else (other, st)
                        for method in (ALL_METHODS if thorough else ('cosine', 'kendall', 'corr_cov')):
                            bd.check(orc_compare_differ, dict(seed=9100 + ci, n_cond=n, rows1=rows1, rows2=rows2, method=method),
                                     _mask_class(rows1, rows2, P), function='_parse_input_rdms')
    ci = 0
    for m1 in singles:
        for m2 in singles:
            if set(m1) == set(m2):
                continue
            ci += 1
            if not thorough and ci % 7:
                continue
            rows1, rows2 = [m1, m1], [m2]
            for method in (ALL_METHODS if thorough else ('cosine', 'corr', 'spearman', 'tau-a', 'cosine_cov')):
                for extra in (dict(dtype1='float32', dtype2='float32'), dict(dtype2='float32'), dict(unit1=1e-20, unit2=1e-20),
                              dict(unit1=1e12, unit2=1e-20), dict(form1='matrices', form2='matrices')):
                    bd.check(orc_compare_differ, dict(seed=9300 + ci, n_cond=n, rows1=rows1, rows2=rows2, method=method, **extra),
                             _mask_class(rows1, rows2, P), function='_parse_input_rdms')
    bd.done()
    bds.append(bd)

    bd = Bounded(run, 'C13/compare-differing-generated[sample order and container, labels]',
                 'C13/compare/oracle/differing-generated-masks-rejected',
                 'two different pattern bootstrap samples given in non-ascending order as tuple / ndarray and selected by int / str '
                 'labels; the same multiset of patterns in two orders is the SAME mask and is not part of this domain', function='subsample_pattern')
    boots = [([3, 0, 3, 1], [1, 3, 1, 0]), ([2, 2, 0, 1], [2, 0, 0, 1]), ([3, 3, 1, 3], [1, 3, 1, 1]), ([0, 3, 2, 0], [3, 2, 1, 0]),
             ([3, 2, 1, 0], [2, 1, 2, 0])]
    for gi, (b1, b2) in enumerate(boots):
        for vi, (form, by) in enumerate((('tuple', 'int'), ('ndarray', 'str'), ('list', 'index'))):
            a = [k for k, (i, j) in enumerate(_pairs(4)) if sorted(b1)[i] == sorted(b1)[j]]
            b = [k for k, (i, j) in enumerate(_pairs(4)) if sorted(b2)[i] == sorted(b2)[j]]
            for order in (0, 1):
                s1, s2, ma, mb = (b1, b2, a, b) if order == 0 else (b2, b1, b, a)
                for method in (ALL_METHODS if thorough else ('cosine', 'rho-a', 'corr_cov')):
                    bd.check(orc_compare_differ_generated,
                             dict(seed=9500 + gi, kind1='subsample', spec1=dict(n_cond=4, sample=s1, sample_form=form, by=by), n1=2,
                                  kind2='subsample', spec2=dict(n_cond=4, sample=s2, sample_form=form, by=by), n2=1, method=method),
                             _mask_class([ma], [mb], 6), function='subsample_pattern')
    bd.done()
    bds.append(bd)

    # ---------------------------------------------------------------- pooling
    bd = Bounded(run, 'C13/pool[stack sizes, typed, units, repeated calls]', 'C13/pool_rdm/oracle/common-mask-equals-entry-deleted',
                 'both copies of pool_rdm on n_cond=4 (masks <= 2 missing, every %s) and 5 (<= 1 missing): stacks of 1, 2 and 5 RDMs; '
                 'float32 stacks; uint8 / int16 complete stacks; stack times 1e-12 / 1e8 and one unit per RDM (1e-12, 1, 1e6); the '
                 'identical call repeated after another stack of the same shape with another mask'
                 % ('one' if thorough else 'third'), function='pool_rdm')
    pbase = [(4, m) for m in (m4 if thorough else m4[::3])] + [(5, m) for m in (m5 if thorough else m5[::4])]

    def pool_both(case, cls):
        method = case['method']
        bd.check(orc_pool, dict(case, copy='inference_util'), cls, function='util.inference_util.pool_rdm')
        if method == 'neg_riem_dist':
            return
        for s in sig_for(method, ('none', 'matrix')):
            bd.check(orc_pool, dict(case, copy='pooling', sigma=s), cls, function='util.pooling.pool_rdm')
    for bi, (n, missing) in enumerate(pbase):
        for method in POOL_METHODS:
            c0 = dict(seed=9600 + 20 * n + bi, n_cond=n, missing=missing, method=method)
            for R in (1, 2, 5):
                pool_both(dict(c0, n_rdm=R), 'stack-sizes')
            pool_both(dict(c0, n_rdm=3, dtype='float32'), 'typed-float32')
            pool_both(dict(c0, n_rdm=3, again=True), 'repeated-call')
            pool_both(dict(c0, n_rdm=3, units=1e8), 'units-large')
            pool_both(dict(c0, n_rdm=3, units=[1e-3, 1.0, 1e6]), 'units-per-rdm')
            for units, cls in ((1e-12, 'units-tiny'), ([1e-12, 1.0, 1e6], 'units-per-rdm')):
                bd.check(orc_pool, dict(c0, n_rdm=3, units=units, copy='inference_util'), cls, function='util.inference_util.pool_rdm')
                if method.endswith('_cov'):
                    if True:   # repaired in /repo b503be68 (was pending triage): units-tiny,whitened-pooling
                        for s in ('none', 'matrix'):
                            bd.check(orc_pool, dict(c0, n_rdm=3, units=units, copy='pooling', sigma=s), 'units-tiny,whitened-pooling',
                                     function='util.pooling.pool_rdm')
                elif method != 'neg_riem_dist':
                    bd.check(orc_pool, dict(c0, n_rdm=3, units=units, copy='pooling', sigma='none'), cls, function='util.pooling.pool_rdm')
            if method in ('spearman', 'kendall'):
                pool_both(dict(c0, n_rdm=4, ties=True, dtype='float32'), 'typed-float32')
    for ti, (dt, lev) in enumerate((('uint8', 250), ('int16', 30000))):
        for method in POOL_METHODS:
            pool_both(dict(seed=9900 + ti, n_cond=4, n_rdm=3, missing=[], method=method, dtype=dt, levels=lev), 'typed-integer,no-missing')
    bd.done()
    bds.append(bd)

    # ---------------------------------------------------------------- noise ceilings
    bd = Bounded(run, 'C13/noise-ceiling[stack sizes, groups, typed, units, sample order and labels]',
                 'C13/noise_ceiling/oracle/common-mask-equals-entry-deleted',
                 'boot_noise_ceiling on n_cond=4 masks (<= 2 missing, every %s): 2 RDMs; 5 RDMs grouped by a str rdm descriptor with '
                 'interleaved, unbalanced values (one level left out at a time); float32; one unit per RDM (1e-12 .. 1e6); '
                 'cv_noise_ceiling with test patterns in non-ascending order as list / tuple / ndarray, selected by index / str labels; '
                 '8 methods' % ('one' if thorough else 'fourth'), function='boot_noise_ceiling')
    for bi, missing in enumerate(m4 if thorough else m4[::4]):
        for method in VEC_METHODS:
            c0 = dict(seed=10000 + bi, kind='boot', n_cond=4, missing=missing, method=method)
            bd.check(orc_noise_ceiling, dict(c0, n_rdm=2), 'stack-sizes', function='boot_noise_ceiling')
            bd.check(orc_noise_ceiling, dict(c0, n_rdm=5, groups=['s2', 's10', 's2', 's1', 's2']), 'rdm-groups', function='boot_noise_ceiling')
            bd.check(orc_noise_ceiling, dict(c0, n_rdm=3, dtype='float32'), 'typed-float32', function='boot_noise_ceiling')
            bd.check(orc_noise_ceiling, dict(c0, n_rdm=3, units=[1e-12, 1.0, 1e6]), 'units-per-rdm', function='boot_noise_ceiling')
            bd.check(orc_noise_ceiling, dict(c0, n_rdm=4, units=1e8, groups=['b', 'a', 'a', 'b']), 'units-large', function='boot_noise_ceiling')
    for si, (sample, form, by) in enumerate([([3, 1, 3, 0, 4], 'list', 'index'), ([4, 4, 0, 2, 1], 'tuple', 'str'),
                                             ([1, 0, 1, 0, 3], 'ndarray', 'str'), ([2, 4, 2, 0, 2], 'tuple', 'index')]):
        for tr, te in (([0, 1], [2, 3]), ([0, 2, 3], [1])):
            for method in VEC_METHODS:
                c0 = dict(seed=10100 + si, kind='cv', n_cond=5, n_rdm=4, sample=sample, sample_form=form, by=by, train=tr, test=te,
                          method=method)
                bd.check(orc_noise_ceiling, c0, 'bootstrap-mask,sample-unsorted', function='cv_noise_ceiling')
                if thorough or si % 2 == 0:
                    bd.check(orc_noise_ceiling, dict(c0, dtype='float32'), 'bootstrap-mask,typed-float32', function='cv_noise_ceiling')
                    bd.check(orc_noise_ceiling, dict(c0, units=[1e-12, 1e8, 1.0, 1e-6]), 'bootstrap-mask,units-per-rdm',
                             function='cv_noise_ceiling')
    bd.done()
    bds.append(bd)

    # ---------------------------------------------------------------- fit_regress
    fit_methods = ['cosine', 'corr', 'cosine_cov', 'corr_cov']
    bd = Bounded(run, 'C13/fit-regress[sizes, typed, units, sample order and labels, repeated calls]',
                 'C13/fit_regress/oracle/common-mask-equals-entry-deleted',
                 'fit_regress / fit_regress_nn on n_cond=4 masks (<= 2 missing, every %s) and n_cond=5 (<= 1): 1 and 3 basis RDMs, 1 and '
                 '4 data RDMs; float32 model / data; data times 1e-12 / 1e8 and one unit per data RDM; model times 1e-6 / 1e4 '
                 '(fit_regress, unwhitened and whitened); the identical call after a fit of other RDMs; pattern_idx route with '
                 'samples in non-ascending order as list / tuple / ndarray and str labels; 4 methods, sigma_k None / matrix'
                 % ('one' if thorough else 'fourth'), function='fit_regress')
    fbase = [(4, m) for m in (m4 if thorough else m4[::4])] + [(5, m) for m in (m5 if thorough else m5[::5])]
    for bi, (n, missing) in enumerate(fbase):
        for method in fit_methods:
            for s in sig_for(method, ('none', 'matrix')):
                for nonneg in (False, True):
                    fn = 'fit_regress_nn' if nonneg else 'fit_regress'
                    c0 = dict(seed=10200 + 20 * n + bi, route='explicit', n_cond=n, missing=missing, method=method, sigma=s, nonneg=nonneg,
                              ridge=0.0)
                    for kb, R in ((1, 3), (3, 1), (2, 4)):
                        bd.check(orc_fit_regress, dict(c0, n_basis=kb, n_rdm=R), 'sizes', function=fn)
                    c1 = dict(c0, n_basis=2, n_rdm=3)
                    bd.check(orc_fit_regress, dict(c1, dtype_model='float32', dtype_data='float32'), 'typed-float32', function=fn)
                    bd.check(orc_fit_regress, dict(c1, dtype_data='float32', ridge=0.5), 'typed-float32', function=fn)
                    bd.check(orc_fit_regress, dict(c1, again=True), 'repeated-call', function=fn)
                    bd.check(orc_fit_regress, dict(c1, unit_data=1e8), 'units-data', function=fn)
                    bd.check(orc_fit_regress, dict(c1, unit_data=[1e-3, 1.0, 1e6]), 'units-data', function=fn)
                    if not method.endswith('_cov'):
                        bd.check(orc_fit_regress, dict(c1, unit_data=1e-12), 'units-data', function=fn)
                    if not nonneg:
                        bd.check(orc_fit_regress, dict(c1, unit_model=1e4), 'units-model', function=fn)
                        if not method.endswith('_cov'):
                            bd.check(orc_fit_regress, dict(c1, unit_model=1e-6, unit_data=1e-6), 'units-model', function=fn)
                    if True:   # repaired in /repo b503be68 (was pending triage): units-tiny,whitened-fit
                        # conjugate gradients with atol=1e-9 in the fitters and in util.pooling.pool_rdm: data / model RDMs in small units
                        if method.endswith('_cov'):
                            bd.check(orc_fit_regress, dict(c1, unit_data=1e-12), 'units-tiny,whitened-fit', function=fn)
                            bd.check(orc_fit_regress, dict(c1, unit_model=1e-10, unit_data=1e-6), 'units-tiny,whitened-fit', function=fn)
                    if True:   # repaired in /repo 7c4854cc (was pending triage): units-model,nonneg
                        # _nn_least_squares stops on `max(w) > 100 * eps` (absolute): model RDMs in other units -> no termination / zeros
                        if nonneg:
                            bd.check(orc_fit_regress, dict(c1, unit_model=1e4), 'units-model,nonneg', function=fn)
                            if not method.endswith('_cov'):
                                bd.check(orc_fit_regress, dict(c1, unit_model=1e-15, unit_data=1e-6), 'units-model,nonneg', function=fn)
    for si, (sample, form, by) in enumerate([([3, 1, 3, 0, 4], 'list', 'index'), ([4, 4, 0, 2, 1], 'tuple', 'str'),
                                             ([1, 0, 1, 0, 3], 'ndarray', 'str'), ([2, 4, 2, 0, 2], 'ndarray', 'index')]):
        for method in fit_methods:
            for nonneg in (False, True):
                fn = 'fit_regress_nn' if nonneg else 'fit_regress'
                c0 = dict(seed=10400 + si, route='pattern_idx', n_cond=5, n_basis=2, n_rdm=3, sample=sample, sample_form=form, by=by,
                          method=method, sigma='none', nonneg=nonneg, ridge=0.0)
                bd.check(orc_fit_regress, c0, 'bootstrap-mask,sample-unsorted', function=fn)
                bd.check(orc_fit_regress, dict(c0, dtype_model='float32', dtype_data='float32', again=True), 'bootstrap-mask,typed-float32',
                         function=fn)
    bd.done()
    bds.append(bd)

    # ---------------------------------------------------------------- mean
    bd = Bounded(run, 'C13/mean[weight forms, typed, units, sizes]', 'C13/RDMs.mean/oracle/weighted-nan-aware-mean',
                 'n_cond=3: ALL mask combinations of 2 RDMs (64) with one weight per RDM as 1-D ndarray argument and as ndarray-valued rdm '
                 'descriptor; every %s combination with float32 RDMs, integer-typed weights (all six kinds), weights times 1e-15 / 1e12, '
                 'RDMs times 1e-12 / 1e8; single RDMs; uint8 / int16 complete stacks; seeded stacks of 2-4 RDMs on 4-5 conditions'
                 % ('one' if thorough else 'fifth'), function='RDMs.mean')
    all3 = list(_masks_upto(3, 3))
    wk_all = ['none', 'array-nan-at-missing', 'array-finite-at-missing', 'per-rdm-tiled-array-nan-at-missing', 'descriptor-per-rdm',
              'descriptor-array-nan-at-missing', 'array-per-rdm-1d', 'descriptor-per-rdm-ndarray']
    mi = 0
    for r1 in all3:
        for r2 in all3:
            mi += 1
            rows = [r1, r2]
            for wk in ('array-per-rdm-1d', 'descriptor-per-rdm-ndarray'):
                bd.check(orc_mean, dict(seed=11000 + mi, n_cond=3, rows=rows, weights=wk), 'weights-' + wk, function='RDMs.mean')
            if thorough or mi % 5 == 0:
                for wk in wk_all:
                    bd.check(orc_mean, dict(seed=11000 + mi, n_cond=3, rows=rows, weights=wk, dtype='float32'), 'typed-float32',
                             function='RDMs.mean')
                    bd.check(orc_mean, dict(seed=11000 + mi, n_cond=3, rows=rows, weights=wk, unit=1e-12 if mi % 2 else 1e8), 'units',
                             function='RDMs.mean')
                    if wk != 'none':
                        bd.check(orc_mean, dict(seed=11000 + mi, n_cond=3, rows=rows, weights=wk, w_int=True), 'weights-integer-typed',
                                 function='RDMs.mean')
                        bd.check(orc_mean, dict(seed=11000 + mi, n_cond=3, rows=rows, weights=wk, w_unit=1e-15 if mi % 2 else 1e12),
                                 'weights-units', function='RDMs.mean')
    for r1 in all3:
        for wk in wk_all:
            bd.check(orc_mean, dict(seed=11100 + len(r1), n_cond=3, rows=[r1], weights=wk), 'single-rdm', function='RDMs.mean')
    for ti, (dt, lev) in enumerate((('uint8', 250), ('int16', 30000))):
        for wk in wk_all:
            bd.check(orc_mean, dict(seed=11200 + ti, n_cond=4, rows=[[], [], []], weights=wk, dtype=dt, levels=lev), 'typed-integer,no-missing',
                     function='RDMs.mean')
    rs = np.random.RandomState(31)
    for _ in range(30 if thorough else 8):
        n = int(rs.choice([4, 5]))
        R = int(rs.randint(2, 5))
        Pn = _n_pairs(n)
        rows = [sorted(rs.choice(Pn, rs.randint(0, Pn), replace=False).tolist()) for _ in range(R)]
        mi += 1
        for wk in ('array-per-rdm-1d', 'descriptor-per-rdm-ndarray'):
            bd.check(orc_mean, dict(seed=11000 + mi, n_cond=n, rows=rows, weights=wk), 'weights-' + wk, function='RDMs.mean')
        for wk in wk_all:
            bd.check(orc_mean, dict(seed=11000 + mi, n_cond=n, rows=rows, weights=wk, dtype='float32', w_int=(wk != 'none')), 'typed-float32',
                     function='RDMs.mean')
    bd.done()
    bds.append(bd)

    # ---------------------------------------------------------------- rescale
    bd = Bounded(run, 'C13/rescale[typed, units, single RDM, repeated calls]', 'C13/rescale/oracle/positive-constant-nan-pattern-weights',
                 'n_cond=3 mask pairs of C13/rescale (every %s): float32 stacks, stacks times 1e-12 / 1e8, the identical call twice; '
                 'single partial RDMs; seeded stacks on 4-5 conditions as float32 and in other units; 3 methods, default threshold'
                 % ('one' if thorough else 'fourth'), function='rescale')
    ri = 0
    for r1 in all3:
        for r2 in all3:
            if len(r1) == 3 or len(r2) == 3 or not (set(range(3)) - set(r1) - set(r2)):
                continue
            ri += 1
            if not thorough and ri % 4:
                continue
            for method in RESCALE_METHODS:
                c0 = dict(seed=11300 + ri, n_cond=3, rows=[r1, r2], method=method, threshold=None, scales=[1.0, 7.0])
                bd.check(orc_rescale, dict(c0, dtype='float32'), 'typed-float32', function='_rescale')
                bd.check(orc_rescale, dict(c0, unit=1e-12 if ri % 8 else 1e8), 'units', function='_rescale')
                bd.check(orc_rescale, dict(c0, again=True), 'repeated-call', function='_rescale')
    for r1 in all3:
        if len(r1) == 3:
            continue
        for method in RESCALE_METHODS:
            bd.check(orc_rescale, dict(seed=11400 + len(r1), n_cond=3, rows=[r1], method=method, threshold=None, scales=[5.0]), 'single-rdm',
                     function='_rescale')
    rs = np.random.RandomState(41)
    made = 0
    while made < (12 if thorough else 4):
        n = int(rs.choice([4, 5]))
        R = int(rs.randint(2, 5))
        Pn = _n_pairs(n)
        rows = [sorted(rs.choice(Pn, rs.randint(0, Pn - 1), replace=False).tolist()) for _ in range(R)]
        if not _connected(_with_nan(np.ones((R, Pn)), rows)):
            continue
        made += 1
        scales = (10.0 ** rs.uniform(-1, 2, size=R)).round(3).tolist()
        for method in RESCALE_METHODS:
            c0 = dict(seed=11500 + made, n_cond=n, rows=rows, method=method, threshold=None, scales=scales)
            bd.check(orc_rescale, dict(c0, dtype='float32'), 'typed-float32', function='_rescale')
            bd.check(orc_rescale, dict(c0, unit=1e-12), 'units', function='_rescale')
            bd.check(orc_rescale, dict(c0, unit=1e8, again=True), 'units', function='_rescale')
    bd.done()
    bds.append(bd)

    bd = Bounded(run, 'C13/rescale-proportional[typed, units]', 'C13/rescale/oracle/proportional-to-common-scale',
                 'mutually proportional partial RDMs (chains of 2-4 partial RDMs, a condition cover, an entry-mask stack) with the '
                 'underlying RDM times 1e-12 / 1e8 (agreement 1e-6) and as float32 partial RDMs (agreement 1e-3); 3 methods, threshold '
                 '1e-20 (float32: 1e-12)', function='rescale')
    pcases = [dict(seed=11600, kind='chain', K=2, size=4, share=2, scales=[1.0, 3.0]),
              dict(seed=11601, kind='chain', K=3, size=4, share=2, scales=[100.0, 10.0, 1.0]),
              dict(seed=11602, kind='chain', K=4, size=4, share=2, scales=[1.0, 3.0, 9.0, 27.0]),
              dict(seed=11603, kind='cover', n_cond=5, subs=[[0, 1, 2, 3], [1, 2, 4], [0, 3, 4]], scales=[1.0, 2.5, 0.3]),
              dict(seed=11604, kind='entries', n_cond=4, rows=[[0], [1, 2], [5]], scales=[2.0, 1.0, 0.5])]
    for pc in pcases:
        for method in RESCALE_METHODS:
            for u in (1e-12, 1e8):
                bd.check(orc_rescale_prop, dict(pc, method=method, threshold=1e-20, tol=1e-6, unit=u), 'units', function='_rescale')
            bd.check(orc_rescale_prop, dict(pc, method=method, threshold=1e-12, tol=1e-3, dtype='float32'), 'typed-float32',
                     function='_rescale')
    bd.done()
    bds.append(bd)

    # ---------------------------------------------------------------- environment
    bd = Bounded(run, 'C13/fresh-interpreter', 'C13/from_partials/oracle/literal-placement',
                 'new interpreters with PYTHONHASHSEED %s: from_partials of str-labelled partial RDMs (order of appearance, placement, rdm '
                 'descriptors), the 8 vector measures on the resulting common mask, mean(weights=descriptor), pooled and rescaled RDMs'
                 % ('1, 2, 12345' if thorough else '1, 12345'), function='from_partials')
    hs = [1, 2, 12345] if thorough else [1, 12345]
    env_cases = [dict(seed=11700, parts=[['d', 'b', 'e'], ['e', 'b', 'd']], hashseeds=hs)]
    if thorough:
        env_cases += [dict(seed=11701, parts=[['zeta', 'alpha', 'mu'], ['mu', 'beta', 'alpha'], ['beta', 'zeta', 'mu']], hashseeds=hs)]
    for c in env_cases:
        bd.check(orc_fresh_interpreter, c, 'hash-seed', function='from_partials')
    bd.done()
    bds.append(bd)
    # SWEEP-REGISTRATIONS-END


def run(run):
    bds = tier_c(run, run.tier == 'thorough')
    run.explanation = ('tier C only: entry-deleted definitions of all comparison / pooling / noise-ceiling / regression routines on '
                       'bounded mask domains, rejection of differing masks, weighted NaN-aware mean, rescale invariants')
    return bds


def replay(path):
    return replay_file(path)
