"""C19, bounded run-time tier (tier C): searchlights hold exactly the voxels in radius; RDMs match direct computation.

Every oracle builds its inputs deterministically from one JSON-able `case`, calls the REAL functions of
`rsatoolbox.util.searchlight` and compares with a spec written from the property statement (explicit loops over all voxels,
own C-order linear index, own condition means and distance formulas) -- never with repo code for the expected value.

Clause of the property -> oracle
* "a searchlight consists of exactly the in-volume voxels at Euclidean distance strictly below the radius from its centre"
    -> `C19/neighbors` (`_get_searchlight_neighbors`, every centre of the volume, set equality + no duplicate + inside the
       volume), again inside `C19/volume-searchlight` for the accepted centres.
* "the accepted centres are exactly the mask voxels whose searchlight lies inside the mask by at least the threshold fraction"
    -> `C19/volume-searchlight` (`get_volume_searchlight`): set of returned centres == brute-force set, no duplicates.
* "returned as linear indices consistent with the neighbour lists"
    -> `C19/volume-searchlight`: neighbour list i is, as a set of C-order linear indices, the sphere around the voxel that
       centre i decodes to; `C19/pipeline` additionally uses both as column indices of the flattened (C-order) volume data.
* "The RDM reported for each centre equals the RDM computed directly from the data columns of that searchlight with
  conditions given by the event labels, whatever the number of centres (chunked or not)"
    -> `C19/searchlight-rdms` (`get_searchlight_RDMs`): row i vs. an own computation (condition means over the sorted
       unique event labels; euclidean / correlation / mahalanobis-without-noise / poisson formulas), `voxel_index == centers`
       in the given order, one row per centre, for 1 .. 1000 centres (single call branch) and 1001 .. several thousand centres
       (chunked branch, multiples and non-multiples of 100); `C19/pipeline`: mask -> searchlights -> RDMs end to end
       against RDMs computed from the 4-D data by 3-D sphere coordinates.
* "evaluating models over searchlights returns one result per centre in centre order independent of the number of
  parallel jobs"
    -> `C19/evaluate-order` (`evaluate_models_searchlight`, n_jobs in {1,2,4,..}) with a position-revealing evaluation
       function (returns the voxel index and the dissimilarities it was handed, the models / method / theta it received) whose
       run time decreases with position, so that later items finish before earlier ones in a worker pool;
       `C19/evaluate-fixed`: the real `eval_fixed` with fixed models vs. an own Pearson / cosine computation per centre.

Dimension sweeps (`_sweeps`, same oracles with more case keys; every expectation is still the one of the spec functions)
* argument / storage types: centre as list / numpy-integer tuple / int32 array, radius and threshold as Python int / float /
  numpy float64 / float32 / int64, masks stored as bool / uint8 / int8 / int16 / float32, column-major, non-contiguous view,
  negative strides, nested list / tuple -- "for every mask, centre and radius" speaks of values, not of storage.
* extreme radii: negative (empty searchlight), 1e-300 / 1e-9 (the centre alone), 50 / 1e6 / 1e300 (whole volume).
* threshold exactly met (k of n voxels inside, threshold k/n; its decimal roundings and neighbouring floats) -> "at least".
  Pending triage (registration disabled): float32-stored masks form the fraction in single precision.
* data in extreme units (x 1e-26 .. 1e+12): dissimilarities compared RELATIVE to the largest expected one (no floor at 1).
* containers: data as nested list / column-major / view, centres as list / tuple / int32 / uint16, searchlights as tuples /
  int32 / uint16 arrays / one 2-D index matrix / tuple of arrays, events as list / tuple / object array.
* label kinds and observation orders: negative ints, floats, int32, multi-character strings (one a prefix of another);
  blocked / sorted / descending / interleaved / shuffled; 1 / 2 / unbalanced observations per condition.
* sizes: 2 observations, 12-16 conditions, every voxel a centre, 40-voxel and 1-voxel searchlights, > 1000 one-voxel ones.
* typed data (int16 / uint8 / float32) also above the chunking limit.
* call sequences: the same call twice gives equal results, results held by the caller are untouched by later calls
  (`repeat`, `then`, `C19/volume-sequence`, re-reading all searchlights of a volume after the last call), a second call on
  other contents of the same shape gives ITS result, all inputs (mask, data, centres, searchlights, events, the RDMs object
  handed to the evaluation) are unchanged afterwards, the same evaluation with another n_jobs gives an equal list.
* environment: `C19/fresh-interpreter` re-runs cases with string / float labels in new interpreters with other
  PYTHONHASHSEEDs.

NOT covered by this tier
* all masks of volumes with more than 8 (quick) / 12 (thorough) voxels, radii outside the enumerated sets, volumes larger
  than 4x4x5 (5x5x6 thorough): bounded domains only.  Float rounding of the distance test is not explored beyond radii
  sqrt(2), sqrt(3) (+-1e-9, +-1 ulp of integer radii): the spec uses sqrt(sum of integer squares) < radius literally.
* non-binary masks (values other than 0/1/True/False), radius <= 0 for `get_volume_searchlight` (the in-mask fraction of an
  empty searchlight is undefined), centres outside the volume, zero centres for `get_searchlight_RDMs`.
* RDM methods with an explicit cross-validation descriptor or a noise precision (poisson_cv, mahalanobis with noise):
  `get_searchlight_RDMs` has no argument to pass them.  crossnobis is covered with its DEFAULT folds on balanced designs.
* real worker schedules: only the schedules that happen with the delays above on this machine are observed; order
  independence in general rests on joblib's ordering contract (tier A assumption).

Known finding of the unchanged tree (see C19_findings.md): input_class `no-accepted-centre` -- `get_volume_searchlight` raises
ValueError instead of returning no centre when no mask voxel passes the threshold (e.g. an all-zero mask).
"""
import contextlib
import functools
import io
import itertools
import math
import warnings

import numpy as np

from vf.rt.harness import oracle, Bounded, close

SQ2 = math.sqrt(2.0)
SQ3 = math.sqrt(3.0)

OB_NB = 'C19/_get_searchlight_neighbors/oracle/exact-membership'
OB_VOL = 'C19/get_volume_searchlight/oracle/centres-and-neighbours'
OB_RDM = 'C19/get_searchlight_RDMs/oracle/rdm-per-centre'
OB_PIPE = 'C19/get_searchlight_RDMs/oracle/mask-to-rdm-pipeline'
OB_EVAL = 'C19/evaluate_models_searchlight/oracle/one-result-per-centre-in-order'


@contextlib.contextmanager
def _quiet():
    """the functions under test print and draw progress bars; numpy warns on the mean of an empty searchlight"""
    sink = io.StringIO()
    with contextlib.redirect_stdout(sink), contextlib.redirect_stderr(sink), warnings.catch_warnings():
        warnings.simplefilter('ignore')
        yield


# =====================================================================================================
# spec functions (from the property statement)
# =====================================================================================================
def _lin(shape, v):
    """C-order linear index of voxel v in a volume of this shape"""
    return (int(v[0]) * shape[1] + int(v[1])) * shape[2] + int(v[2])


def _unlin(shape, i):
    i = int(i)
    return (i // (shape[1] * shape[2]), (i // shape[2]) % shape[1], i % shape[2])


@functools.lru_cache(maxsize=400000)
def _spec_sphere(shape, centre, radius):
    """all in-volume voxels at Euclidean distance strictly below radius from centre, as a tuple of (x, y, z)"""
    out = []
    for x in range(shape[0]):
        for y in range(shape[1]):
            for z in range(shape[2]):
                s = (x - centre[0]) ** 2 + (y - centre[1]) ** 2 + (z - centre[2]) ** 2   # exact integer
                if math.sqrt(s) < radius:
                    out.append((x, y, z))
    return tuple(out)


def _spec_volume(mask, radius, threshold):
    """dict {linear centre index: frozenset of linear neighbour indices} of the accepted centres"""
    shape = tuple(mask.shape)
    acc = {}
    for x in range(shape[0]):
        for y in range(shape[1]):
            for z in range(shape[2]):
                if not mask[x, y, z]:
                    continue
                sph = _spec_sphere(shape, (x, y, z), radius)
                if not sph:
                    continue                     # fraction undefined; not accepted
                inside = sum(1 for v in sph if mask[v])
                if inside / len(sph) >= threshold:
                    acc[_lin(shape, (x, y, z))] = frozenset(_lin(shape, v) for v in sph)
    return acc


def _build_mask(case):
    shape = tuple(case['shape'])
    n = shape[0] * shape[1] * shape[2]
    kind = case.get('mask', 'bits')
    if kind == 'bits':
        flat = np.array(case['bits'], dtype=int)
        assert flat.size == n
        m = flat.reshape(shape)
    elif kind == 'full':
        m = np.ones(shape, dtype=int)
    elif kind == 'random':
        rs = np.random.RandomState(case['seed'])
        m = (rs.rand(*shape) < case['density']).astype(int)
    elif kind == 'blob':
        # a cuboid "brain" with a random margin of zeros around it and a few holes
        rs = np.random.RandomState(case['seed'])
        m = np.zeros(shape, dtype=int)
        lo = [rs.randint(0, max(1, s // 3 + 1)) for s in shape]
        hi = [s - rs.randint(0, max(1, s // 3 + 1)) for s in shape]
        hi = [max(h, l + 1) for h, l in zip(hi, lo)]
        m[lo[0]:hi[0], lo[1]:hi[1], lo[2]:hi[2]] = 1
        holes = rs.rand(*shape) < 0.08
        m[holes] = 0
    else:
        raise ValueError(kind)
    if case.get('dtype') == 'bool':
        m = m.astype(bool)
    elif case.get('dtype') == 'float':
        m = m.astype(float)
    elif case.get('dtype'):                  # uint8 / int8 / int16 / float32: how binary masks are stored in image files
        m = m.astype(case['dtype'])
    return _relayout(m, case.get('layout'))


def _relayout(a, layout):
    """the same array VALUES in another memory layout (the property speaks of voxels / columns, not of memory order)"""
    if not layout or layout == 'C':
        return a
    if layout == 'F':                        # column-major, as image libraries return volumes
        out = np.asfortranarray(a)
    elif layout == 'strided':                # non-contiguous view into a larger buffer
        big = np.zeros(tuple(2 * s + 1 for s in a.shape), dtype=a.dtype)
        big[tuple(slice(1, None, 2) for _ in a.shape)] = a
        out = big[tuple(slice(1, None, 2) for _ in a.shape)]
    elif layout == 'reversed':               # negative strides
        out = np.ascontiguousarray(a[tuple(slice(None, None, -1) for _ in a.shape)])[tuple(slice(None, None, -1) for _ in a.shape)]
    else:
        raise ValueError(layout)
    assert out.shape == a.shape and np.array_equal(out, a)
    return out


def _typed_scalar(v, how):
    """the same number as another scalar type"""
    if not how or how == 'py':
        return v
    if how == 'int':
        assert float(v).is_integer()
        return int(v)
    if how == 'float':
        return float(v)
    t = getattr(np, how)
    out = t(v)
    assert float(out) == float(v), 'value must be representable'
    return out


def _spec_cond_means(X, events):
    """condition means, conditions = sorted unique event labels"""
    ev = list(events)
    conds = sorted(set(ev))
    return np.array([np.mean([X[i] for i in range(len(ev)) if ev[i] == c], axis=0) for c in conds]), conds


def _spec_crossnobis_default_folds(X, events):
    """crossnobis with the DEFAULT folds (no argument of get_searchlight_RDMs names a fold descriptor): the k-th occurrence of a
    condition is fold k; identity precision; value = mean over ordered pairs of distinct folds (m, n) of
    (x_am - x_bm) . (x_an - x_bn) / P -- balanced designs only (every condition equally often)"""
    X = np.asarray(X, dtype=float)
    ev = list(events)
    conds = sorted(set(ev))
    seen, fold = {}, []
    for e in ev:
        fold.append(seen.get(e, 0))
        seen[e] = fold[-1] + 1
    M = max(fold) + 1
    P = X.shape[1]
    pat = {(c, m): X[[i for i in range(len(ev)) if ev[i] == c and fold[i] == m][0]] for c in conds for m in range(M)}
    out = []
    for i in range(len(conds)):
        for j in range(i + 1, len(conds)):
            a, b = conds[i], conds[j]
            vals = [float(np.sum((pat[a, m] - pat[b, m]) * (pat[a, n] - pat[b, n]))) / P for m in range(M) for n in range(M) if m != n]
            out.append(sum(vals) / len(vals))
    return np.array(out, dtype=float)


def _spec_rdm_vector(X, events, method):
    """upper-triangular (row-major, i<j) dissimilarity vector of the condition means of X (observations x channels)"""
    if method == 'crossnobis':
        return _spec_crossnobis_default_folds(X, events)
    M, conds = _spec_cond_means(np.asarray(X, dtype=float), events)
    C, P = M.shape
    if method == 'poisson':
        M = (M + 1 * 0.1) / (1 + 0.1)          # documented defaults prior_lambda=1, prior_weight=0.1
    out = []
    for i in range(C):
        for j in range(i + 1, C):
            a, b = M[i], M[j]
            if method in ('euclidean', 'mahalanobis'):      # mahalanobis without noise precision = identity precision
                out.append(float(np.sum((a - b) ** 2) / P))
            elif method == 'correlation':
                a0, b0 = a - a.mean(), b - b.mean()
                out.append(float(1 - np.sum(a0 * b0) / math.sqrt(np.sum(a0 * a0) * np.sum(b0 * b0))))
            elif method == 'poisson':
                out.append(float(np.sum((a - b) * (np.log(a) - np.log(b))) / P))
            else:
                raise ValueError(method)
    return np.array(out, dtype=float)


def _events(rs, kind, n_cond, reps, order='shuffled'):
    """event vector: every one of n_cond conditions occurs, in shuffled order (or the stated `order`)"""
    if kind == 'int':
        labels = np.arange(n_cond)
    elif kind == 'int-gaps':            # includes labels >= 10 so that text order != numeric order
        labels = np.array([2, 10, 1, 33, 7, 100, 4, 21][:n_cond])
    elif kind == 'str':
        labels = np.array(['b', 'a', 'd', 'c', 'f', 'e', 'h', 'g'][:n_cond])
    elif kind == 'int-neg':             # negative and positive run numbers / codes
        labels = np.array([-3, 4, -20, 0, 11, -1, 7, -100][:n_cond])
    elif kind == 'float':               # e.g. stimulus intensities
        labels = np.array([0.5, -1.5, 10.0, 2.25, 0.0, 3.5, -0.25, 100.0][:n_cond])
    elif kind == 'str-long':            # several characters, different lengths, one a prefix of another
        labels = np.array(['face', 'house', 'body', 'face_inv', 'cat', 'chair', 'zebra', 'a'][:n_cond])
    elif kind == 'int32':
        labels = np.array([5, 3, 9, 1, 7, 2, 8, 0][:n_cond], dtype=np.int32)
    else:
        raise ValueError(kind)
    assert len(labels) == n_cond, 'not that many labels of this kind'
    if isinstance(reps, int):
        counts = [reps] * n_cond
    else:                               # 'unbalanced'
        counts = [1 + (i % 3) for i in range(n_cond)]
    ev = np.repeat(labels, counts)
    perm = rs.permutation(len(ev))      # drawn in every case: the other seeded inputs do not depend on `order`
    if order == 'shuffled':
        return ev[perm]
    if order == 'blocked':              # all observations of a condition adjacent, conditions in the (unsorted) order above
        return ev
    if order == 'sorted':
        return np.sort(ev)
    if order == 'descending':           # first appearance is the reverse of the sorted order
        return np.sort(ev)[::-1].copy()
    if order == 'interleaved':          # b a d c b a d c ... (unbalanced: the longer conditions trail)
        rounds = [labels[i] for r in range(max(counts)) for i in range(n_cond) if counts[i] > r]
        return np.array(rounds, dtype=labels.dtype)
    raise ValueError(order)


# =====================================================================================================
# oracles
# =====================================================================================================
@oracle('C19/neighbors')
def orc_neighbors(case):
    """_get_searchlight_neighbors(mask, centre, radius) for every centre of the volume (or case['centres'])"""
    from rsatoolbox.util.searchlight import _get_searchlight_neighbors
    shape = tuple(case['shape'])
    radius = case['radius']
    # membership must not depend on the mask contents, nor on how the mask is stored
    mask = _relayout(np.full(shape, case.get('fill', 1), dtype=case.get('mask_dtype', 'int')), case.get('layout'))
    centres = case.get('centres') or list(itertools.product(*[range(s) for s in shape]))
    r_arg = _typed_scalar(radius, case.get('radius_as'))
    held = []
    for c in centres:
        c = tuple(int(k) for k in c)
        how = case.get('centre_as', 'tuple')
        arg = {'tuple': c, 'array': np.array(c), 'list': list(c), 'np-tuple': tuple(np.int64(k) for k in c),
               'int32': np.array(c, dtype=np.int32)}[how]
        got = _get_searchlight_neighbors(mask, arg, r_arg)
        if how == 'list' and arg != list(c) or how in ('array', 'int32') and not np.array_equal(arg, c):
            return f'centre {c}: the centre argument was modified'
        if not (isinstance(got, tuple) and len(got) == 3 and len(got[0]) == len(got[1]) == len(got[2])):
            return f'centre {c}: result is not a tuple of three equally long coordinate lists: {got!r}'
        got_v = [(int(a), int(b), int(d)) for a, b, d in zip(*got)]
        want = _spec_sphere(shape, c, radius)
        for v in got_v:
            if not all(0 <= v[k] < shape[k] for k in range(3)):
                return f'centre {c} radius {radius}: voxel {v} outside the volume {shape}'
        if len(set(got_v)) != len(got_v):
            return f'centre {c} radius {radius}: duplicate voxels in the searchlight ({len(got_v)} entries, {len(set(got_v))} distinct)'
        if set(got_v) != set(want):
            miss = sorted(set(want) - set(got_v))[:6]
            extra = sorted(set(got_v) - set(want))[:6]
            return (f'shape {shape} centre {c} radius {radius}: searchlight has {len(got_v)} voxels, expected {len(want)} '
                    f'(distance < radius); missing {miss} extra {extra}')
        # usable as an index into the volume (this is how get_volume_searchlight uses it)
        if len(got_v) and np.asarray(mask[got]).shape != (len(got_v),):
            return f'centre {c}: result does not index the volume voxel by voxel'
        held.append((c, got, got_v))
    # results held by the caller are not touched by the later calls
    for c, got, got_v in held:
        if [(int(a), int(b), int(d)) for a, b, d in zip(*got)] != got_v:
            return f'shape {shape} radius {radius}: the searchlight returned for centre {c} changed while later centres were computed'
    return None


def _volume_diff(shape, radius, thr, centers, neighbors, want):
    """None if (centers, neighbors) are the accepted centres `want` {linear index: frozenset of linear indices}, else text"""
    centers = np.asarray(centers)
    if centers.ndim != 1 or (centers.size and not np.issubdtype(centers.dtype, np.integer)):
        return f'centres are not a 1-D integer array (shape {centers.shape}, dtype {centers.dtype})'
    got_c = [int(c) for c in centers]
    if len(set(got_c)) != len(got_c):
        return f'duplicate centres returned: {got_c}'
    if set(got_c) != set(want):
        miss = sorted(set(want) - set(got_c))[:6]
        extra = sorted(set(got_c) - set(want))[:6]
        return (f'shape {shape} radius {radius} threshold {thr}: {len(got_c)} centres accepted, expected {len(want)}; '
                f'missing {[(_m, _unlin(shape, _m)) for _m in miss]} extra {[(_e, _unlin(shape, _e)) for _e in extra]}')
    if len(neighbors) != len(got_c):
        return f'{len(neighbors)} neighbour lists for {len(got_c)} centres'
    for i, c in enumerate(got_c):
        nb = [int(k) for k in np.asarray(neighbors[i]).ravel()]
        if len(set(nb)) != len(nb):
            return f'centre #{i} (linear {c} = voxel {_unlin(shape, c)}): duplicate neighbour indices'
        if set(nb) != want[c]:
            miss = sorted(want[c] - set(nb))[:6]
            extra = sorted(set(nb) - want[c])[:6]
            return (f'shape {shape} radius {radius}: neighbour list #{i} is not the searchlight of centre #{i} (linear {c} = voxel '
                    f'{_unlin(shape, c)}): {len(nb)} voxels, expected {len(want[c])}; missing {miss} extra {extra}')
    return None


@oracle('C19/volume-searchlight')
def orc_volume(case):
    """get_volume_searchlight(mask, radius, threshold): accepted centres and their neighbour lists.
    Optional keys: dtype / layout / as_list / as_tuple (how the mask is stored and handed over), radius_as / threshold_as (scalar
    type of the two numbers), repeat (the same call again: equal result, first result untouched)"""
    from rsatoolbox.util.searchlight import get_volume_searchlight
    mask = _build_mask(case)
    shape = tuple(mask.shape)
    radius, thr = case['radius'], case['threshold']
    keep = mask.copy()
    want = _spec_volume(mask, radius, thr)
    arg = mask.tolist() if case.get('as_list') else mask
    if case.get('as_tuple'):
        arg = tuple(tuple(tuple(row) for row in plane) for plane in mask.tolist())
    r_arg, t_arg = _typed_scalar(radius, case.get('radius_as')), _typed_scalar(thr, case.get('threshold_as'))
    with _quiet():
        centers, neighbors = get_volume_searchlight(arg, radius=r_arg, threshold=t_arg)
    if not np.array_equal(mask, keep) or (case.get('as_list') and arg != keep.tolist()):
        return 'the mask was modified'
    res = _volume_diff(shape, radius, thr, centers, neighbors, want)
    if res:
        return res
    if case.get('repeat'):
        held_c = np.array(centers).copy()
        held_n = [np.array(n).copy() for n in neighbors]
        with _quiet():
            c2, n2 = get_volume_searchlight(arg, radius=r_arg, threshold=t_arg)
        if not np.array_equal(np.asarray(centers), held_c) or len(neighbors) != len(held_n) or \
                any(not np.array_equal(np.asarray(x), y) for x, y in zip(neighbors, held_n)):
            return 'the result of the first call changed while the same call ran again'
        if not np.array_equal(np.asarray(c2), held_c) or len(n2) != len(held_n) or \
                any(not np.array_equal(np.asarray(x), y) for x, y in zip(n2, held_n)):
            return 'the same call on the same mask gave a different result the second time'
    return None


@oracle('C19/volume-sequence')
def orc_volume_sequence(case):
    """several get_volume_searchlight calls in one process (same volume shape, different mask contents / radii / thresholds, some
    repeated): every result -- looked at only AFTER all calls were made -- is the one of ITS mask, radius and threshold, the
    results held from earlier calls did not change, and equal calls gave equal results"""
    from rsatoolbox.util.searchlight import get_volume_searchlight
    shape = tuple(case['shape'])
    held = []
    for k, step in enumerate(case['steps']):
        sub = dict(shape=list(shape), **step)
        mask = _build_mask(sub)
        with _quiet():
            centers, neighbors = get_volume_searchlight(mask, radius=step['radius'], threshold=step['threshold'])
        held.append((sub, mask.copy(), centers, neighbors, _snapshot(np.asarray(centers)), [_snapshot(np.asarray(n)) for n in neighbors]))
    for k, (sub, mask, centers, neighbors, snap_c, snap_n) in enumerate(held):
        if not np.array_equal(np.asarray(centers), snap_c) or len(neighbors) != len(snap_n) or \
                any(not np.array_equal(np.asarray(x), y) for x, y in zip(neighbors, snap_n)):
            return f'the result returned by call #{k} changed while later calls ran'
        res = _volume_diff(shape, sub['radius'], sub['threshold'], centers, neighbors, _spec_volume(mask, sub['radius'], sub['threshold']))
        if res:
            return f'call #{k} of {len(held)} (after the calls before it): {res}'
    for k in range(len(held)):
        for j in range(k):
            if held[j][0] == held[k][0]:
                if not np.array_equal(held[j][4], held[k][4]) or any(not np.array_equal(x, y) for x, y in zip(held[j][5], held[k][5])):
                    return f'calls #{j} and #{k} had equal arguments but returned different results'
    return None


def _rdm_inputs(case):
    rs = np.random.RandomState(case['seed'])
    n_centers = case['n_centers']
    n_vox = case.get('n_vox') or max(30, n_centers + 13)
    method = case['method']
    ev = _events(rs, case.get('events', 'int'), case.get('n_cond', 3), case.get('reps', 2), case.get('event_order', 'shuffled'))
    n_obs = len(ev)
    labels = sorted(set(ev.tolist()))
    pattern = rs.randn(len(labels), n_vox)
    rows = np.array([labels.index(e) for e in ev.tolist()])
    data = rs.randn(n_obs, n_vox) + 2 * pattern[rows]
    if case.get('data_seed') is not None:    # other measurements for the SAME centres, searchlights and events
        data = data + 1.5 * np.random.RandomState(case['data_seed']).randn(n_obs, n_vox)
    if method == 'poisson':
        data = np.abs(data) + 0.25              # rates must be positive
    dt = case.get('dtype')
    if dt in ('int16', 'uint8'):         # recorded data as stored in image files: integer typed (uint8: non-negative)
        data = np.round(data * 12 + (100 if dt == 'uint8' else 0)).clip(0 if dt == 'uint8' else -30000, 250 if dt == 'uint8' else 30000)
        data = data.astype(dt)
    elif dt == 'float32':
        data = (data + 200.0).astype(np.float32)
    if case.get('scale'):                # the same recording in other units (volts vs. femto-tesla, raw scanner units ...)
        data = data * float(case['scale'])
    data = _relayout(data, case.get('layout'))
    order = case.get('centre_order', 'sorted')
    centers = rs.choice(n_vox, size=n_centers, replace=False)
    if order == 'sorted':
        centers = np.sort(centers)
    lo, hi = case.get('nb_min', 3), case.get('nb_max', 6)
    neighbors = []
    for c in centers:
        k = rs.randint(lo, hi + 1)
        others = rs.choice(n_vox, size=k, replace=False)
        nb = np.concatenate([[c], others[others != c]])[:max(k, 1)]
        how = case.get('nb_as', 'array')
        if how in ('array', '2d'):
            neighbors.append(nb)
        elif how == 'list':
            neighbors.append([int(v) for v in nb])
        elif how == 'tuple':
            neighbors.append(tuple(int(v) for v in nb))
        else:                            # 'int32' / 'uint16' / 'intp': index arrays of another integer type
            neighbors.append(nb.astype(how))
    if case.get('nb_as') == '2d':        # equally large searchlights handed over as ONE centres x voxels index matrix
        neighbors = np.array(neighbors)
        assert neighbors.ndim == 2
    elif case.get('nb_outer') == 'tuple':
        neighbors = tuple(neighbors)
    how = case.get('centres_as')
    if how == 'list':
        centers = [int(c) for c in centers]
    elif how == 'tuple':
        centers = tuple(int(c) for c in centers)
    elif how:
        centers = centers.astype(how)
    how = case.get('events_as')
    if how == 'list':
        ev = ev.tolist()
    elif how == 'tuple':
        ev = tuple(ev.tolist())
    elif how == 'object':
        ev = ev.astype(object)
    if case.get('data_as') == 'list':
        data = data.tolist()
    return data, centers, neighbors, ev


def _snapshot(x):
    """deep value copy of an argument (nested lists / tuples / arrays) for the inputs-unchanged clause"""
    if isinstance(x, np.ndarray):
        return x.copy()
    if isinstance(x, (list, tuple)):
        return type(x)(_snapshot(v) for v in x)
    return x


def _same(x, y):
    """same container types, same element types / dtypes, same values"""
    if type(x) is not type(y):
        return False
    if isinstance(x, np.ndarray):
        return x.dtype == y.dtype and x.shape == y.shape and bool(np.all(x == y))
    if isinstance(x, (list, tuple)):
        return len(x) == len(y) and all(_same(a, b) for a, b in zip(x, y))
    return x == y


def _rclose(a, b, tol):
    """relative to the largest expected entry WITHOUT a floor at 1 (for data in extreme units)"""
    a, b = np.asarray(a, dtype=float), np.asarray(b, dtype=float)
    if a.shape != b.shape or not np.all(np.isfinite(a)) or not np.all(np.isfinite(b)):
        return False
    if b.size == 0:
        return True
    return bool(np.max(np.abs(a - b)) <= tol * float(np.max(np.abs(b))))


@oracle('C19/searchlight-rdms')
def orc_sl_rdms(case):
    """get_searchlight_RDMs: row i == RDM computed directly from data[:, neighbors[i]] with the events as conditions.
    Optional keys: scale / layout / data_as (units, memory layout, nested list of the data), centres_as / nb_as / nb_outer /
    events_as (container and index types), event_order, repeat (the same call again gives the same values and leaves the
    result of the first call alone)"""
    from rsatoolbox.util.searchlight import get_searchlight_RDMs
    data, centers, neighbors, ev = _rdm_inputs(case)
    method = case['method']
    n_centers = len(centers)
    keep = _snapshot((data, centers, neighbors, ev))
    with _quiet():
        sl = get_searchlight_RDMs(data, centers, neighbors, ev, method=method, verbose=False)
    for name, now, before in zip(('data_2d', 'centers', 'neighbors', 'events'), (data, centers, neighbors, ev), keep):
        if not _same(now, before):
            return f'{name} was modified by the call'
    data, centers, ev = np.asarray(data), np.asarray(centers), np.asarray(ev)
    got = np.asarray(sl.dissimilarities)
    n_cond = len(set(ev.tolist()))
    if sl.n_rdm != n_centers or got.shape != (n_centers, n_cond * (n_cond - 1) // 2):
        return (f'{n_centers} centres, {n_cond} conditions: result holds {sl.n_rdm} RDMs, dissimilarities shape {got.shape}, '
                f'expected {(n_centers, n_cond * (n_cond - 1) // 2)}')
    vox = np.asarray(sl.rdm_descriptors.get('voxel_index'))
    if vox.shape != centers.shape or not np.array_equal(vox, centers):
        bad = [i for i in range(min(len(vox), n_centers)) if vox[i] != centers[i]][:5] if vox.ndim == 1 else '?'
        return f"rdm_descriptors['voxel_index'] is not the centre vector in the given order (first differing positions {bad})"
    if sl.dissimilarity_measure != method:
        return f'dissimilarity_measure {sl.dissimilarity_measure!r}, expected {method!r}'
    if case.get('scale'):
        def cl(a, b):
            return _rclose(a, b, 1e-8)
    else:
        def cl(a, b):
            return close(a, b, 1e-8)
    bad = []
    first = None
    for i in range(n_centers):
        want = _spec_rdm_vector(data[:, np.asarray(neighbors[i], dtype=int)], ev, method)
        if not cl(got[i], want):
            bad.append(i)
            if first is None:
                first = (i, want)
    if bad:
        i, want = first
        same_as = [j for j in range(n_centers)
                   if j != i and cl(got[i], _spec_rdm_vector(data[:, np.asarray(neighbors[j], dtype=int)], ev, method))][:3]
        hint = f'; it is the RDM of centre(s) #{same_as}' if same_as else ('; it is all zero' if not np.any(got[i]) else '')
        fmt = (lambda v: [float('%.6g' % x) for x in v[:3]]) if case.get('scale') else (lambda v: np.round(v[:3], 6).tolist())
        return (f'{n_centers} centres, method {method}: {len(bad)} RDM(s) differ from the direct computation, positions '
                f'{bad[:6]}{"..." if len(bad) > 6 else ""}; e.g. centre #{i} (voxel {int(centers[i])}) got {fmt(got[i])} '
                f'expected {fmt(want)}{hint}')
    if case.get('then'):
        # another call (same shapes, other contents) while the caller still holds the first result
        held = got.copy()
        held_vox = vox.copy()
        r = orc_sl_rdms(case['then'])
        if r:
            return f'second call of a sequence: {r}'
        if not np.array_equal(np.asarray(sl.dissimilarities), held) or \
                not np.array_equal(np.asarray(sl.rdm_descriptors['voxel_index']), held_vox):
            return 'the result of the first call changed while get_searchlight_RDMs ran on other data'
    if case.get('repeat'):
        held = got.copy()
        held_vox = vox.copy()
        with _quiet():
            sl2 = get_searchlight_RDMs(keep[0], keep[1], keep[2], keep[3], method=method, verbose=False)
        if sl2 is sl:
            return 'the second call returned the very object of the first call'
        if not np.array_equal(np.asarray(sl.dissimilarities), held) or \
                not np.array_equal(np.asarray(sl.rdm_descriptors['voxel_index']), held_vox):
            return 'the result of the first call changed while the same call ran again'
        if not np.array_equal(np.asarray(sl2.dissimilarities), held) or \
                not np.array_equal(np.asarray(sl2.rdm_descriptors['voxel_index']), held_vox):
            k = int(np.argmax(np.any(np.asarray(sl2.dissimilarities) != held, axis=1))) if np.asarray(sl2.dissimilarities).shape == held.shape else '?'
            return f'the same call on equal inputs gave a different result the second time (first differing centre #{k})'
    return None


@oracle('C19/pipeline')
def orc_pipeline(case):
    """mask -> get_volume_searchlight -> get_searchlight_RDMs on the flattened volume vs. RDMs from 3-D sphere coordinates"""
    from rsatoolbox.util.searchlight import get_volume_searchlight, get_searchlight_RDMs
    mask = _build_mask(case)
    shape = tuple(mask.shape)
    radius, thr, method = case['radius'], case['threshold'], case['method']
    rs = np.random.RandomState(case['seed'] + 1000)
    ev = _events(rs, case.get('events', 'int'), case.get('n_cond', 3), case.get('reps', 2), case.get('event_order', 'shuffled'))
    data4 = rs.randn(len(ev), *shape) + 2 * rs.randn(len(set(ev.tolist())), *shape)[
        np.array([sorted(set(ev.tolist())).index(e) for e in ev.tolist()])]
    data_2d = data4.reshape(len(ev), -1)                       # documented layout: observations x voxels of the volume
    # spec: accepted centres and their spheres as 3-D coordinates (vectorised brute force: all voxels x all centres)
    coords = np.array(list(itertools.product(*[range(s) for s in shape])))
    want = {}
    for v in coords:
        if not mask[tuple(v)]:
            continue
        d = np.sqrt(((coords - v) ** 2).sum(axis=1).astype(float))
        sph = coords[d < radius]
        if len(sph) == 0:
            continue
        if sum(1 for u in sph if mask[tuple(u)]) / len(sph) >= thr:
            want[_lin(shape, v)] = sph
    with _quiet():
        centers, neighbors = get_volume_searchlight(mask, radius=radius, threshold=thr)
        sl = get_searchlight_RDMs(data_2d, centers, neighbors, ev, method=method)
    got_c = [int(c) for c in np.asarray(centers)]
    if sorted(got_c) != sorted(want):
        return f'shape {shape} radius {radius} threshold {thr}: {len(got_c)} centres, expected {len(want)}'
    vox = [int(v) for v in np.asarray(sl.rdm_descriptors['voxel_index'])]
    if vox != got_c or sl.n_rdm != len(got_c):
        return 'voxel_index of the searchlight RDMs is not the centre vector of get_volume_searchlight'
    got = np.asarray(sl.dissimilarities)
    for i, c in enumerate(vox):
        sph = want[c]
        X = np.array([[data4[o, u[0], u[1], u[2]] for u in sph] for o in range(len(ev))])
        w = _spec_rdm_vector(X, ev, method)
        if got[i].shape != w.shape or not close(got[i], w, 1e-8):
            return (f'shape {shape} radius {radius} ({len(vox)} centres): RDM #{i} (voxel_index {c} = voxel {_unlin(shape, c)}) is not '
                    f'the RDM of the data in the sphere around that voxel: got {np.round(got[i][:3], 6).tolist()} expected '
                    f'{np.round(w[:3], 6).tolist()}')
    return None


def _revealing_eval(delay_first, delay_voxels):
    """evaluation function pickled BY VALUE (nested), reports what it was handed; early positions take longest"""
    def reveal(models, x, method=None, theta=None):
        import time as _time
        vi = int(x.rdm_descriptors['voxel_index'][0])
        if vi in delay_voxels:
            _time.sleep(delay_first)
        return dict(voxel=vi, n_rdm=int(x.n_rdm), dis=[float(v) for v in x.dissimilarities.ravel()],
                    method=method, theta=theta, models=models)
    return reveal


@oracle('C19/evaluate-order')
def orc_eval_order(case):
    """evaluate_models_searchlight: results[i] belongs to centre i for every n_jobs; arguments are passed through"""
    from rsatoolbox.rdm import RDMs
    from rsatoolbox.util.searchlight import evaluate_models_searchlight
    rs = np.random.RandomState(case['seed'])
    n, n_jobs = case['n'], case['n_jobs']
    n_dis = case.get('n_dis', 3)
    centers = rs.choice(10 * n + 10, size=n, replace=False)            # distinct, unsorted voxel indices
    dis = (np.arange(n * n_dis, dtype=float).reshape(n, n_dis) + 1) * 0.5 + centers[:, None] * 1000.0   # sentinel values
    sl = RDMs(dis.copy(), rdm_descriptors={'voxel_index': centers}, dissimilarity_measure='euclidean')
    delayed_vox = set(int(c) for c in centers[:max(1, n // 4)]) if case.get('delay') else set()
    fn = _revealing_eval(case.get('delay', 0), delayed_vox)
    models = case.get('models', ['model-A', 'model-B'])
    theta = case.get('theta')
    method = case.get('method', 'cosine')
    with _quiet():
        res = evaluate_models_searchlight(sl, models, fn, method=method, theta=theta, n_jobs=n_jobs)
    if not isinstance(res, list) or len(res) != n:
        return f'n_jobs={n_jobs}: {type(res).__name__} of length {len(res) if hasattr(res, "__len__") else "?"}, expected a list of {n} results'
    if sl.n_rdm != n or not np.array_equal(np.asarray(sl.dissimilarities), dis) or \
            not np.array_equal(np.asarray(sl.rdm_descriptors['voxel_index']), centers):
        return f'n_jobs={n_jobs}: the searchlight RDMs object handed in was modified by the evaluation'
    if case.get('then_n_jobs') is not None:
        # the same evaluation with another number of jobs: the same list; the list held from the first call is left alone
        import copy
        first = copy.deepcopy(res)
        with _quiet():
            res2 = evaluate_models_searchlight(sl, models, fn, method=method, theta=theta, n_jobs=case['then_n_jobs'])
        if res != first:
            return f'the result list of the n_jobs={n_jobs} call changed while the n_jobs={case["then_n_jobs"]} call ran'
        if res2 != first:
            k = [i for i in range(min(len(res2), n)) if res2[i] != first[i]][:5] if isinstance(res2, list) else '?'
            return (f'n_jobs={case["then_n_jobs"]} gives another result list than n_jobs={n_jobs} '
                    f'(lengths {len(res2) if hasattr(res2, "__len__") else "?"} / {n}; differing positions {k})')
    for i, r in enumerate(res):
        if r['n_rdm'] != 1:
            return f'n_jobs={n_jobs}: evaluation #{i} was handed {r["n_rdm"]} RDMs instead of one'
        if r['voxel'] != int(centers[i]) or r['dis'] != [float(v) for v in dis[i]]:
            where = [j for j in range(n) if int(centers[j]) == r['voxel']]
            return (f'n_jobs={n_jobs}: result #{i} is the evaluation of voxel {r["voxel"]} (centre #{where}), expected the one of centre '
                    f'#{i} (voxel {int(centers[i])}); dissimilarities {r["dis"]} vs {dis[i].tolist()}')
        if r['method'] != method or r['theta'] != theta or r['models'] != models:
            return (f'n_jobs={n_jobs}: evaluation #{i} received method={r["method"]!r} theta={r["theta"]!r} models={r["models"]!r}, '
                    f'expected {method!r} {theta!r} {models!r}')
    return None


@oracle('C19/evaluate-fixed')
def orc_eval_fixed(case):
    """evaluate_models_searchlight with the real eval_fixed: evaluation of model m at centre i == own corr / cosine"""
    from rsatoolbox.rdm import RDMs
    from rsatoolbox.model import ModelFixed
    from rsatoolbox.inference import eval_fixed
    from rsatoolbox.util.searchlight import evaluate_models_searchlight
    rs = np.random.RandomState(case['seed'])
    n, n_jobs, method = case['n'], case['n_jobs'], case['method']
    n_dis = 6
    centers = rs.choice(10 * n + 10, size=n, replace=False)
    dis = rs.rand(n, n_dis) + 0.1
    mvecs = rs.rand(case.get('n_models', 2), n_dis) + 0.1
    models = [ModelFixed(f'm{k}', mvecs[k].copy()) for k in range(len(mvecs))]
    if case.get('single_model'):
        models = models[0]
        mvecs = mvecs[:1]
    sl = RDMs(dis.copy(), rdm_descriptors={'voxel_index': centers}, dissimilarity_measure='euclidean')
    with _quiet():
        res = evaluate_models_searchlight(sl, models, eval_fixed, method=method, n_jobs=n_jobs)
    if not isinstance(res, list) or len(res) != n:
        return f'n_jobs={n_jobs}: expected a list of {n} results'
    if not np.array_equal(np.asarray(sl.dissimilarities), dis) or not np.array_equal(np.asarray(sl.rdm_descriptors['voxel_index']), centers):
        return f'n_jobs={n_jobs}: the searchlight RDMs object handed in was modified by the evaluation'
    for i in range(n):
        ev = np.asarray(res[i].evaluations, dtype=float).ravel()
        want = []
        for mv in mvecs:
            a, b = mv, dis[i]
            if method == 'corr':
                a, b = a - a.mean(), b - b.mean()
            want.append(float(np.sum(a * b) / math.sqrt(np.sum(a * a) * np.sum(b * b))))
        if ev.shape != (len(want),) or not close(ev, want, 1e-9):
            match = [j for j in range(n) if j != i and close(
                ev, [float(np.sum((mv - (mv.mean() if method == 'corr' else 0)) * (dis[j] - (dis[j].mean() if method == 'corr' else 0)))
                           / math.sqrt(np.sum((mv - (mv.mean() if method == 'corr' else 0)) ** 2)
                                       * np.sum((dis[j] - (dis[j].mean() if method == 'corr' else 0)) ** 2))) for mv in mvecs], 1e-9)][:3]
            return (f'n_jobs={n_jobs} method={method}: result #{i} (voxel {int(centers[i])}) has evaluations {np.round(ev, 6).tolist()}, '
                    f'expected {np.round(want, 6).tolist()}' + (f' (these are the evaluations of centre #{match})' if match else ''))
    return None


_FRESH_CHILD = (
    'import sys, json, warnings\n'
    'warnings.simplefilter("ignore")\n'
    'from vf.rt.harness import ORACLES\n'
    'import contracts.C19_c\n'
    'out = []\n'
    'for name, case in json.load(sys.stdin):\n'
    '    try:\n'
    '        out.append(ORACLES[name](case))\n'
    '    except Exception as e:\n'
    '        out.append("exception %s: %s" % (type(e).__name__, e))\n'
    'print("C19-FRESH-RESULT" + json.dumps([hash("face") % 1000, out]))\n')


@oracle('C19/fresh-interpreter')
def orc_fresh(case):
    """environment: the oracles listed in case['jobs'] hold as well in a NEW interpreter started with
    PYTHONHASHSEED=case['hashseed'] (string event labels hash differently there, so any dependence of the condition order on
    the iteration order of a set / dict of labels shows) -- same library, same sys.path"""
    import json
    import os
    import subprocess
    import sys
    import rsatoolbox
    root = os.path.dirname(os.path.dirname(os.path.abspath(__file__)))
    src = os.path.dirname(os.path.dirname(os.path.abspath(rsatoolbox.__file__)))
    env = dict(os.environ, PYTHONHASHSEED=str(case['hashseed']), PYTHONPATH=os.pathsep.join([src, root]),
               PYTHONDONTWRITEBYTECODE='1', MPLBACKEND='Agg')
    pr = subprocess.run([sys.executable, '-c', _FRESH_CHILD], input=json.dumps(case['jobs']), capture_output=True, text=True,
                        env=env, timeout=600, cwd=root)
    lines = [ln for ln in pr.stdout.splitlines() if ln.startswith('C19-FRESH-RESULT')]
    if pr.returncode != 0 or not lines:
        return f'the new interpreter failed (exit {pr.returncode}): {pr.stderr.strip()[-400:]}'
    _, results = json.loads(lines[-1][len('C19-FRESH-RESULT'):])
    if len(results) != len(case['jobs']):
        return 'GENERATOR ERROR: the new interpreter answered %d of %d jobs' % (len(results), len(case['jobs']))
    for (name, job), res in zip(case['jobs'], results):
        if res is not None:
            return f"under PYTHONHASHSEED={case['hashseed']}: {name} on {json.dumps(job)[:300]}: {res}"
    return None


# =====================================================================================================
# domains
# =====================================================================================================
def _shapes(mx):
    return [(a, b, c) for a in range(1, mx[0] + 1) for b in range(1, mx[1] + 1) for c in range(1, mx[2] + 1)]


def _ulp_up(x):
    return float(np.nextafter(x, np.inf))


def _ulp_dn(x):
    return float(np.nextafter(x, -np.inf))


def tier_c(run, thorough):
    bds = []

    # ---- membership: exhaustive over shapes x centres x radii -------------------------------------
    mx = (5, 5, 6) if thorough else (4, 4, 5)
    radii = [0, 0.5, 1, SQ2 - 1e-9, SQ2, SQ2 + 1e-9, 1.5, SQ3, SQ3 + 1e-9, 2, 2.5, 3, 6]
    if thorough:
        radii = sorted(set(radii + [k * 0.25 for k in range(0, 21)] + [_ulp_up(1.0), _ulp_dn(1.0), _ulp_up(2.0), _ulp_dn(2.0),
                                                                          _ulp_up(3.0), _ulp_dn(3.0), math.sqrt(5), math.sqrt(6),
                                                                          2.2360679775, 3.5, 4.5, 9]))
    bd = Bounded(run, 'C19/neighbors', OB_NB,
                 'all volume shapes up to %dx%dx%d (every axis length combination), EVERY voxel of the volume as centre, radii %s; '
                 'mask contents irrelevant to membership (filled with 0 or 1)' % (mx + ([round(r, 10) for r in radii],)),
                 exhaustive=True, function='_get_searchlight_neighbors')
    for shape in _shapes(mx):
        for k, r in enumerate(radii):
            ic = 'integer-radius' if float(r).is_integer() else 'non-integer-radius'
            bd.check(orc_neighbors, dict(shape=list(shape), radius=r, fill=(k + sum(shape)) % 2,
                                         centre_as='tuple' if k % 2 else 'array'), ic, function='_get_searchlight_neighbors')
    bd.done()
    bds.append(bd)

    # ---- centres / neighbour lists: ALL masks of tiny volumes -------------------------------------
    max_vox = 12 if thorough else 8
    tiny = [s for s in _shapes((4, 4, 12)) if s[0] * s[1] * s[2] <= max_vox]
    if not thorough:
        tiny = [s for s in tiny if s[0] * s[1] * s[2] <= 6 or s in ((2, 2, 2), (1, 2, 4), (4, 2, 1), (1, 1, 8))]
    else:
        tiny = [s for s in tiny if s[0] * s[1] * s[2] <= 8 or s in ((2, 2, 3), (3, 2, 2), (1, 3, 4), (2, 3, 2))]
    t_radii = [1, 1.5, 2] if not thorough else [1, SQ2, 1.5, 2, 2.5]
    t_thr = [0.3, 0.5, 0.7, 1.0] if not thorough else [0.0, 0.3, 0.5, 0.7, 0.75, 1.0]
    bd = Bounded(run, 'C19/volume-searchlight/all-masks', OB_VOL,
                 'ALL 0/1 masks of the volumes %s, radii %s, thresholds %s' % (tiny, [round(r, 10) for r in t_radii], t_thr),
                 exhaustive=True, function='get_volume_searchlight')
    for shape in tiny:
        n = shape[0] * shape[1] * shape[2]
        for bits in itertools.product((0, 1), repeat=n):
            mask = np.array(bits).reshape(shape)
            for r in t_radii:
                for thr in t_thr:
                    if n > 8 and (r, thr) not in ((1.5, 0.5), (1.5, 1.0), (2, 0.7), (SQ2, 0.75), (1, 0.3)):
                        continue
                    ic = 'no-accepted-centre' if not _spec_volume(mask, r, thr) else \
                        ('integer-radius' if float(r).is_integer() else 'non-integer-radius')
                    bd.check(orc_volume, dict(shape=list(shape), mask='bits', bits=list(bits), radius=r, threshold=thr), ic,
                             function='get_volume_searchlight')
    bd.done()
    bds.append(bd)

    # ---- centres / neighbour lists: seeded masks of larger volumes ---------------------------------
    if thorough:
        shapes = _shapes((4, 4, 5)) + [(5, 5, 6), (6, 5, 5), (5, 6, 4), (7, 3, 5), (2, 9, 3)]
        seeds = [0, 1, 2]
    else:
        shapes = [(1, 1, 1), (1, 1, 5), (1, 4, 1), (3, 1, 1), (2, 2, 2), (1, 4, 5), (4, 1, 5), (4, 4, 1), (2, 3, 4), (4, 3, 2),
                  (3, 3, 3), (3, 4, 5), (5, 3, 4), (4, 4, 5), (5, 4, 4), (4, 5, 4)]
        seeds = [0]
    s_radii = [0.5, 1, 1.5, 2, 2.5, 3] + ([SQ2, SQ3 + 1e-9, 3.5] if thorough else [SQ3 + 1e-9])
    s_thr = [0.3, 0.7, 1.0] + ([0.0, 0.5] if thorough else [0.5])
    bd = Bounded(run, 'C19/volume-searchlight/seeded', OB_VOL,
                 '%d volume shapes up to 4x4x5 (thorough: all 80 plus 5 larger up to 5x5x6), seeded masks (random density 0.5 / 0.8, '
                 'cuboid blob with holes, full; int / bool / float dtype, array or nested list), radii %s, thresholds %s, all mask voxels '
                 'as candidate centres' % (len(shapes), [round(r, 10) for r in s_radii], s_thr), function='get_volume_searchlight')
    k = 0
    for shape in shapes:
        for seed in seeds:
            variants = [dict(mask='random', seed=seed, density=0.8), dict(mask='blob', seed=seed), dict(mask='random', seed=seed, density=0.5)]
            if seed == 0:
                variants.append(dict(mask='full'))
            for var in variants:
                for r in s_radii:
                    for thr in s_thr:
                        k += 1
                        if not thorough and var['mask'] in ('full', 'random') and var.get('density') != 0.8 and (k % 3):
                            continue
                        case = dict(shape=list(shape), radius=r, threshold=thr, **var)
                        if k % 5 == 0:
                            case['dtype'] = 'bool'
                        elif k % 7 == 0:
                            case['dtype'] = 'float'
                        if k % 11 == 0:
                            case['as_list'] = True
                        ic = 'no-accepted-centre' if not _spec_volume(_build_mask(case), r, thr) else \
                            ('integer-radius' if float(r).is_integer() else 'non-integer-radius')
                        bd.check(orc_volume, case, ic, function='get_volume_searchlight')
    bd.done()
    bds.append(bd)

    # ---- RDM per centre, single-call branch (<= 1000 centres) --------------------------------------
    bd = Bounded(run, 'C19/searchlight-rdms/unchunked', OB_RDM,
                 'seeded data (observations x voxels), 1..1000 centres with ragged searchlights of 1..8 voxels, sorted / unsorted centre '
                 'vectors, int / gapped-int / string events (balanced and unbalanced, shuffled), 2..6 conditions, methods euclidean, '
                 'correlation, mahalanobis (no noise), poisson', function='get_searchlight_RDMs')
    for seed in range(3 if thorough else 1):
        for n_centers in ([1, 2, 3, 7, 50, 100, 101] if thorough else [1, 3, 7, 50]):
            for method in ('euclidean', 'correlation', 'mahalanobis', 'poisson'):
                for ek, (events, n_cond, reps) in enumerate([('int', 3, 2), ('int-gaps', 5, 'unbalanced'), ('str', 4, 1), ('int', 2, 3),
                                                             ('str', 6, 'unbalanced')]):
                    if not thorough and ek >= 3 and method not in ('euclidean',):
                        continue
                    case = dict(seed=seed * 100 + ek, n_centers=n_centers, method=method, events=events, n_cond=n_cond, reps=reps,
                                nb_min=1 if method in ('euclidean', 'mahalanobis') else 3, nb_max=8,
                                centre_order='sorted' if (ek + n_centers) % 2 else 'unsorted',
                                nb_as='array' if ek % 2 else 'list')
                    bd.check(orc_sl_rdms, case, f'unchunked,{method}', function='get_searchlight_RDMs')
    # cross-validated distances with the default folds (k-th occurrence of a condition = fold k): balanced designs with 8 or more
    # observations in shuffled / interleaved order, equal-size searchlights
    for k, (events, n_cond, reps, order) in enumerate([('int', 4, 2, 'shuffled'), ('str', 3, 3, 'shuffled'), ('int-gaps', 5, 2, 'interleaved'),
                                                       ('str-long', 4, 3, 'shuffled'), ('int', 6, 4, 'shuffled')]):
        for n_centers in ((3, 40) if thorough else (3,) if k else (3, 40)):
            bd.check(orc_sl_rdms, dict(seed=900 + k, n_centers=n_centers, method='crossnobis', events=events, n_cond=n_cond, reps=reps,
                                       nb_min=4, nb_max=4, event_order=order, centre_order=('sorted', 'unsorted')[k % 2]),
                     'unchunked,crossnobis,default-folds', function='get_searchlight_RDMs')
        bd.check(orc_sl_rdms, dict(seed=950 + k, n_centers=5, method='crossnobis', events=events, n_cond=n_cond, reps=reps,
                                   nb_min=2, nb_max=6, event_order=order, centre_order=('sorted', 'unsorted')[k % 2]),
                 'unchunked,crossnobis,default-folds,ragged-searchlights', function='get_searchlight_RDMs')
    # typed data (image files hold int16 / uint8 / float32): the result is the float64 formula on the stored values.
    # float32 only with one observation per event (numpy averages float32 rows in float32: a precision question, not claimed)
    for k, (dt, events, n_cond, reps) in enumerate([('int16', 'int', 4, 1), ('int16', 'str', 3, 2), ('uint8', 'int-gaps', 4, 1),
                                                   ('uint8', 'int', 3, 2), ('float32', 'str', 5, 1), ('float32', 'int', 4, 1)]):
        for method in ('euclidean', 'correlation'):
            bd.check(orc_sl_rdms, dict(seed=700 + k, n_centers=7, method=method, events=events, n_cond=n_cond, reps=reps, nb_min=3, nb_max=6,
                                       dtype=dt, centre_order='unsorted'), f'unchunked,{method},{dt}-data', function='get_searchlight_RDMs')
    for n_centers in ([999, 1000] if thorough else [1000]):
        for method in (('euclidean', 'correlation', 'poisson') if thorough else ('euclidean', 'correlation')):
            bd.check(orc_sl_rdms, dict(seed=n_centers, n_centers=n_centers, method=method, events='int', n_cond=3, reps=2, nb_min=3, nb_max=5,
                                       centre_order='unsorted'), f'unchunked,{method}', function='get_searchlight_RDMs')
    bd.done()
    bds.append(bd)

    # ---- RDM per centre, chunked branch (> 1000 centres) -------------------------------------------
    if thorough:
        ns = list(range(1001, 1203)) + [1263, 1500, 1999, 2000, 2001, 2503, 3000, 3001, 5003]
    else:
        ns = [1001, 1002, 1037, 1099, 1100, 1101, 1263, 1999, 2001]
    bd = Bounded(run, 'C19/searchlight-rdms/chunked', OB_RDM,
                 'numbers of centres %s (all > 1000: multiples of 100 and not), seeded tiny data (4-6 observations, 2-3 conditions), '
                 'searchlights of 3..5 voxels, methods euclidean / correlation (thorough: + poisson), sorted and unsorted centre vectors'
                 % ((f'{ns[0]}..{ns[201]} (every value) and {ns[202:]}') if thorough else ns), function='get_searchlight_RDMs')
    for k, n_centers in enumerate(ns):
        methods = ['euclidean', 'correlation'] if (not thorough or n_centers > 1202 or n_centers % 25 == 0) else \
            [('euclidean', 'correlation', 'poisson')[k % 3]]
        for method in methods:
            ic = 'chunked,multiple-of-100' if n_centers % 100 == 0 else 'chunked,not-multiple-of-100'
            bd.check(orc_sl_rdms, dict(seed=n_centers, n_centers=n_centers, method=method, events=('int', 'str')[k % 2], n_cond=2 + k % 2,
                                       reps=2, nb_min=3, nb_max=5, centre_order=('sorted', 'unsorted')[k % 2]), ic,
                     function='get_searchlight_RDMs')
    bd.done()
    bds.append(bd)

    # ---- mask -> searchlights -> RDMs -----------------------------------------------------------------
    bd = Bounded(run, 'C19/pipeline', OB_PIPE,
                 'seeded masks on volumes 2x3x4 .. 5x4x6 (<= 1000 centres) and full 11x10x10 / blob 12x11x10 volumes (> 1000 centres, '
                 'chunked), radii 1.5 / 2 / 2.5, thresholds 0.5 / 0.7 / 1.0, methods euclidean / correlation; data laid out as '
                 'observations x C-order flattened volume', function='get_searchlight_RDMs')
    pipe = [dict(shape=[2, 3, 4], mask='random', seed=1, density=0.8, radius=1.5, threshold=0.5, method='euclidean'),
            dict(shape=[4, 3, 5], mask='blob', seed=2, radius=2, threshold=0.7, method='correlation'),
            dict(shape=[5, 4, 6], mask='full', seed=3, radius=2.5, threshold=1.0, method='correlation', events='str', n_cond=4, reps=1),
            dict(shape=[11, 10, 10], mask='full', seed=4, radius=1.5, threshold=0.5, method='euclidean', n_cond=2, reps=2)]
    if thorough:
        pipe += [dict(shape=[12, 11, 10], mask='blob', seed=5, radius=2, threshold=0.5, method='correlation'),
                 dict(shape=[3, 5, 4], mask='random', seed=6, density=0.5, radius=2.5, threshold=0.5, method='euclidean', events='int-gaps',
                      n_cond=5, reps='unbalanced'),
                 dict(shape=[13, 9, 9], mask='full', seed=7, radius=SQ3 + 1e-9, threshold=0.7, method='euclidean', n_cond=3, reps=1)]
    for case in pipe:
        n_acc = len(_spec_volume(_build_mask(case), case['radius'], case['threshold']))
        assert n_acc > 0, 'pipeline cases are chosen to have accepted centres'
        bd.check(orc_pipeline, case, 'pipeline,chunked' if n_acc > 1000 else 'pipeline,unchunked', function='get_searchlight_RDMs')
    bd.done()
    bds.append(bd)

    # ---- evaluation order ------------------------------------------------------------------------------
    bd = Bounded(run, 'C19/evaluate', OB_EVAL,
                 'n_jobs in %s, 1..%d centres with distinct sentinel RDMs and unsorted voxel indices, position-revealing evaluation '
                 'function (first quarter of the centres delayed so that later ones finish first), plus the real eval_fixed with 1-2 '
                 'fixed models (corr, cosine) vs own computation; only the worker schedules that occur on this machine'
                 % ([1, 2, 3, 4, -1] if thorough else [1, 2, 4], 101 if thorough else 23), function='evaluate_models_searchlight')
    for n in ([1, 2, 5, 23, 101] if thorough else [1, 5, 23]):
        bd.check(orc_eval_order, dict(seed=n, n=n, n_jobs=1, theta=None), 'n_jobs=1', function='evaluate_models_searchlight')
    bd.check(orc_eval_order, dict(seed=7, n=9, n_jobs=1, theta=[0.25, 0.75], method='corr', models='one-model'), 'n_jobs=1',
             function='evaluate_models_searchlight')
    for n_jobs in ([2, 3, 4, -1] if thorough else [2, 4]):
        for n in ([2, 23, 101] if thorough else [23]):
            for seed in (range(3) if thorough and n == 23 else [0]):
                bd.check(orc_eval_order, dict(seed=seed + n, n=n, n_jobs=n_jobs, theta=[1.0, 2.0] if seed % 2 else None, delay=0.03,
                                              method='corr'), 'n_jobs>1', function='evaluate_models_searchlight')
    for n_jobs, method in ([(1, 'corr'), (1, 'cosine'), (2, 'corr')] + ([(4, 'cosine'), (2, 'cosine')] if thorough else [])):
        bd.check(orc_eval_fixed, dict(seed=11 + n_jobs, n=17, n_jobs=n_jobs, method=method, single_model=(method == 'cosine')),
                 'n_jobs=1' if n_jobs == 1 else 'n_jobs>1', function='evaluate_models_searchlight')
    bd.done()
    bds.append(bd)
    bds.extend(_sweeps(run, thorough))
    return bds


def _f32_ok(r):
    return float(np.float32(r)) == float(r)


def _sweeps(run, thorough):
    """dimension sweeps: argument / storage types, extreme units and radii, containers, label kinds and orders, sizes, call
    sequences, threshold ties, new interpreters.  Every expected value is the one of the spec functions above."""
    bds = []

    # ---- membership: how centre, radius and mask are typed / stored; extreme radii ------------------------
    n_shapes = _shapes((5, 5, 6) if thorough else (4, 4, 5))
    if not thorough:
        n_shapes = [sh for k, sh in enumerate(n_shapes) if k % 5 == 0 or sh in ((1, 1, 1), (4, 4, 5), (1, 4, 1), (3, 3, 3))]
    radii = [0, 0.5, 1, SQ2, 1.5, SQ3 + 1e-9, 2, 2.5, 3]
    x_radii = [-1, -0.5, 1e-9, 1e-300, 50, 1e6, 1e300]
    bd = Bounded(run, 'C19/neighbors/argument-types', OB_NB,
                 '%d volume shapes, every voxel as centre; centre as list / tuple of numpy integers / int32 array, radius as Python int / '
                 'float / numpy float64 / float32 / int64 (where the value is representable), mask stored as bool / uint8 / float32, '
                 'column-major or as a non-contiguous view, radii %s; extreme radii %s (negative: empty; tiny: the centre alone; huge: the '
                 'whole volume); results of all centres of a volume re-read after the last call' % (len(n_shapes), [round(r, 10) for r in radii],
                                                                                                x_radii),
                 function='_get_searchlight_neighbors')
    k = 0
    for shape in n_shapes:
        for r in radii:
            k += 1
            r_as = ['float', 'float64', 'float32' if _f32_ok(r) else 'float64', 'int64' if float(r).is_integer() else 'float', 'py'][k % 5]
            case = dict(shape=list(shape), radius=r, fill=k % 2, centre_as=('list', 'np-tuple', 'int32')[k % 3], radius_as=r_as,
                        mask_dtype=('bool', 'uint8', 'float32', 'int')[k % 4], layout=('F', 'strided', 'C')[(k // 2) % 3])
            bd.check(orc_neighbors, case, 'argument-types,' + ('integer-radius' if float(r).is_integer() else 'non-integer-radius'),
                     function='_get_searchlight_neighbors')
        for r in x_radii:
            k += 1
            if not thorough and k % 2 and r not in (-1, 1e6):
                continue
            bd.check(orc_neighbors, dict(shape=list(shape), radius=r, fill=1, centre_as=('tuple', 'array')[k % 2]), 'extreme-radius',
                     function='_get_searchlight_neighbors')
    bd.done()
    bds.append(bd)

    # ---- centres / neighbour lists: mask storage, scalar types, repeated call -----------------------------
    v_shapes = [(1, 1, 5), (3, 1, 1), (2, 2, 2), (2, 3, 4), (4, 3, 2), (3, 3, 3), (3, 4, 5), (4, 4, 5)]
    if thorough:
        v_shapes += [(1, 4, 1), (5, 3, 4), (5, 5, 6), (2, 9, 3), (7, 3, 5)]
    v_radii = [1, 1.5, 2, 2.5] + ([0.5, 3, SQ2] if thorough else [])
    v_thr = [0.5, 0.7, 1.0] + ([0.0, 0.3] if thorough else [])
    bd = Bounded(run, 'C19/volume-searchlight/storage', OB_VOL,
                 '%d volume shapes, seeded masks (blob, random 0.8; thorough + random 0.5) stored as uint8 / int8 / int16 / float32 / bool, '
                 'column-major / non-contiguous view / negative strides / nested tuples, radius and threshold as Python int / float / '
                 'numpy float64 / float32 / int64 scalars (where the value is representable), radii %s, thresholds %s; every 3rd case '
                 'calls twice (equal results, first result untouched)' % (len(v_shapes), [round(r, 10) for r in v_radii], v_thr),
                 function='get_volume_searchlight')
    k = 0
    single_precision = []          # cases of the class pending triage (here and in the next domain)
    for shape in v_shapes:
        for var in [dict(mask='blob', seed=3), dict(mask='random', seed=4, density=0.8)] + \
                ([dict(mask='random', seed=5, density=0.5)] if thorough else []):
            for r in v_radii:
                for thr in v_thr:
                    k += 1
                    case = dict(shape=list(shape), radius=r, threshold=thr, **var)
                    case['dtype'] = ('uint8', 'int8', 'float32', 'int16', 'bool')[k % 5]
                    lay = ('F', 'strided', 'reversed', 'tuple', 'C')[(k // 5 + k) % 5]
                    if lay == 'tuple':
                        case['as_tuple'] = True
                    else:
                        case['layout'] = lay
                    case['radius_as'] = ['float', 'float64', 'float32' if _f32_ok(r) else 'float64',
                                         'int64' if float(r).is_integer() else 'float'][k % 4]
                    case['threshold_as'] = ['float64', 'int' if float(thr).is_integer() else 'float', 'float32' if _f32_ok(thr) else 'py'][k % 3]
                    if k % 3 == 0:
                        case['repeat'] = True
                    if case['dtype'] == 'float32' and case['threshold_as'] == 'float64' and not _f32_ok(thr):
                        # the fraction of a float32 mask is formed in single precision (7/10 -> 0.699999988 < np.float64(0.7))
                        single_precision.append((case, 'float32-mask,threshold-within-1e-7-of-fraction'))
                        case = dict(case, threshold_as='float')
                    spec_empty = not _spec_volume(_build_mask(case), r, thr)
                    ic = 'no-accepted-centre' if spec_empty else 'mask-storage-and-scalar-types'
                    bd.check(orc_volume, case, ic, function='get_volume_searchlight')
    bd.done()
    bds.append(bd)

    # ---- threshold exactly met ----------------------------------------------------------------------------
    max_n = 20 if thorough else 12
    bd = Bounded(run, 'C19/volume-searchlight/threshold-ties', OB_VOL,
                 'one-row volumes 1x1xn, nx1x1, 1xnx1 (n = 2..%d; thorough also 2x5x1, 3x4x1, 2x3x2, 3x3x3) with a radius that covers the '
                 'whole volume, masks with k of n voxels set (seeded positions), thresholds k/n as computed, k/n rounded to 1 and 2 '
                 'decimals, and the neighbouring floats of k/n: accepted are all k mask voxels iff k/n >= threshold, else none; mask '
                 'stored as int / bool / float / float32 / uint8' % max_n, function='get_volume_searchlight')
    t_shapes = [[(1, 1, n), (n, 1, 1), (1, n, 1)][n % 3] for n in range(2, max_n + 1)]
    if thorough:
        t_shapes += [(1, 1, n) for n in range(2, max_n + 1) if n % 3 != 0] + [(2, 5, 1), (3, 4, 1), (2, 3, 2), (3, 3, 3)]
    k = 0
    for shape in t_shapes:
        n = shape[0] * shape[1] * shape[2]
        for ones in range(1, n + 1):
            rs = np.random.RandomState(1000 * n + ones)
            bits = np.zeros(n, dtype=int)
            bits[rs.permutation(n)[:ones]] = 1
            frac = ones / n
            thrs = sorted({frac, round(frac, 1), round(frac, 2), _ulp_up(frac), _ulp_dn(frac)})
            for thr in thrs:
                if not 0.0 <= thr <= 1.0:
                    continue
                k += 1
                case = dict(shape=list(shape), mask='bits', bits=bits.tolist(), radius=50, threshold=thr)
                if k % 5:
                    case['dtype'] = (None, 'bool', 'float', 'float32', 'uint8')[k % 5]
                if k % 2:
                    case['threshold_as'] = 'float64'
                ic = 'threshold-tie' if thr == frac else ('no-accepted-centre' if frac < thr else 'threshold-near-tie')
                if case.get('dtype') == 'float32' and (thr in (_ulp_up(frac), _ulp_dn(frac)) or case.get('threshold_as')):
                    # the fraction of a float32 mask is formed in single precision: differs from k/n in the 8th digit
                    single_precision.append((case, 'float32-mask,threshold-within-1e-7-of-fraction'))
                    case = dict(case, dtype='float')
                bd.check(orc_volume, case, ic, function='get_volume_searchlight')
    for ones, n in ((7, 10), (9, 10)):     # 7 of 10 voxels inside, threshold np.float64(0.7): float32(0.7) = 0.699999988 < 0.7
        single_precision.insert(0, (dict(shape=[1, 1, n], mask='bits', bits=[1] * ones + [0] * (n - ones), radius=50, threshold=ones / n,
                                         dtype='float32', threshold_as='float64'), 'float32-mask,threshold-within-1e-7-of-fraction'))
    if True:   # repaired in /repo 1becdd3b (was pending triage): float32-mask,threshold-within-1e-7-of-fraction
        for case, ic in single_precision:
            bd.check(orc_volume, case, ic, function='get_volume_searchlight')
    bd.done()
    bds.append(bd)

    # ---- several calls in one process ---------------------------------------------------------------------
    bd = Bounded(run, 'C19/volume-searchlight/call-sequences', OB_VOL,
                 'sequences of 5-7 get_volume_searchlight calls on volumes 2x3x4, 3x3x3, 4x4x5 (thorough + 5x4x3, 1x6x6): mask A, mask B of '
                 'the same shape, A again, A with another radius, A with another threshold, the full mask, B again; all results examined '
                 'after the last call', function='get_volume_searchlight')
    for q, shape in enumerate([(2, 3, 4), (3, 3, 3), (4, 4, 5)] + ([(5, 4, 3), (1, 6, 6)] if thorough else [])):
        for kind in ('random', 'blob'):
            a = dict(mask=kind, seed=10 + q, density=0.8) if kind == 'random' else dict(mask='blob', seed=10 + q)
            b = dict(mask=kind, seed=20 + q, density=0.8) if kind == 'random' else dict(mask='blob', seed=20 + q)
            steps = [dict(a, radius=1.5, threshold=0.5), dict(b, radius=1.5, threshold=0.5), dict(a, radius=1.5, threshold=0.5),
                     dict(a, radius=2, threshold=0.5), dict(a, radius=1.5, threshold=0.7), dict(mask='full', radius=1.5, threshold=0.5),
                     dict(b, radius=1.5, threshold=0.5)]
            bd.check(orc_volume_sequence, dict(shape=list(shape), steps=steps), 'call-sequence', function='get_volume_searchlight')
    bd.done()
    bds.append(bd)

    # ---- RDM per centre: units, containers, label kinds / orders, sizes, typed data when chunked, call sequences ------
    bd = Bounded(run, 'C19/searchlight-rdms/sweeps', OB_RDM,
                 'seeded data as in C19/searchlight-rdms; (units) data multiplied by 1e-26 .. 1e+12, euclidean / correlation, compared '
                 'relative to the largest expected dissimilarity; (containers) data as nested list / column-major / non-contiguous view, '
                 'centres as list / tuple / int32 / uint16 array, searchlights as tuples / int32 / uint16 / intp arrays / one 2-D index '
                 'matrix / a tuple of arrays, events as list / tuple / object array; (labels) negative ints, floats, int32, multi-character '
                 'strings, orders blocked / sorted / descending / interleaved / shuffled, 1 / 2 / unbalanced observations per condition; '
                 '(sizes) 2 observations, 12-16 conditions, every voxel a centre, searchlights of 40 voxels, 1-voxel searchlights; typed '
                 'data (int16 / uint8 / float32) and all of the above also with > 1000 centres; (sequences) same call twice, a second call '
                 'on other data of the same shape while the first result is held; all four inputs unchanged after every call',
                 function='get_searchlight_RDMs')
    # units
    scales = [1e-26, 1e-12, 1e6, 1e12] + ([1e-20, 1e-6, 1e-3, 1e3, 1e9] if thorough else [])
    for k, sc in enumerate(scales):
        for method in ('euclidean', 'correlation', 'mahalanobis'):
            if method == 'mahalanobis' and not thorough and k % 2:
                continue
            bd.check(orc_sl_rdms, dict(seed=800 + k, n_centers=7, method=method, events=('int', 'str')[k % 2], n_cond=3 + k % 2,
                                       reps=(1, 2)[k % 2], nb_min=3, nb_max=6, scale=sc, centre_order='unsorted'),
                     f'unchunked,{method},scaled-units', function='get_searchlight_RDMs')
    for k, sc in enumerate([1e-12, 1e12] if not thorough else [1e-26, 1e-12, 1e6, 1e12]):
        method = ('euclidean', 'correlation')[k % 2]
        bd.check(orc_sl_rdms, dict(seed=820 + k, n_centers=1001 + 36 * k, method=method, events='int', n_cond=3, reps=1 + k % 2, nb_min=3,
                                   nb_max=5, scale=sc, centre_order='unsorted'), 'chunked,scaled-units', function='get_searchlight_RDMs')
    # containers / index types / memory layout
    forms = [dict(centres_as='list', nb_as='tuple', events_as='list'),
             dict(centres_as='tuple', nb_as='int32', events_as='tuple', layout='F'),
             dict(centres_as='int32', nb_as='2d', nb_min=4, nb_max=4, events_as='object', layout='strided'),
             dict(centres_as='uint16', nb_as='uint16', nb_outer='tuple', data_as='list'),
             dict(centres_as='list', nb_as='intp', nb_outer='tuple', events_as='list', data_as='list'),
             dict(centres_as='tuple', nb_as='2d', nb_min=1, nb_max=1, layout='reversed')]
    for k, form in enumerate(forms):
        for method in ('euclidean', 'correlation'):
            if form.get('nb_max') == 1 and method == 'correlation':
                continue
            for events, n_cond, reps in (('str', 4, 1), ('int-gaps', 3, 2)):
                case = dict(dict(seed=840 + k, n_centers=9, method=method, events=events, n_cond=n_cond, reps=reps, nb_min=3, nb_max=6,
                                 centre_order='unsorted'), **form)
                bd.check(orc_sl_rdms, case, f'unchunked,{method},containers', function='get_searchlight_RDMs')
    for k, form in enumerate(forms[:4] if thorough else forms[:2]):
        case = dict(dict(seed=860 + k, n_centers=1001 + k, method=('euclidean', 'correlation')[k % 2], events=('str', 'int')[k % 2], n_cond=3,
                         reps=1 + k % 2, nb_min=3, nb_max=5, centre_order='unsorted'), **form)
        bd.check(orc_sl_rdms, case, 'chunked,containers', function='get_searchlight_RDMs')
    # label kinds x observation orders
    kinds = ['int-neg', 'float', 'str-long', 'int32', 'str', 'int-gaps']
    orders = ['blocked', 'sorted', 'descending', 'interleaved', 'shuffled']
    k = 0
    for kind in kinds:
        for order in orders:
            for reps in (1, 2, 'unbalanced'):
                k += 1
                if order == 'shuffled' and kind in ('str', 'int-gaps'):
                    continue                                    # in the first domain
                if not thorough and (k % 3) != 0 and not (reps == 1 and order in ('blocked', 'descending')):
                    continue
                for method in (('euclidean', 'correlation', 'poisson') if thorough else ('euclidean', 'correlation')[k % 2:][:1]):
                    bd.check(orc_sl_rdms, dict(seed=900 + k, n_centers=5, method=method, events=kind, n_cond=3 + k % 4, reps=reps,
                                               event_order=order, nb_min=3, nb_max=6, centre_order='unsorted'),
                             f'unchunked,{method},label-kinds-and-orders', function='get_searchlight_RDMs')
    for k, (kind, order, reps) in enumerate([('str-long', 'descending', 1), ('int-neg', 'blocked', 1), ('float', 'interleaved', 2)] +
                                            ([('int32', 'sorted', 'unbalanced'), ('str-long', 'interleaved', 'unbalanced'),
                                              ('float', 'descending', 1)] if thorough else [])):
        bd.check(orc_sl_rdms, dict(seed=960 + k, n_centers=1001 + 99 * k, method=('euclidean', 'correlation')[k % 2], events=kind, n_cond=3,
                                   reps=reps, event_order=order, nb_min=3, nb_max=5, centre_order='unsorted'),
                 'chunked,label-kinds-and-orders', function='get_searchlight_RDMs')
    # sizes
    sizes = [dict(n_centers=4, n_cond=2, reps=1, nb_min=3, nb_max=5),                      # two observations, one dissimilarity
             dict(n_centers=3, n_cond=12, reps=1, nb_min=3, nb_max=6, event_order='descending'),
             dict(n_centers=3, n_cond=16, reps='unbalanced', nb_min=2, nb_max=9),
             dict(n_centers=30, n_vox=30, n_cond=3, reps=2, nb_min=3, nb_max=6),           # every voxel is a centre
             dict(n_centers=5, n_vox=64, n_cond=4, reps=2, nb_min=40, nb_max=40),
             dict(n_centers=6, n_vox=6, n_cond=3, reps=1, nb_min=6, nb_max=6),            # every searchlight = all voxels
             dict(n_centers=1, n_vox=3, n_cond=2, reps=1, nb_min=3, nb_max=3)]
    for k, sz in enumerate(sizes):
        for method in ('euclidean', 'correlation'):
            bd.check(orc_sl_rdms, dict(dict(seed=980 + k, method=method, events='int', centre_order='unsorted'), **sz),
                     f'unchunked,{method},sizes', function='get_searchlight_RDMs')
    bd.check(orc_sl_rdms, dict(seed=990, n_centers=12, method='euclidean', events='int', n_cond=3, reps=2, nb_min=1, nb_max=1, nb_as='list'),
             'unchunked,euclidean,sizes', function='get_searchlight_RDMs')
    for k, n_centers in enumerate([1001, 1150] + ([2000, 10007] if thorough else [])):
        bd.check(orc_sl_rdms, dict(seed=995 + k, n_centers=n_centers, n_vox=n_centers, method='euclidean', events='int', n_cond=2 + 10 * (k % 2),
                                   reps=1, nb_min=1 + 2 * (k % 2), nb_max=3, centre_order='unsorted'), 'chunked,sizes',
                 function='get_searchlight_RDMs')
    # typed data, chunked
    for k, (dt, events, n_cond, reps) in enumerate([('int16', 'int', 3, 1), ('uint8', 'str', 3, 2), ('float32', 'int-gaps', 3, 1)] +
                                                   ([('int16', 'str', 4, 2), ('uint8', 'int', 3, 1)] if thorough else [])):
        for method in ('euclidean', 'correlation'):
            if not thorough and (k + (method == 'correlation')) % 2:
                continue
            # correlation: 5-7 voxels, so that no rounded integer pattern is constant over its searchlight (undefined correlation)
            bd.check(orc_sl_rdms, dict(seed=1010 + k, n_centers=1001 + 18 * k, method=method, events=events, n_cond=n_cond, reps=reps,
                                       nb_min=3 if method == 'euclidean' else 5, nb_max=5 if method == 'euclidean' else 7, dtype=dt,
                                       centre_order='unsorted'), f'chunked,{dt}-data', function='get_searchlight_RDMs')
    # call sequences
    for k, n_centers in enumerate([6, 50, 1001] + ([1000, 1100, 1263] if thorough else [])):
        for method in ('euclidean', 'correlation'):
            if n_centers > 1000 and not thorough and method == 'correlation':
                continue
            base = dict(seed=1030 + k, n_centers=n_centers, method=method, events=('str', 'int')[k % 2], n_cond=3, reps=1 + k % 2, nb_min=4,
                        nb_max=4, centre_order='unsorted')
            ic = ('chunked' if n_centers > 1000 else 'unchunked') + ',call-sequence'
            bd.check(orc_sl_rdms, dict(base, repeat=True), ic, function='get_searchlight_RDMs')
            bd.check(orc_sl_rdms, dict(base, then=dict(base, data_seed=77 + k)), ic, function='get_searchlight_RDMs')
            other = dict(base, method=('correlation' if method == 'euclidean' else 'euclidean'))
            bd.check(orc_sl_rdms, dict(base, then=other), ic, function='get_searchlight_RDMs')
    bd.done()
    bds.append(bd)

    # ---- pipeline: stored masks, label kinds --------------------------------------------------------------
    bd = Bounded(run, 'C19/pipeline/sweeps', OB_PIPE,
                 'pipeline as in C19/pipeline on volumes 3x4x5 .. 6x5x4 with masks stored as uint8 column-major / float32 non-contiguous / '
                 'bool, events as multi-character strings in descending order (one observation each), negative ints blocked, floats '
                 'interleaved; thorough + 11x10x10 uint8 column-major (chunked)', function='get_searchlight_RDMs')
    pipe = [dict(shape=[3, 4, 5], mask='blob', seed=14, radius=1.5, threshold=0.5, method='euclidean', dtype='uint8', layout='F',
                 events='str-long', n_cond=4, reps=1, event_order='descending'),
            dict(shape=[4, 3, 4], mask='random', seed=12, density=0.8, radius=2, threshold=0.7, method='correlation', dtype='float32',
                 layout='strided', events='int-neg', n_cond=3, reps=2, event_order='blocked'),
            dict(shape=[6, 5, 4], mask='full', seed=13, radius=SQ2 + 1e-9, threshold=1.0, method='euclidean', dtype='bool', layout='reversed',
                 events='float', n_cond=5, reps='unbalanced', event_order='interleaved')]
    if thorough:
        pipe += [dict(shape=[11, 10, 10], mask='full', seed=14, radius=1.5, threshold=0.5, method='correlation', dtype='uint8', layout='F',
                      events='str-long', n_cond=3, reps=1, event_order='descending')]
    for case in pipe:
        n_acc = len(_spec_volume(_build_mask(case), case['radius'], case['threshold']))
        assert n_acc > 0
        bd.check(orc_pipeline, case, ('pipeline,chunked' if n_acc > 1000 else 'pipeline,unchunked') + ',stored-masks-and-labels',
                 function='get_searchlight_RDMs')
    bd.done()
    bds.append(bd)

    # ---- evaluation: the same evaluation with another number of jobs, inputs unchanged ---------------------
    pairs = [(1, 2), (2, 1)] + ([(4, 3), (1, -1), (3, 1)] if thorough else [])
    bd = Bounded(run, 'C19/evaluate/sequences', OB_EVAL,
                 'evaluate_models_searchlight called twice on the same searchlight RDMs with (first, second) n_jobs in %s, %s centres: '
                 'equal result lists, the first list untouched, the RDMs object unchanged; thorough: 1203 centres with 2 jobs'
                 % (pairs, [23, 101] if thorough else [23]), function='evaluate_models_searchlight')
    for k, (j1, j2) in enumerate(pairs):
        for n in ([23, 101] if thorough else [23]):
            bd.check(orc_eval_order, dict(seed=50 + k + n, n=n, n_jobs=j1, then_n_jobs=j2, theta=None, delay=0.02, method='corr'),
                     'n_jobs-sequence', function='evaluate_models_searchlight')
    if thorough:
        bd.check(orc_eval_order, dict(seed=71, n=1203, n_jobs=2, theta=None, method='cosine'), 'n_jobs>1', function='evaluate_models_searchlight')
        bd.check(orc_eval_fixed, dict(seed=72, n=1203, n_jobs=2, method='corr'), 'n_jobs>1', function='evaluate_models_searchlight')
    bd.done()
    bds.append(bd)

    # ---- new interpreters ---------------------------------------------------------------------------------
    hashseeds = [1, 31337] + ([2, 3, 123456789] if thorough else [])
    jobs = [['C19/searchlight-rdms', dict(seed=1100, n_centers=6, method='euclidean', events='str', n_cond=5, reps=1, nb_min=3, nb_max=6,
                                          centre_order='unsorted')],
            ['C19/searchlight-rdms', dict(seed=1101, n_centers=6, method='correlation', events='str-long', n_cond=6, reps='unbalanced',
                                          nb_min=3, nb_max=6, centre_order='unsorted', events_as='list')],
            ['C19/searchlight-rdms', dict(seed=1102, n_centers=5, method='euclidean', events='str-long', n_cond=8, reps=1,
                                          event_order='descending', nb_min=3, nb_max=6, events_as='object')],
            ['C19/searchlight-rdms', dict(seed=1103, n_centers=1003, method='euclidean', events='str', n_cond=4, reps=1, nb_min=3, nb_max=4,
                                          centre_order='unsorted')],
            ['C19/searchlight-rdms', dict(seed=1104, n_centers=5, method='correlation', events='float', n_cond=5, reps=2, nb_min=3, nb_max=6)],
            ['C19/pipeline', dict(shape=[3, 3, 4], mask='random', seed=15, density=0.8, radius=1.5, threshold=0.5, method='euclidean', events='str-long',
                                  n_cond=5, reps=1)],
            ['C19/volume-searchlight', dict(shape=[3, 4, 3], mask='random', seed=16, density=0.8, radius=2, threshold=0.5)],
            ['C19/evaluate-fixed', dict(seed=17, n=9, n_jobs=1, method='corr')]]
    if not thorough:
        jobs = [j for j in jobs if j[1].get('n_centers', 0) <= 1000]
    assert all(_spec_volume(_build_mask(j), j['radius'], j['threshold']) for _, j in jobs if 'radius' in j)
    bd = Bounded(run, 'C19/fresh-interpreter', OB_RDM,
                 'new interpreters with PYTHONHASHSEED in %s (this process runs with %s), each running %d cases of the oracles above with '
                 'string / multi-character string / float event labels (unchunked; thorough also 1003 centres), one pipeline, one mask, one evaluation'
                 % (hashseeds, __import__('os').environ.get('PYTHONHASHSEED', 'unset'), len(jobs)), function='get_searchlight_RDMs')
    for hs in hashseeds:
        bd.check(orc_fresh, dict(hashseed=hs, jobs=jobs), 'new-interpreter,other-hash-seed', function='get_searchlight_RDMs')
    bd.done()
    bds.append(bd)
    return bds
