"""C01 tier C -- bounded run-time oracles: RDM estimators equal their formula on condition means, correctly labelled.

Every oracle builds its datasets from a JSON-able case (seed, explicit label sequence, label names, sizes, options), calls
the real `rsatoolbox.rdm.calc_rdm` / `calc_rdm_movie`, reads the result ONLY through `.dissimilarities` (row-major upper
triangle, the documented vector form), `.pattern_descriptors`, `.rdm_descriptors`, `.descriptors`, `.dissimilarity_measure`,
and compares with a spec written from the property statement: per-condition mean patterns by explicit accumulation over the
rows that carry the label, then a LITERAL DOUBLE LOOP OVER PAIRS OF CONDITION LABELS applying the method's formula
(`spec_value`).  Which row/column belongs to which label is always read from the returned labels (any order of conditions /
RDMs is accepted as long as the labels describe it).  No repo code computes an expected value (the metamorphic oracle
C01/invariance compares two outputs of the real function, which is the clause itself).

formulas (a, b = the two condition mean patterns, P = number of channels)
    euclidean     sum_k (a_k-b_k)^2 / P              (remove_mean: each pattern minus its own mean over channels first)
    correlation   1 - Pearson r(a, b)                (remove_mean has no effect; NOT divided by P, see DESIGN.md C01/B)
    mahalanobis   sum_kl (a-b)_k N_kl (a-b)_l / P    (given precision N; no precision = identity; remove_mean as euclidean)
    poisson       sum_k (la_k-lb_k)(log la_k - log lb_k) / P,  l = (mean + prior_lambda*prior_weight)/(1+prior_weight)
                                                     (remove_mean has no effect)

oracles and the clauses of the property they cover
  C01/values        "the value reported for each unordered pair of condition labels equals the formula on the two per-condition
                    mean patterns", "one row/column per distinct label", labels describe the order: single dataset, with a
                    condition descriptor or without (one condition per observation, identified through the 'oid' descriptor).
                    Domains: EXHAUSTIVE over all label sequences of length <= 4 onto <= 4 conditions (thorough: length <= 6
                    onto <= 3 and length <= 5 onto 4 conditions) x label naming schemes (int, str, numeric-looking str, float;
                    first-appearance, alphabetical and numeric orders all differ) x 11 method/option combinations; seeded
                    shapes (2..7 conditions, 1..4 repetitions unbalanced, 1..8 channels, signed / positive / integer data,
                    list / array descriptors, extra descriptors).
  C01/descriptors   "the dataset's descriptors attached to the right RDM and condition": every obs descriptor that is constant
                    within each condition is attached to that condition, a varying one is never attached with a foreign value,
                    every dataset descriptor sits on the RDM, the dissimilarity measure names the method.
  C01/invariance    "the values depend only on the multiset of (observation, label) pairs": row permutation, list vs array
                    descriptors, int vs float data, memory layout, added extra descriptors, singly vs one-element list give
                    the same label -> value map (metamorphic, two real outputs compared).
  C01/list          "supplying datasets singly or as a list changes nothing": list / tuple of datasets WITH a condition
                    descriptor; RDM i = formula on dataset i for every option (remove_mean, precision shared or one per dataset,
                    prior); datasets with DIFFERING CONDITION SETS (from_partials branch: union of labels, missing pairs NaN)
                    exhaustively over all ordered arrangements of non-empty subsets of 3 labels for 2 datasets; differing
                    channel counts.
  C01/list-descriptors   every dataset's descriptors end up on ITS RDM for list input.
  C01/list-no-descriptor list of datasets WITHOUT a condition descriptor (concat branch): RDM i = formula on the observations
                    of dataset i, rows identified by a unique obs descriptor when the result carries one, else by position.
  C01/sequence      the MULTI-STEP clause: several methods / options called one after another on the SAME dataset object (and
                    the same precision object, the same list object) must each equal the formula computed from a private copy of
                    the raw numbers: EXHAUSTIVE over ordered pairs of steps from the 11-step alphabet x descriptor / none x
                    float / int data (single), 8-step alphabet incl. one shared list of per-dataset precisions (list form),
                    movie form; seeded sequences of length 6.
  C01/movie         "an RDM movie equals the stack of RDMs computed separately at each (binned) time point": per distinct
                    (binned) time value the formula on the condition means of exactly the samples at that time; bins by
                    membership; time labels on the RDMs; sorted / unsorted axes, list / array time descriptors, other time
                    descriptor name, with / without condition descriptor, T = 1.
  C01/movie-labels  the time label of every RDM of a movie (and the dataset label for lists of temporal datasets).
  C01/movie-list    list of temporal datasets: each dataset's movie with the SAME options (precision, prior, bins,
                    time_descriptor).

input_class labels of the defects of the unchanged tree (see C01_findings.md), each fails only in its own class:
  'list,remove_mean'                         calc_rdm list branch drops remove_mean (C01/list)
  'list,single-dataset'                      one-element list loses the dataset descriptors / the time labels
                                             (C01/list-descriptors; labels check of C01/movie-list)
  'movie,single-time-point'                  same loss for a movie with a single time point (C01/movie-labels)
  'list,noise-per-dataset,different-n-channel'  per-dataset precisions of different sizes -> ValueError in the descriptor merge
  'list-no-descriptor,list-typed-unique-obs-descriptor,differing-order'   TypeError in concat
  'list-no-descriptor,unique-obs-descriptor,different-values'             ValueError in concat
  'movie-list,prior' / 'movie-list,bins' / 'movie-list,time_descriptor'   calc_rdm_movie list branch drops the options
  'movie,duplicate-time-values' / 'movie,single-channel' / 'movie,bins-as-lists' / 'movie,bins,list-typed-time-descriptor' /
  'movie,bins,second-time-descriptor'        calc_rdm_movie raises (roots in TemporalDataset, cf. C11)
For duplicate (binned) time values both readings of "each time point" are accepted (one RDM per distinct time VALUE with all
samples at that value as observations, or one RDM per time INDEX).

dimension sweeps (`_sweep_domains`; the same oracles on inputs that vary along one more dimension, plus two oracles)
  C01/values-typed       measurements as int8 .. uint32 / int64 / float32 with values that use the range of the dtype: the spec
                         works on exactly those values as float64 ("integer or float data change nothing"); single, list with one
                         dtype per dataset, movie.  float32: tolerance 1e-4 of the scale of the terms (rounding "not decided").
  C01/invariance-sweeps  metamorphic: the same values in a narrow integer dtype, read-only array, strided view into a larger array,
                         obs descriptors as tuple / object array / int16-float32 array, other key orders of the obs descriptor
                         dict (the condition descriptor last, the unique one first, reversed), channels and precision permuted.
  C01/values-units       the same O(1) numbers in another unit: data x 1e-26 .. 1e+12 (the formulas are homogeneous of degree 2 /
                         0 / 2 (x precision scale) / 1 with the poisson prior rate in the unit of the data): reported value /
                         scale^degree = formula on the O(1) numbers to 1e-9, i.e. NO absolute threshold survives; one unit per
                         dataset of a list; movies; condition labels that differ by 1e-13, one ulp, 1 in 1e12, beyond 2^53, after 40
                         equal characters stay distinct conditions (values, descriptors: C01/descriptors-units, lists).
  C01/movie-time-units(-labels)  time axes in units 1e-12 .. 1e+9, integer-typed and tuple time descriptors, key order of the
                         descriptor dicts, with / without bins.
  C01/containers(-descriptors)   tuple / object-array / small-dtype obs descriptors x 4 key orders of the descriptor dicts x with /
                         without condition descriptor; a vector-valued (2-D) extra obs descriptor (never attached with a foreign
                         value, its presence is not demanded); lists whose datasets differ in container type and key order.
  C01/values-large       12..64 conditions, up to 40 repetitions, up to 100 channels; lists of 6 datasets; movies of 8..12 time points.
  C01/calls              oracle C01/calls, protocol on two datasets A, B of the same shape / labels and different content: call(A) =
                         formula; inputs (measurements incl. dtype, obs / time / dataset descriptors, precision, bins) unchanged;
                         call(A) again = identical result; call(B) = formula on B; the results held from the calls on A unchanged; the
                         caller overwrites a held result -> call(A) = formula; the caller overwrites A.measurements in place with B's
                         -> formula on B.  Single / list / movie.
  C01/hashseed           oracle C01/hashseed: a batch of cases of the other oracles (str / numeric-str / int / float labels) in new
                         interpreters started with other PYTHONHASHSEED values; each must hold there (the statement leaves the
                         ORDER of conditions / RDMs free, so results are not compared across interpreters beyond that).
defects found by the sweeps (both repaired in /repo: e11d6494, d8538afc; their classes are registered normally now):
  'narrow-int-data,no-descriptor,euclidean'   int8 .. uint32 measurements, descriptor=None, euclidean / mahalanobis without
                         precision and without remove_mean: squares and products are computed in the narrow dtype and wrap around
  'vector-valued-extra-obs-descriptor,repetitions'   a 2-D obs descriptor and a condition descriptor with repetitions: TypeError
                         (unhashable ndarray) in _build_rdms

NOT covered by this tier: cross-validated methods (crossnobis, poisson_cv: C02) and `unbalanced=True`; float16 data, and for
float32 / float64 the size of rounding errors (tolerance 1e-9 relative to max(1, |expected|) in the unit of the case; float32
1e-4; DESIGN "not decided"); a data offset that is large against the differences (cancellation in the Gram form); poisson with
data far below the prior rate (same); correlation between patterns
whose variance is zero only up to rounding (skipped, P = 1 is checked: NaN); label values other than int / float / str scalars
(None, bool, tuples, mixed types); non-SPD or non-square precisions; datasets larger than the stated bounds; the PRESENCE of
extra pattern descriptors for list input (the statement cannot demand it: they may conflict between datasets) and what a
dataset descriptor that varies over a list becomes beyond "readable per RDM"; the all-inputs plumbing / formula proofs are
engines A and B.
"""
import itertools
import json
import math
import warnings

import numpy as np

from vf.rt.harness import oracle, Bounded

TOL = 1e-9
NAN = float('nan')

# input classes of the defects present on the unchanged tree
K_LIST_RM = 'list,remove_mean'
K_LIST_SINGLE = 'list,single-dataset'
K_LIST_NOISE_P = 'list,noise-per-dataset,different-n-channel'
K_CONCAT_LIST = 'list-no-descriptor,list-typed-unique-obs-descriptor,differing-order'
K_CONCAT_VALUES = 'list-no-descriptor,unique-obs-descriptor,different-values'
K_MOVIE_LIST_PRIOR = 'movie-list,prior'
K_MOVIE_LIST_BINS = 'movie-list,bins'
K_MOVIE_LIST_TD = 'movie-list,time_descriptor'
K_MOVIE_DUP = 'movie,duplicate-time-values'
K_MOVIE_P1 = 'movie,single-channel'
K_MOVIE_BINS_LISTS = 'movie,bins-as-lists'
K_MOVIE_BINS_TLIST = 'movie,bins,list-typed-time-descriptor'
K_MOVIE_BINS_TD = 'movie,bins,second-time-descriptor'
K_MOVIE_T1 = 'movie,single-time-point'

# label naming schemes: condition index -> label value.  First-appearance order is decided by the label sequence, so with
# these names alphabetical / numeric / index orders all differ from each other somewhere in the exhaustive domain.
NAMES = {
    'int': [0, 1, 2, 3, 4, 5, 6],
    'str': ['b', 'c', 'a', 'ab', 'B', 'd', 'aa'],
    'numstr': ['10', '9', '100', '1', '09', '2', '11'],
    'float': [0.5, -1.0, 2.25, 0.0, 10.0, -0.25, 3.0],
    'int-unsorted': [10, 9, 100, -3, 7, 8, 0],
}
# labels in extreme but legitimate units / of extreme size: distinct values stay distinct conditions
NAMES_UNITS = {
    'float-tiny': [1e-13, 2e-13, -1e-13, 0.0, 3e-13, 1.5e-13, -2e-13],
    'float-close': [1.0, 1.0 + 2.0 ** -52, 1.0 - 2.0 ** -53, 1.0 + 2.0 ** -51, 1.0 - 2.0 ** -52, 1.0 + 2.0 ** -50, 1.0 - 2.0 ** -51],
    'float-large': [1e12, 1e12 + 1, 1e12 - 1, -1e12, 1e12 + 2, 0.5, 1e12 + 3],
    'int-huge': [2 ** 53 + 1, 2 ** 53, 2 ** 53 + 2, -2 ** 53 - 1, 7, 2 ** 62, 2 ** 53 + 3],
    'str-long': ['x' * 40 + 'b', 'x' * 40 + 'a', 'x' * 40, 'x' * 39, 'x' * 41, 'y', 'x' * 40 + 'ab'],
}

# (method, option) alphabet; options are JSON-able: remove_mean (bool), noise ('spd' | 'diag'), prior [lambda, weight]
GRID = [
    ('euclidean', {}),
    ('euclidean', {'remove_mean': True}),
    ('correlation', {}),
    ('correlation', {'remove_mean': True}),
    ('mahalanobis', {'noise': 'spd'}),
    ('mahalanobis', {'noise': 'spd', 'remove_mean': True}),
    ('mahalanobis', {}),
    ('mahalanobis', {'remove_mean': True}),
    ('poisson', {}),
    ('poisson', {'prior': [2.0, 0.5]}),
    ('poisson', {'remove_mean': True}),
]
GRID_NO_RM = [(m, o) for m, o in GRID if not o.get('remove_mean')] + [('mahalanobis', {'noise': 'diag'})]


def _opt_label(method, opt):
    parts = [method]
    if opt.get('noise'):
        parts.append('noise=' + str(opt['noise']))
    if opt.get('remove_mean'):
        parts.append('remove_mean')
    if 'prior' in opt:
        parts.append('prior')
    return ','.join(parts)


# =====================================================================================================================
# spec (written from the property statement; explicit loops)
# =====================================================================================================================
def _py(v):
    return v.item() if isinstance(v, np.generic) else v


def _same(a, b):
    """label equality on python values (1 == 1.0 is the same label, '1' is not)"""
    a, b = _py(a), _py(b)
    if isinstance(a, str) != isinstance(b, str):
        return False
    return bool(a == b)


def _same_t(a, b, tunit=1.0):
    """time labels agree (tunit: the unit of the time axis of the case, 1.0 unless the axis is in extreme units)"""
    a, b = float(_py(a)), float(b)
    return abs(a - b) <= 1e-12 * max(tunit, abs(b))


def _find(label, seq):
    for k, s in enumerate(seq):
        if _same(label, s):
            return k
    return -1


def spec_means(rows, labels):
    """distinct labels (order of first appearance) and the mean pattern of the rows carrying each label"""
    distinct = []
    for lab in labels:
        if _find(lab, distinct) < 0:
            distinct.append(lab)
    means = []
    for d in distinct:
        acc = np.zeros(len(rows[0]), dtype=float)
        n = 0
        for x, lab in zip(rows, labels):
            if _same(lab, d):
                acc = acc + np.asarray(x, dtype=float)
                n += 1
        means.append(acc / n)
    return distinct, means


def spec_value(method, a, b, remove_mean=False, noise=None, prior=(1.0, 0.1)):
    """the method's formula on two mean patterns; None = not defined well enough to compare (variance zero up to rounding)"""
    a = np.asarray(a, dtype=float)
    b = np.asarray(b, dtype=float)
    n_ch = len(a)
    if method in ('euclidean', 'mahalanobis') and remove_mean:
        a = a - sum(a) / n_ch
        b = b - sum(b) / n_ch
    if method == 'euclidean' or (method == 'mahalanobis' and noise is None):
        return float(sum((a[k] - b[k]) ** 2 for k in range(n_ch)) / n_ch)
    if method == 'mahalanobis':
        d = a - b
        return float(sum(d[k] * noise[k][m] * d[m] for k in range(n_ch) for m in range(n_ch)) / n_ch)
    if method == 'correlation':
        ca = a - sum(a) / n_ch
        cb = b - sum(b) / n_ch
        saa = sum(ca[k] ** 2 for k in range(n_ch))
        sbb = sum(cb[k] ** 2 for k in range(n_ch))
        sab = sum(ca[k] * cb[k] for k in range(n_ch))
        if saa == 0.0 or sbb == 0.0:
            # exactly constant pattern: r is 0/0.  Only P = 1 makes this exact in every evaluation order.
            return NAN if n_ch == 1 else None
        if saa < 1e-12 * max(1.0, sum(a[k] ** 2 for k in range(n_ch))) or \
                sbb < 1e-12 * max(1.0, sum(b[k] ** 2 for k in range(n_ch))):
            return None
        return float(1 - sab / math.sqrt(saa * sbb))
    if method == 'poisson':
        lam, w = prior
        la = (a + lam * w) / (1 + w)
        lb = (b + lam * w) / (1 + w)
        return float(sum((la[k] - lb[k]) * (math.log(la[k]) - math.log(lb[k])) for k in range(n_ch)) / n_ch)
    raise ValueError(method)


def _eq(got, exp, tol=TOL, floor=1.0):
    if math.isnan(exp) or math.isnan(got):
        return math.isnan(exp) and math.isnan(got)
    return abs(got - exp) <= tol * max(floor, abs(exp))


def _check_names(names, union, what='rows/columns'):
    if len(names) != len(union):
        return f'{len(names)} {what} {[_py(n) for n in names]} for {len(union)} distinct labels {union}'
    for u in union:
        cnt = sum(1 for n in names if _same(n, u))
        if cnt != 1:
            return f'label {u!r} occurs {cnt} times among the {what} {[_py(n) for n in names]}'
    return None


def _cmp_vec(vec, names, distinct, means, method, sopt, tag='', unit=1.0, tol=TOL, floor=1.0):
    """literal double loop over pairs of condition labels; a label that the dataset does not contain -> NaN expected.
    unit: the library worked on the same numbers in another unit (see `_unit`): its values are divided by `unit` before
    they are compared with the formula on the numbers in `means` (which are O(1))."""
    n = len(names)
    k = 0
    for i in range(n):
        for j in range(i + 1, n):
            got = float(vec[k]) / unit
            k += 1
            ia, ib = _find(names[i], distinct), _find(names[j], distinct)
            if ia < 0 or ib < 0:
                exp = NAN
            else:
                exp = spec_value(method, means[ia], means[ib], **sopt)
            if exp is None:
                continue
            if not _eq(got, exp, tol, floor):
                return (f'{tag}pair ({_py(names[i])!r}, {_py(names[j])!r}): reported {got!r}, '
                        f'formula on the two condition means gives {exp!r}' + (f' (both in units of {unit!r})' if unit != 1.0 else ''))
    return None


def _vectors(res, key, n_rdm):
    """(dissimilarity rows, row/column labels) of a result, or an error string"""
    pd = res.pattern_descriptors
    if key not in pd:
        return None, None, f'result has no pattern descriptor {key!r} (has {sorted(pd.keys())})'
    names = list(pd[key])
    n = len(names)
    dis = np.asarray(res.dissimilarities)
    if dis.ndim != 2 or dis.shape != (n_rdm, n * (n - 1) // 2):
        return None, None, (f'dissimilarities have shape {dis.shape}, expected ({n_rdm}, {n * (n - 1) // 2}) for {n_rdm} RDM(s) '
                            f'over the {n} returned labels')
    if res.n_cond != n or res.n_rdm != n_rdm:
        return None, None, f'n_cond={res.n_cond}, n_rdm={res.n_rdm} but {n} labels and {n_rdm} RDM(s) expected'
    return dis, names, None


# =====================================================================================================================
# building inputs
# =====================================================================================================================
def _measurements(rs, cond_idx, n_ch, kind):
    cond_idx = np.asarray(cond_idx)
    n_obs = len(cond_idx)
    n_cond = int(cond_idx.max()) + 1
    if kind == 'pos':
        return rs.gamma(2.0, 2.0, size=(n_cond, n_ch))[cond_idx] + rs.uniform(0.2, 1.2, size=(n_obs, n_ch))
    if kind == 'count':
        return (rs.randint(0, 9, size=(n_cond, n_ch))[cond_idx] + rs.poisson(2.0, size=(n_obs, n_ch))).astype(np.int64)
    if kind == 'signed':
        return 3.0 * rs.randn(n_cond, n_ch)[cond_idx] + rs.randn(n_obs, n_ch)
    if kind.startswith('typed'):
        # 'typed:<dtype>' / 'typedpos:<dtype>': integer values that use the range of the dtype (pixel values 0..255, ADC counts
        # +-32000, ...; at most +-100000), so every dtype holds them exactly
        dt = np.dtype(kind.split(':')[1])
        if dt.kind == 'f':
            lo, hi = -2000, 2000
        else:
            lo, hi = max(int(np.iinfo(dt).min), -100000), min(int(np.iinfo(dt).max), 100000)
        if kind.startswith('typedpos'):
            lo = 0
        w = max(1, (hi - lo) // 8)
        base = rs.randint(lo, hi + 1, size=(n_cond, n_ch))[cond_idx]
        return np.clip(base + rs.randint(-w, w + 1, size=(n_obs, n_ch)), lo, hi).astype(float)
    raise ValueError(kind)


def _prep(raw, case):
    """(the numbers the spec works on, the array handed to the library).
    case['dtype']: the library gets the data as that dtype, the spec the exact values of that array as float64.
    case['scale']: the library gets the same numbers in another unit (raw * scale); the spec keeps the O(1) numbers and the
    comparison divides the library's values by `_unit` (the formulas are homogeneous)."""
    X = np.array(raw, copy=True)
    if case.get('scale'):
        X = X.astype(float) * float(case['scale'])
    if case.get('dtype'):
        X = X.astype(case['dtype'])
        if not case.get('scale'):
            raw = X.astype(float)
    return raw, X


def _unit(method, opt, case):
    """factor by which the method's value changes when the data are multiplied by case['scale'] (and a given precision by
    case['nscale'], the poisson prior rate by the scale: see `_lib_opt`): degree 2 / 0 / 2 (x nscale) / 1"""
    s = float(case.get('scale') or 1.0)
    if method == 'correlation':
        return 1.0
    if method == 'poisson':
        return s
    if method == 'mahalanobis' and opt.get('noise'):
        return s * s * float(case.get('nscale') or 1.0)
    return s * s


def _lib_opt(method, opt, case):
    """options of the library call of a case in another unit: the prior RATE of the poisson method is in the unit of the data"""
    s = case.get('scale')
    if s and method == 'poisson':
        lam, w = opt.get('prior', (1.0, 0.1))
        return dict(opt, prior=[lam * float(s), w])
    return opt


def _lib_noise(noise, case):
    if noise is None:
        return None
    out = noise * float(case['nscale']) if case.get('nscale') else noise.copy()
    if case.get('noise_dtype'):
        out = out.astype(case['noise_dtype'])
    return out


def _tol(case):
    """float32 data: the library may compute in float32 (DESIGN: the size of rounding errors is not decided); 1e-4 of
    the scale of the value rejects wrong formulas / means / labels and accepts every float32 evaluation order"""
    return 1e-4 if case.get('dtype') in ('float32',) else TOL


def _energy(method, means, sopt):
    """scale of the terms that a float32 evaluation of the method adds up (the value is compared relative to it)"""
    if method == 'correlation':
        return 1.0
    if method == 'poisson':
        lam, w = sopt['prior']
        top = max((float(np.max(m)) + lam * w) / (1 + w) for m in means)
        return max(1.0, top * max(1.0, abs(math.log(top))))
    zero = np.zeros(len(means[0]))
    return max(1.0, max(spec_value(method, m, zero, **dict(sopt, remove_mean=False)) for m in means))


def _noise(rs, n_ch, which):
    if which == 'spd':
        a = rs.randn(n_ch, n_ch)
        return a @ a.T + n_ch * np.eye(n_ch)
    if which == 'diag':
        return np.diag(rs.uniform(0.5, 2.0, size=n_ch))
    raise ValueError(which)


def _container(values, desc_type):
    if desc_type == 'array':
        return np.array(values)
    if desc_type == 'tuple':
        return tuple(values)
    if desc_type == 'object-array':
        out = np.empty(len(values), dtype=object)
        for k, v in enumerate(values):
            out[k] = v
        return out
    if desc_type == 'small-dtype-array':        # int16 / float32 / fixed-width unicode: holds the values exactly
        out = np.array(values)
        if out.dtype.kind == 'i':
            return out.astype(np.int16) if np.all(np.abs(out) < 32000) else out
        if out.dtype.kind == 'f':
            return out.astype(np.float32) if np.all(out.astype(np.float32).astype(float) == out) else out
        return out
    if desc_type == 'int-array':
        return np.array([int(v) for v in values], dtype=np.int64)
    if desc_type == 'int32-array':
        return np.array([int(v) for v in values], dtype=np.int32)
    return list(values)


def _extras(cond_idx, names, oid_base=50, oid_perm=None):
    """extra obs descriptors: 'stim' constant within a condition (of another type than the label), 'rep' varying within a
    condition, 'oid' unique per observation (not sorted)"""
    stim_is_str = not isinstance(names[0], str)
    stim = [('S%d' % (7 - c)) if stim_is_str else 100 - 7 * c for c in cond_idx]
    seen = {}
    rep = []
    for c in cond_idx:
        rep.append(seen.get(c, 0))
        seen[c] = seen.get(c, 0) + 1
    oid = [oid_base - 3 * t if t % 2 else oid_base + 3 * t + 1 for t in range(len(cond_idx))]
    if oid_perm is not None:
        oid = [oid[p] for p in oid_perm]
    return stim, rep, oid


def _pos2d(cond_idx):
    """a vector-valued obs descriptor that is constant within each condition (e.g. a stimulus position)"""
    return [[1.5 * c, float(-c)] for c in cond_idx]


def _dataset(X, cond_idx, names, desc_type='list', extra=True, descriptors=None, with_cond=True, oid_base=50, oid_perm=None,
             obs_order=None, extra2d=False):
    """obs_order: None = cond, stim, rep, oid | 'reversed' | 'oid-first' | 'cond-last' (order of the keys of the obs
    descriptor dict; 'reversed' also reverses the dict of the dataset descriptors)"""
    from rsatoolbox.data import Dataset
    labels = [names[c] for c in cond_idx]
    obs = {}
    if with_cond:
        obs['cond'] = _container(labels, desc_type)
    stim, rep, oid = _extras(cond_idx, names, oid_base, oid_perm)
    if extra:
        obs['stim'] = _container(stim, desc_type)
        obs['rep'] = _container(rep, desc_type)
    if extra2d:
        obs['pos'] = _pos2d(cond_idx) if desc_type in ('list', 'tuple') else np.array(_pos2d(cond_idx))
    obs['oid'] = _container(oid, desc_type)
    if obs_order == 'reversed':
        obs = {k: obs[k] for k in reversed(list(obs))}
        descriptors = {k: descriptors[k] for k in reversed(list(descriptors))} if descriptors else descriptors
    elif obs_order == 'oid-first':
        obs = {k: obs[k] for k in ['oid'] + [q for q in obs if q != 'oid']}
    elif obs_order == 'cond-last':
        obs = {k: obs[k] for k in [q for q in obs if q != 'cond'] + [q for q in obs if q == 'cond']}
    elif obs_order is not None:
        raise ValueError(obs_order)
    ds = Dataset(X, descriptors=dict(descriptors) if descriptors else None, obs_descriptors=obs)
    return ds, labels, dict(stim=stim, rep=rep, oid=oid)


def _kwargs(opt, noise):
    kw = {}
    if 'remove_mean' in opt:
        kw['remove_mean'] = bool(opt['remove_mean'])
    if 'prior' in opt:
        kw['prior_lambda'], kw['prior_weight'] = opt['prior']
    if noise is not None:
        kw['noise'] = noise
    return kw


def _sopt(opt, noise):
    return dict(remove_mean=bool(opt.get('remove_mean', False)), noise=noise,
                prior=tuple(opt.get('prior', (1.0, 0.1))))


def _measure_ok(measure, method, opt):
    """the stored name of the measure names the method (a mahalanobis distance without precision IS the euclidean one)"""
    if method in str(measure):
        return True
    return method == 'mahalanobis' and not opt.get('noise') and 'euclidean' in str(measure)


def _kind_ok(method, kind):
    return not (method == 'poisson' and kind == 'signed')


# =====================================================================================================================
# C01/values, C01/descriptors: single dataset
# =====================================================================================================================
def _single_case(case):
    rs = np.random.RandomState(case['seed'])
    cond_idx = list(case['labels'])
    names = case['names']
    n_ch = case['P']
    raw = _measurements(rs, cond_idx, n_ch, case.get('kind', 'pos'))
    opt = case.get('opt', {})
    noise = _noise(rs, n_ch, opt['noise']) if opt.get('noise') else None
    raw, X = _prep(raw, case)
    ds, labels, ex = _dataset(X, cond_idx, names, case.get('desc', 'list'), case.get('extra', True),
                              descriptors={'subj': 7, 'sess': 'x1'}, obs_order=case.get('obs_order'),
                              extra2d=case.get('extra2d', False))
    return raw, ds, labels, ex, opt, noise


@oracle('C01/values')
def orc_values(case):
    from rsatoolbox.rdm import calc_rdm
    raw, ds, labels, ex, opt, noise = _single_case(case)
    method = case['method']
    descriptor = case.get('descriptor', 'cond')
    with warnings.catch_warnings():
        warnings.simplefilter('ignore')
        res = calc_rdm(ds, method=method, descriptor=descriptor, **_kwargs(_lib_opt(method, opt, case), _lib_noise(noise, case)))
    key = descriptor if descriptor is not None else 'oid'
    ident = labels if descriptor is not None else ex['oid']
    dis, names, err = _vectors(res, key, 1)
    if err:
        return err
    distinct, means = spec_means([raw[t] for t in range(raw.shape[0])], ident)
    err = _check_names(names, distinct)
    if err:
        return err
    tol = _tol(case)
    floor = _energy(method, means, _sopt(opt, noise)) if tol != TOL else 1.0
    return _cmp_vec(dis[0], names, distinct, means, method, _sopt(opt, noise), unit=_unit(method, opt, case), tol=tol, floor=floor)


@oracle('C01/descriptors')
def orc_descriptors(case):
    from rsatoolbox.rdm import calc_rdm
    raw, ds, labels, ex, opt, noise = _single_case(case)
    method = case['method']
    descriptor = case.get('descriptor', 'cond')
    with warnings.catch_warnings():
        warnings.simplefilter('ignore')
        res = calc_rdm(ds, method=method, descriptor=descriptor, **_kwargs(opt, noise))
    key = descriptor if descriptor is not None else 'oid'
    ident = labels if descriptor is not None else ex['oid']
    dis, names, err = _vectors(res, key, 1)
    if err:
        return err
    distinct, _ = spec_means([raw[t] for t in range(raw.shape[0])], ident)
    err = _check_names(names, distinct)
    if err:
        return err
    pd = res.pattern_descriptors
    if case.get('extra2d') and 'pos' in pd:
        # a vector-valued descriptor: never attached with the value of another condition (its presence is not demanded)
        pos = _pos2d(list(case['labels']))
        got = list(pd['pos'])
        if len(got) != len(names):
            return f"pattern descriptor 'pos' has {len(got)} entries for {len(names)} conditions"
        for i, nm in enumerate(names):
            own = [pos[t] for t, lab in enumerate(ident) if _same(lab, nm)]
            if not any(np.shape(got[i]) == np.shape(o) and np.array_equal(np.asarray(got[i], dtype=float), np.asarray(o)) for o in own):
                return f"condition {_py(nm)!r} carries pos={np.asarray(got[i]).tolist()!r}, its observations have pos in {own}"
    obs = dict(cond=labels, **ex)
    for dname, dvals in obs.items():
        if dname == key or (dname in ('stim', 'rep') and not case.get('extra', True)):
            continue
        per_cond = []
        for nm in names:
            vals = []
            for t, lab in enumerate(ident):
                if _same(lab, nm) and _find(dvals[t], vals) < 0:
                    vals.append(dvals[t])
            per_cond.append(vals)
        constant = all(len(v) == 1 for v in per_cond)
        if constant and dname not in pd:
            return (f'obs descriptor {dname!r} is constant within every condition but is not attached to the conditions '
                    f'(pattern descriptors: {sorted(pd.keys())})')
        if dname in pd:
            got = list(pd[dname])
            if len(got) != len(names):
                return f'pattern descriptor {dname!r} has {len(got)} entries for {len(names)} conditions'
            for i, nm in enumerate(names):
                if _find(got[i], per_cond[i]) < 0:
                    return (f'condition {_py(nm)!r} carries {dname}={_py(got[i])!r}, its observations have '
                            f'{dname} in {per_cond[i]}')
    for k, v in ds.descriptors.items():
        rd = res.rdm_descriptors
        if k in rd and len(rd[k]) == 1 and _same(rd[k][0], v):
            continue
        if k in res.descriptors and _same(res.descriptors[k], v):
            continue
        return f'dataset descriptor {k}={v!r} is not attached to the RDM (rdm_descriptors {dict(rd)}, descriptors {res.descriptors})'
    if not _measure_ok(res.dissimilarity_measure, method, opt):
        return f'dissimilarity_measure {res.dissimilarity_measure!r} does not name the method {method!r}'
    return None


# =====================================================================================================================
# C01/invariance
# =====================================================================================================================
def _label_map(res, key):
    dis, names, err = _vectors(res, key, res.n_rdm)
    if err:
        raise AssertionError(err)
    out = []
    for r in range(dis.shape[0]):
        k = 0
        m = {}
        for i in range(len(names)):
            for j in range(i + 1, len(names)):
                m[(names[i], names[j])] = float(dis[r][k])
                k += 1
        out.append(m)
    return out, names


def _map_get(m, a, b):
    for (x, y), v in m.items():
        if (_same(x, a) and _same(y, b)) or (_same(x, b) and _same(y, a)):
            return v
    return None


@oracle('C01/invariance')
def orc_invariance(case):
    from rsatoolbox.rdm import calc_rdm
    rs = np.random.RandomState(case['seed'])
    cond_idx = list(case['labels'])
    names = case['names']
    n_ch = case['P']
    kind = case.get('kind', 'pos')
    raw = _measurements(rs, cond_idx, n_ch, kind)
    opt = case.get('opt', {})
    noise = _noise(rs, n_ch, opt['noise']) if opt.get('noise') else None
    method = case['method']
    var = case['variant']
    kw = _kwargs(opt, noise)
    base, _, _ = _dataset(raw.copy(), cond_idx, names, 'list', True)
    perm = list(range(len(cond_idx)))
    X2, idx2, desc2, extra2, aslist, obs_order2, kw2 = raw.copy(), cond_idx, 'list', True, False, None, kw
    if var == 'permute-rows':
        perm = [int(p) for p in rs.permutation(len(cond_idx))]
        X2 = raw[perm].copy()
        idx2 = [cond_idx[p] for p in perm]
    elif var == 'reverse-rows':
        perm = perm[::-1]
        X2 = raw[perm].copy()
        idx2 = [cond_idx[p] for p in perm]
    elif var == 'array-descriptors':
        desc2 = 'array'
    elif var == 'float-data':
        X2 = raw.astype(float)
    elif var == 'fortran-order':
        X2 = np.asfortranarray(raw.copy())
    elif var == 'no-extra-descriptors':
        extra2 = False
    elif var == 'one-element-list':
        aslist = True
    elif var == 'readonly-data':
        X2.setflags(write=False)
    elif var == 'strided-view':
        big = np.full((2 * raw.shape[0], 3 * raw.shape[1] + 1), -77, dtype=raw.dtype)
        big[1::2, 1::3] = raw
        X2 = big[1::2, 1::3]
    elif var in ('tuple-descriptors', 'object-array-descriptors', 'small-dtype-array-descriptors'):
        desc2 = var[:-len('-descriptors')]
    elif var in ('reversed-descriptor-dict', 'cond-last-descriptor-dict'):
        obs_order2 = var.split('-')[0] if var.startswith('reversed') else 'cond-last'
    elif var == 'small-int-data':
        X2 = raw.astype(kind.split(':')[1])            # kind 'typed:<dtype>': the same values in the narrow dtype
    elif var == 'permute-channels':
        pc = [int(q) for q in rs.permutation(n_ch)]
        X2 = raw[:, pc].copy()
        if noise is not None:
            kw2 = dict(kw, noise=noise[np.ix_(pc, pc)].copy())
    else:
        raise ValueError(var)
    other, _, _ = _dataset(X2, idx2, names, desc2, extra2, obs_order=obs_order2)
    with warnings.catch_warnings():
        warnings.simplefilter('ignore')
        r1 = calc_rdm(base, method=method, descriptor='cond', **kw)
        r2 = calc_rdm([other] if aslist else other, method=method, descriptor='cond', **kw2)
    m1, n1 = _label_map(r1, 'cond')
    m2, n2 = _label_map(r2, 'cond')
    err = _check_names(n2, [_py(n) for n in n1])
    if err:
        return f'variant {var}: {err}'
    for (a, b), v in m1[0].items():
        w = _map_get(m2[0], a, b)
        if w is None or not _eq(w, v, 1e-10):
            return f'variant {var}: pair ({_py(a)!r}, {_py(b)!r}) is {v!r} for the base dataset and {w!r} for the variant'
    return None


# =====================================================================================================================
# C01/list, C01/list-descriptors, C01/list-no-descriptor
# =====================================================================================================================
def _ds_case(case, spec):
    """the unit / dtype keys of one dataset of a list case (a dataset's own entry overrides the one of the case)"""
    return dict(scale=spec.get('scale', case.get('scale')), dtype=spec.get('dtype', case.get('dtype')),
                nscale=case.get('nscale'))


def _list_case(case, with_cond=True):
    """datasets of a list case: case['datasets'] = [{'labels': [...], 'P': optional}], shared names"""
    rs = np.random.RandomState(case['seed'])
    names = case['names']
    kind = case.get('kind', 'pos')
    opt = case.get('opt', {})
    raws, dss, labs, exs, noises = [], [], [], [], []
    for i, spec in enumerate(case['datasets']):
        n_ch = spec.get('P', case['P'])
        raw = _measurements(rs, spec['labels'], n_ch, kind)
        desc = {'subj': 11 + 2 * i, 'sess': 'x1'}
        if case.get('ds_descriptors') == 'none':
            desc = None
        raw, X = _prep(raw, _ds_case(case, spec))
        ds, labels, ex = _dataset(X, spec['labels'], names, spec.get('desc', case.get('desc', 'list')), case.get('extra', False),
                                  descriptors=desc, with_cond=with_cond, oid_base=spec.get('oid_base', 50),
                                  oid_perm=spec.get('oid_perm'), obs_order=spec.get('obs_order'))
        raws.append(raw)
        dss.append(ds)
        labs.append(labels)
        exs.append(ex)
    nz = opt.get('noise')
    shared = None
    if nz in ('spd', 'diag'):
        shared = _noise(rs, case['P'], nz)
        noises = [shared] * len(dss)
        arg = _lib_noise(shared, case) if case.get('nscale') else shared
    elif nz in ('per-dataset', 'per-dataset-tuple', 'per-dataset-3d'):
        noises = [_noise(rs, spec.get('P', case['P']), 'spd') for spec in case['datasets']]
        arg = [_lib_noise(n, case) for n in noises]
        if nz == 'per-dataset-tuple':
            arg = tuple(arg)
        elif nz == 'per-dataset-3d':
            arg = np.array(arg)
    else:
        noises = [None] * len(dss)
        arg = None
    return raws, dss, labs, exs, opt, noises, arg


def _rdm_of_dataset(res, n_ds):
    """which RDM belongs to which dataset: through the 'subj' labels when the result carries them, else by position"""
    subj = res.rdm_descriptors.get('subj')
    if subj is not None and len(subj) == n_ds:
        order = []
        for i in range(n_ds):
            hits = [r for r in range(n_ds) if _same(subj[r], 11 + 2 * i)]
            if len(hits) != 1:
                return list(range(n_ds))
            order.append(hits[0])
        return order
    return list(range(n_ds))


@oracle('C01/list')
def orc_list(case):
    from rsatoolbox.rdm import calc_rdm
    raws, dss, labs, exs, opt, noises, narg = _list_case(case)
    method = case['method']
    arg = tuple(dss) if case.get('container') == 'tuple' else list(dss)
    with warnings.catch_warnings():
        warnings.simplefilter('ignore')
        res = calc_rdm(arg, method=method, descriptor='cond', **_kwargs(_lib_opt(method, opt, case), narg))
    dis, names, err = _vectors(res, 'cond', len(dss))
    if err:
        return err
    union = []
    per_ds = []
    for raw, labels in zip(raws, labs):
        distinct, means = spec_means([raw[t] for t in range(raw.shape[0])], labels)
        per_ds.append((distinct, means))
        for d in distinct:
            if _find(d, union) < 0:
                union.append(d)
    err = _check_names(names, union)
    if err:
        return err
    order = _rdm_of_dataset(res, len(dss))
    for i, (distinct, means) in enumerate(per_ds):
        dcase = _ds_case(case, case['datasets'][i])
        tol = _tol(dcase)
        err = _cmp_vec(dis[order[i]], names, distinct, means, method, _sopt(opt, noises[i]), tag=f'dataset {i}: ',
                       unit=_unit(method, opt, dcase), tol=tol,
                       floor=_energy(method, means, _sopt(opt, noises[i])) if tol != TOL else 1.0)
        if err:
            return err
    return None


@oracle('C01/list-descriptors')
def orc_list_descriptors(case):
    from rsatoolbox.rdm import calc_rdm
    raws, dss, labs, exs, opt, noises, narg = _list_case(case)
    method = case['method']
    with warnings.catch_warnings():
        warnings.simplefilter('ignore')
        res = calc_rdm(list(dss), method=method, descriptor='cond', **_kwargs(opt, narg))
    if res.n_rdm != len(dss):
        return f'{res.n_rdm} RDMs for {len(dss)} datasets'
    # dataset i is recognised through its values (euclidean distance of its first two labels is unique to it)
    dis, names, err = _vectors(res, 'cond', len(dss))
    if err:
        return err
    for i, (raw, labels, ds) in enumerate(zip(raws, labs, dss)):
        distinct, means = spec_means([raw[t] for t in range(raw.shape[0])], labels)
        rows = [r for r in range(len(dss))
                if _cmp_vec(dis[r], names, distinct, means, method, _sopt(opt, noises[i])) is None]
        if len(rows) != 1:
            return f'dataset {i}: {len(rows)} RDMs carry its values (value check is C01/list)'
        r = rows[0]
        for k, v in ds.descriptors.items():
            rd = res.rdm_descriptors
            if k in rd and rd[k] is not None and len(rd[k]) == len(dss) and _same(rd[k][r], v):
                continue
            if k in res.descriptors and _same(res.descriptors[k], v):
                continue
            return (f'descriptor {k}={v!r} of dataset {i} is not attached to its RDM (row {r}): rdm_descriptors '
                    f'{ {a: list(b) if b is not None else None for a, b in rd.items()} }, descriptors {res.descriptors}')
    if not _measure_ok(res.dissimilarity_measure, method, opt):
        return f'dissimilarity_measure {res.dissimilarity_measure!r} does not name the method {method!r}'
    return None


@oracle('C01/list-no-descriptor')
def orc_list_nodesc(case):
    from rsatoolbox.rdm import calc_rdm
    raws, dss, labs, exs, opt, noises, narg = _list_case(case, with_cond=case.get('with_cond', False))
    method = case['method']
    if case.get('drop_oid'):
        for ds in dss:
            del ds.obs_descriptors['oid']
    with warnings.catch_warnings():
        warnings.simplefilter('ignore')
        res = calc_rdm(list(dss), method=method, descriptor=None, **_kwargs(_lib_opt(method, opt, case), narg))
    n_obs = raws[0].shape[0]
    dis = np.asarray(res.dissimilarities)
    if dis.shape != (len(dss), n_obs * (n_obs - 1) // 2):
        return f'dissimilarities have shape {dis.shape}, expected ({len(dss)}, {n_obs * (n_obs - 1) // 2})'
    order = _rdm_of_dataset(res, len(dss))
    pd = res.pattern_descriptors
    for i, (raw, ex) in enumerate(zip(raws, exs)):
        if 'oid' in pd and not case.get('drop_oid'):
            names = list(pd['oid'])            # rows are identified by the returned unique label
            ident = ex['oid']
        else:
            names = list(range(n_obs))         # no label: rows are the observations in their order
            ident = list(range(n_obs))
        distinct, means = spec_means([raw[t] for t in range(n_obs)], ident)
        err = _check_names(names, distinct)
        if err:
            return f'dataset {i}: {err}'
        dcase = _ds_case(case, case['datasets'][i])
        tol = _tol(dcase)
        err = _cmp_vec(dis[order[i]], names, distinct, means, method, _sopt(opt, noises[i]), tag=f'dataset {i}: observation ',
                       unit=_unit(method, opt, dcase), tol=tol,
                       floor=_energy(method, means, _sopt(opt, noises[i])) if tol != TOL else 1.0)
        if err:
            return err
    return None


# =====================================================================================================================
# C01/movie, C01/movie-labels, C01/movie-list
# =====================================================================================================================
def spec_frames(raw, labels, times, bins, merge=True):
    """[(time key, distinct labels, means)] of one temporal dataset: bins by membership (mean of the member time points,
    time key = mean of the member times), then one frame per distinct time value whose observations are all samples at
    that value (merge=False: one frame per time index)"""
    n_obs, n_ch, n_t = raw.shape
    times = [float(t) for t in times]
    if bins is not None:
        new = np.zeros((n_obs, n_ch, len(bins)))
        new_t = []
        for b, members in enumerate(bins):
            idx = [k for k in range(n_t) if any(times[k] == float(v) for v in members)]
            for o in range(n_obs):
                for c in range(n_ch):
                    new[o, c, b] = sum(float(raw[o, c, k]) for k in idx) / len(idx)
            new_t.append(sum(times[k] for k in idx) / len(idx))
        raw, times, n_t = new, new_t, len(bins)
    frames = []
    if merge:
        keys = []
        for t in times:
            if t not in keys:
                keys.append(t)
        groups = [(t, [k for k in range(n_t) if times[k] == t]) for t in keys]
    else:
        groups = [(times[k], [k]) for k in range(n_t)]
    for t, idx in groups:
        rows, labs = [], []
        for k in idx:
            for o in range(n_obs):
                rows.append(raw[o, :, k])
                labs.append(labels[o])
        distinct, means = spec_means(rows, labs)
        frames.append((t, distinct, means))
    return frames


def _movie_case(case):
    from rsatoolbox.data import TemporalDataset
    rs = np.random.RandomState(case['seed'])
    names = case['names']
    kind = case.get('kind', 'pos')
    n_ch = case['P']
    times = case['times']
    tkey = case.get('time_descriptor', 'time')
    opt = case.get('opt', {})
    n_ds = case.get('n_ds', 0)
    raws, dss, idents = [], [], []
    for i in range(max(1, n_ds)):
        cond_idx = case['labels'] if i % 2 == 0 else case['labels'][::-1]
        frames = [_measurements(rs, cond_idx, n_ch, kind) for _ in times]
        raw = np.stack(frames, axis=2)
        labels = [names[c] for c in cond_idx]
        _, _, oid = _extras(cond_idx, names)
        obs = {'oid': _container(oid, case.get('desc', 'list'))}
        if case.get('descriptor', 'cond') is not None:
            obs['cond'] = _container(labels, case.get('desc', 'list'))
        tvals = _container(times, case.get('tdesc', 'array'))
        tdesc = {'time': tvals} if tkey == 'time' else {'time': np.arange(len(times)), tkey: tvals}
        if case.get('tdict_order') == 'reversed':
            obs = {k: obs[k] for k in reversed(list(obs))}
            tdesc = {k: tdesc[k] for k in reversed(list(tdesc))}
        raw, X = _prep(raw, case)
        ds = TemporalDataset(X, descriptors={'subj': 11 + 2 * i}, obs_descriptors=obs, time_descriptors=tdesc)
        raws.append(raw)
        dss.append(ds)
        idents.append(labels if case.get('descriptor', 'cond') is not None else oid)
    nz = opt.get('noise')
    if nz in ('spd', 'diag'):
        shared = _noise(rs, n_ch, nz)
        noises, narg = [shared] * len(dss), _lib_noise(shared, case)
    elif nz == 'per-dataset':
        noises = [_noise(rs, n_ch, 'spd') for _ in dss]
        narg = [_lib_noise(n, case) for n in noises]
    else:
        noises, narg = [None] * len(dss), None
    bins = case.get('bins')
    barg = None
    if bins is not None:
        barg = [list(b) for b in bins] if case.get('bins_type') == 'list' else [np.array(b) for b in bins]
    return raws, dss, idents, opt, noises, narg, bins, barg, tkey


def _movie_call(case, dss, opt, narg, barg, tkey):
    from rsatoolbox.rdm import calc_rdm_movie
    kw = {}
    if 'prior' in opt:
        kw['prior_lambda'], kw['prior_weight'] = opt['prior']
    if narg is not None:
        kw['noise'] = narg
    if barg is not None:
        kw['bins'] = barg
    if tkey != 'time':
        kw['time_descriptor'] = tkey
    arg = list(dss) if case.get('n_ds', 0) else dss[0]
    with warnings.catch_warnings():
        warnings.simplefilter('ignore')
        return calc_rdm_movie(arg, method=case['method'], descriptor=case.get('descriptor', 'cond'), **kw)


def _frame_assignment(res, frames_ds, tkey, multi, tunit=1.0):
    """frames_ds: [(dataset index, time key, distinct, means)] in dataset-major first-appearance order.
    Returns (row of each frame, None) through the returned labels, or (None, why the labels do not describe the RDMs)."""
    n = len(frames_ds)
    rd = res.rdm_descriptors
    tl = rd.get(tkey)
    if tl is None:
        return None, f'result has no rdm descriptor {tkey!r} (has {sorted(rd.keys())})'
    if len(tl) != n:
        return None, f'rdm descriptor {tkey!r} has {len(tl)} entries for {n} RDMs expected'
    sl = rd.get('subj')
    if multi and (sl is None or len(sl) != n):
        return None, f"rdm descriptor 'subj' does not label the {n} RDMs (is {None if sl is None else list(sl)})"
    rows = []
    for (i, t, _, _) in frames_ds:
        hits = [r for r in range(n) if _same_t(tl[r], t, tunit) and (not multi or _same(sl[r], 11 + 2 * i))]
        if len(hits) != 1:
            return None, (f'{len(hits)} RDMs are labelled {tkey}={t!r}' + (f', subj={11 + 2 * i}' if multi else '') +
                          f' (labels {[_py(x) for x in tl]})')
        rows.append(hits[0])
    return rows, None


def _movie_check(case, merge):
    raws, dss, idents, opt, noises, narg, bins, barg, tkey = _movie_case(case)
    res = _movie_call(case, dss, _lib_opt(case['method'], opt, case), narg, barg, tkey)
    method = case['method']
    key = 'cond' if case.get('descriptor', 'cond') is not None else 'oid'
    frames_ds = []
    for i, raw in enumerate(raws):
        for (t, distinct, means) in spec_frames(raw, idents[i], case['times'], bins, merge=merge):
            frames_ds.append((i, t, distinct, means))
    n = len(frames_ds)
    if res.n_rdm != n:
        return (f'{res.n_rdm} RDMs, expected {n}: one per ' + ('bin' if bins is not None else 'distinct time value') +
                (' and dataset' if len(dss) > 1 else ''))
    dis, names, err = _vectors(res, key, n)
    if err:
        return err
    multi = case.get('n_ds', 0) > 1
    rows, why = _frame_assignment(res, frames_ds, tkey, multi, float(case.get('tunit', 1.0)))
    if case['check'] == 'labels':
        if why:
            return why
        if not _measure_ok(res.dissimilarity_measure, method, opt):
            return f'dissimilarity_measure {res.dissimilarity_measure!r} does not name the method {method!r}'
        for i, ds in enumerate(dss):
            for f, (j, t, _, _) in enumerate(frames_ds):
                if j != i:
                    continue
                sl = res.rdm_descriptors.get('subj')
                if sl is None or len(sl) != n or not _same(sl[rows[f]], 11 + 2 * i):
                    return (f"dataset descriptor subj={11 + 2 * i} is not attached to the RDM of time {t!r} "
                            f"(rdm descriptor 'subj': {None if sl is None else [_py(x) for x in sl]})")
        return None
    if rows is None:
        rows = list(range(n))          # labels unusable (reported by the labels oracle): dataset-major, first appearance
    for f, (i, t, distinct, means) in enumerate(frames_ds):
        err = _check_names(names, distinct)
        if err:
            return err
        tol = _tol(case)
        err = _cmp_vec(dis[rows[f]], names, distinct, means, method, _sopt(opt, noises[i]),
                       tag=(f'dataset {i}, ' if len(dss) > 1 else '') + f'time {t!r}: ', unit=_unit(method, opt, case), tol=tol,
                       floor=_energy(method, means, _sopt(opt, noises[i])) if tol != TOL else 1.0)
        if err:
            return err
    return None


def _orc_movie(case):
    times = [float(t) for t in case['times']]
    dup = len(set(times)) != len(times)
    if case.get('bins') is not None:
        means = []
        for b in case['bins']:
            idx = [k for k in range(len(times)) if any(times[k] == float(v) for v in b)]
            means.append(sum(times[k] for k in idx) / len(idx))
        dup = len(set(means)) != len(means)
    if not dup:
        return _movie_check(case, merge=True)
    # duplicate (binned) time values: "each time point" can be read as each distinct time VALUE (all samples at that value are
    # observations; this is what split_time / time_as_observations are written for) or as each time INDEX; accept either
    results = []
    for merge in (True, False):
        try:
            r = _movie_check(case, merge=merge)
        except Exception as e:          # noqa: the exception text is the observation
            r = f'exception {type(e).__name__}: {e}'
        if r is None:
            return None
        results.append(r)
    return results[0]


@oracle('C01/movie')
def orc_movie(case):
    return _orc_movie(dict(case, check='values'))


@oracle('C01/movie-labels')
def orc_movie_labels(case):
    return _orc_movie(dict(case, check='labels'))


@oracle('C01/movie-list')
def orc_movie_list(case):
    return _orc_movie(dict(case, check='values'))


# =====================================================================================================================
# C01/sequence: several calls on the SAME objects
# =====================================================================================================================
@oracle('C01/sequence')
def orc_sequence(case):
    from rsatoolbox.rdm import calc_rdm
    form = case.get('form', 'single')
    steps = case['steps']
    if form == 'movie':
        return _sequence_movie(case)
    rs = np.random.RandomState(case['seed'])
    names = case['names']
    n_ch = case['P']
    kind = case.get('kind', 'pos')
    descriptor = case.get('descriptor', 'cond')
    label_seqs = [case['labels']] if form == 'single' else [case['labels'], case['labels'][::-1]]
    raws, dss, idents = [], [], []
    for i, cond_idx in enumerate(label_seqs):
        raw = _measurements(rs, cond_idx, n_ch, kind)
        ds, labels, ex = _dataset(raw.copy(), cond_idx, names, case.get('desc', 'list'), True, descriptors={'subj': 11 + 2 * i})
        raws.append(raw)            # private copy = reference of every step
        dss.append(ds)
        idents.append(labels if descriptor is not None else ex['oid'])
    shared = {'spd': _noise(rs, n_ch, 'spd'), 'diag': _noise(rs, n_ch, 'diag')}
    per_ds = [_noise(rs, n_ch, 'spd') for _ in dss]     # ONE list object of per-dataset precisions for all steps
    keep = {k: v.copy() for k, v in shared.items()}
    keep_per_ds = [n.copy() for n in per_ds]
    arg = dss[0] if form == 'single' else dss          # the same object(s) in every step
    key = descriptor if descriptor is not None else 'oid'
    for s, (method, opt) in enumerate(steps):
        if opt.get('noise') == 'per-dataset':
            noise = per_ds
        else:
            noise = shared[opt['noise']] if opt.get('noise') else None
        with warnings.catch_warnings():
            warnings.simplefilter('ignore')
            res = calc_rdm(arg, method=method, descriptor=descriptor, **_kwargs(opt, noise))
        changed = [i for i, (ds, raw) in enumerate(zip(dss, raws))
                   if not (ds.measurements.shape == raw.shape and np.array_equal(ds.measurements, raw))]
        hint = (f' [measurements of dataset object {changed} no longer equal the data it was built from]' if changed else '')
        if any(not np.array_equal(shared[k], keep[k]) for k in shared) or len(per_ds) != len(keep_per_ds) or \
                any(not np.array_equal(a, b) for a, b in zip(per_ds, keep_per_ds)):
            hint += ' [a precision matrix object was modified]'
        tag = f'step {s} ({_opt_label(method, opt)}) after {[_opt_label(m, o) for m, o in steps[:s]]}: '
        if form == 'list' and descriptor is None:
            n_obs = raws[0].shape[0]
            dis = np.asarray(res.dissimilarities)
            if dis.shape != (len(dss), n_obs * (n_obs - 1) // 2):
                return tag + f'dissimilarities have shape {dis.shape}'
            names_r = list(res.pattern_descriptors['oid']) if 'oid' in res.pattern_descriptors else None
            if names_r is None:
                return tag + "result has no pattern descriptor 'oid'"
        else:
            dis, names_r, err = _vectors(res, key, len(dss))
            if err:
                return tag + err + hint
        order = _rdm_of_dataset(res, len(dss)) if form == 'list' else [0]
        for i, raw in enumerate(raws):
            distinct, means = spec_means([raw[t] for t in range(raw.shape[0])], idents[i])
            err = _check_names(names_r, distinct)
            if err:
                return tag + err + hint
            spec_noise = None if noise is None else (keep_per_ds[i] if opt['noise'] == 'per-dataset' else keep[opt['noise']])
            err = _cmp_vec(dis[order[i]], names_r, distinct, means, method, _sopt(opt, spec_noise))
            if err:
                return tag + (f'dataset {i}: ' if form == 'list' else '') + err + hint
    return None


def _sequence_movie(case):
    """several movies from the same TemporalDataset object"""
    mc = dict(case, method=case['steps'][0][0], opt=case['steps'][0][1], check='values')
    raws, dss, idents, _, _, _, bins, barg, tkey = _movie_case(mc)
    rs = np.random.RandomState(case['seed'] + 1)
    shared = {'spd': _noise(rs, case['P'], 'spd'), 'diag': _noise(rs, case['P'], 'diag')}
    keep = {k: v.copy() for k, v in shared.items()}
    key = 'cond' if case.get('descriptor', 'cond') is not None else 'oid'
    for s, (method, opt) in enumerate(case['steps']):
        noise = shared[opt['noise']] if opt.get('noise') else None
        res = _movie_call(dict(case, method=method, n_ds=0), dss, opt, noise, barg, tkey)
        tag = f'step {s} ({_opt_label(method, opt)}) after {[_opt_label(m, o) for m, o in case["steps"][:s]]}: '
        hint = '' if np.array_equal(dss[0].measurements, raws[0]) else ' [measurements of the dataset object were modified]'
        frames = spec_frames(raws[0], idents[0], case['times'], bins)
        dis, names, err = _vectors(res, key, len(frames))
        if err:
            return tag + err + hint
        frames_ds = [(0, t, d, m) for (t, d, m) in frames]
        rows, why = _frame_assignment(res, frames_ds, tkey, False)
        if rows is None:
            rows = list(range(len(frames)))
        for f, (t, distinct, means) in enumerate(frames):
            err = _check_names(names, distinct) or _cmp_vec(
                dis[rows[f]], names, distinct, means, method, _sopt(opt, None if noise is None else keep[opt['noise']]),
                tag=f'time {t!r}: ')
            if err:
                return tag + err + hint
    return None


# =====================================================================================================================
# C01/calls: what one call may do to another one, to the inputs and to results the caller holds
# =====================================================================================================================
def _snapshot(res):
    def cp(x):
        return np.array(x, copy=True) if isinstance(x, np.ndarray) else _py(x)
    return dict(dis=np.array(res.dissimilarities, dtype=float, copy=True),
                pd={k: [cp(x) for x in v] for k, v in res.pattern_descriptors.items()},
                rd={k: [cp(x) for x in v] for k, v in res.rdm_descriptors.items()},
                measure=str(res.dissimilarity_measure))


def _seq_equal(a, b):
    if len(a) != len(b):
        return False
    for x, y in zip(a, b):
        x, y = _py(x), _py(y)
        if isinstance(x, np.ndarray) or isinstance(y, np.ndarray):
            if not (np.shape(x) == np.shape(y) and np.array_equal(np.asarray(x), np.asarray(y))):
                return False
            continue
        if isinstance(x, float) and isinstance(y, float) and x != x and y != y:
            continue
        if isinstance(x, str) != isinstance(y, str) or not bool(x == y):
            return False
    return True


def _snap_diff(res, snap):
    """how a result object differs from the snapshot taken of it (or of an identical call), None if it does not"""
    dis = np.asarray(res.dissimilarities, dtype=float)
    if dis.shape != snap['dis'].shape:
        return f"dissimilarities have shape {dis.shape}, were {snap['dis'].shape}"
    if not np.array_equal(dis, snap['dis'], equal_nan=True):
        k = [int(q) for q in np.argwhere(~((dis == snap['dis']) | (np.isnan(dis) & np.isnan(snap['dis']))))[0]]
        return f"dissimilarity {k} is {dis[tuple(k)]!r}, was {snap['dis'][tuple(k)]!r}"
    for attr, old in (('pattern_descriptors', snap['pd']), ('rdm_descriptors', snap['rd'])):
        now = getattr(res, attr)
        if sorted(now.keys()) != sorted(old.keys()):
            return f'{attr} have keys {sorted(now.keys())}, had {sorted(old.keys())}'
        for k in old:
            if not _seq_equal(list(now[k]), old[k]):
                return f'{attr}[{k!r}] is {[_py(x) for x in now[k]]}, was {old[k]}'
    if str(res.dissimilarity_measure) != snap['measure']:
        return f"dissimilarity_measure is {res.dissimilarity_measure!r}, was {snap['measure']!r}"
    return None


def _inputs_snapshot(dss, others):
    snap = []
    for ds in dss:
        d = dict(m=np.array(ds.measurements, copy=True), dtype=ds.measurements.dtype,
                 obs={k: [_py(x) for x in v] for k, v in ds.obs_descriptors.items()},
                 desc={k: _py(v) for k, v in ds.descriptors.items()})
        if hasattr(ds, 'time_descriptors'):
            d['time'] = {k: [_py(x) for x in v] for k, v in ds.time_descriptors.items()}
        snap.append(d)
    return snap, [None if o is None else np.array(o, copy=True) for o in others]


def _inputs_diff(dss, others, snap):
    snaps, osnap = snap
    for i, (ds, old) in enumerate(zip(dss, snaps)):
        m = ds.measurements
        if not isinstance(m, np.ndarray) or m.shape != old['m'].shape or m.dtype != old['dtype'] or not np.array_equal(m, old['m']):
            return f'the measurements of dataset {i} were changed by the call'
        pairs = [('obs_descriptors', ds.obs_descriptors, old['obs'])]
        if 'time' in old:
            pairs.append(('time_descriptors', ds.time_descriptors, old['time']))
        for attr, now, was in pairs:
            if list(now.keys()) != list(was.keys()):
                return f'{attr} of dataset {i} have keys {list(now.keys())}, had {list(was.keys())}'
            for k in was:
                if not _seq_equal(list(now[k]), was[k]):
                    return f'{attr}[{k!r}] of dataset {i} is {[_py(x) for x in now[k]]}, was {was[k]}'
        if list(ds.descriptors.keys()) != list(old['desc'].keys()) or \
                not _seq_equal([ds.descriptors[k] for k in old['desc']], list(old['desc'].values())):
            return f"descriptors of dataset {i} are {ds.descriptors}, were {old['desc']}"
    for j, (o, was) in enumerate(zip(others, osnap)):
        if o is not None and not (np.shape(o) == was.shape and np.array_equal(np.asarray(o), was)):
            return f'argument object {j} (precision / bins) was changed by the call'
    return None


@oracle('C01/calls')
def orc_calls(case):
    """Two data sets A and B of the same shape, labels and descriptors but different content.  Clauses, in this order:
    first call on A = formula; inputs unchanged; the same call again = identical result; call on B = formula on B (nothing
    of A is reused); the results held from the calls on A are unchanged; the caller overwrites a held result -> the next call
    on A = formula; the caller overwrites the measurements of the object A with those of B -> the next call = formula on B."""
    from rsatoolbox.rdm import calc_rdm
    form = case['form']
    method, opt = case['method'], case.get('opt', {})
    if form == 'movie':
        return _calls_movie(case)
    rs = np.random.RandomState(case['seed'])
    names, n_ch, kind = case['names'], case['P'], case.get('kind', 'pos')
    descriptor = case.get('descriptor', 'cond')
    label_seqs = [case['labels']] if form == 'single' else [case['labels'], case['labels'][::-1], case['labels']]
    sets = []
    for which in 'AB':
        raws, dss, idents = [], [], []
        for i, cond_idx in enumerate(label_seqs):
            raw, X = _prep(_measurements(rs, cond_idx, n_ch, kind), case)
            ds, labels, ex = _dataset(X, cond_idx, names, case.get('desc', 'list'), True, descriptors={'subj': 11 + 2 * i})
            raws.append(raw)
            dss.append(ds)
            idents.append(labels if descriptor is not None else ex['oid'])
        sets.append((raws, dss, idents))
    nz = opt.get('noise')
    if nz == 'per-dataset':
        noises = [_noise(rs, n_ch, 'spd') for _ in label_seqs]
        narg = [n.copy() for n in noises]
        others = list(narg)
    elif nz:
        shared = _noise(rs, n_ch, nz)
        noises, narg = [shared] * len(label_seqs), shared.copy()
        others = [narg]
    else:
        noises, narg, others = [None] * len(label_seqs), None, []
    key = descriptor if descriptor is not None else 'oid'

    def call(dss):
        with warnings.catch_warnings():
            warnings.simplefilter('ignore')
            return calc_rdm(dss[0] if form == 'single' else dss, method=method, descriptor=descriptor, **_kwargs(opt, narg))

    def values(res, raws, idents):
        dis, names_r, err = _vectors(res, key, len(raws))
        if err:
            return err
        order = _rdm_of_dataset(res, len(raws)) if form == 'list' else [0]
        for i, raw in enumerate(raws):
            distinct, means = spec_means([raw[t] for t in range(raw.shape[0])], idents[i])
            err = _check_names(names_r, distinct) or _cmp_vec(dis[order[i]], names_r, distinct, means, method, _sopt(opt, noises[i]),
                                                              tag=(f'dataset {i}: ' if form == 'list' else ''))
            if err:
                return err
        return None

    return _calls_protocol(sets, others, call, values)


def _calls_protocol(sets, others, call, values):
    (raws_a, dss_a, id_a), (raws_b, dss_b, id_b) = sets
    snap_in = _inputs_snapshot(dss_a, others)
    r1 = call(dss_a)
    err = values(r1, raws_a, id_a)
    if err:
        return 'first call: ' + err
    err = _inputs_diff(dss_a, others, snap_in)
    if err:
        return 'inputs after the call: ' + err
    s1 = _snapshot(r1)
    r2 = call(dss_a)
    err = _snap_diff(r2, s1)
    if err:
        return 'the same call a second time gives another result: ' + err
    r3 = call(dss_b)
    err = values(r3, raws_b, id_b)
    if err:
        return 'call on a second dataset of the same shape and labels after a call on the first: ' + err
    for nm, r in (('first', r1), ('second', r2)):
        err = _snap_diff(r, s1)
        if err:
            return f'the result of the {nm} call, held by the caller, changed when the library was called again: ' + err
    # the caller owns what it got: it may overwrite it
    r1.dissimilarities[...] = -7.0
    for v in r1.pattern_descriptors.values():
        if isinstance(v, list) and len(v) > 1:
            v.reverse()
        elif isinstance(v, np.ndarray) and v.ndim == 1 and len(v) > 1:
            v[...] = v[::-1].copy()
    r4 = call(dss_a)
    err = values(r4, raws_a, id_a) or _inputs_diff(dss_a, others, snap_in)
    if err:
        return 'call after the caller has overwritten the result of an earlier call: ' + err
    err = _snap_diff(r2, s1)
    if err:
        return 'the result of the second call changed when the caller overwrote the result of the first: ' + err
    # the caller owns the dataset: new content in the same object
    for ds, ds_b in zip(dss_a, dss_b):
        ds.measurements[...] = ds_b.measurements
    r5 = call(dss_a)
    err = values(r5, raws_b, id_b)
    if err:
        return 'call after the caller has overwritten the measurements of the same dataset object: ' + err
    return None


def _movie_values(res, raw, ident, case, method, opt, noise, bins, tkey, key):
    frames = spec_frames(raw, ident, case['times'], bins)
    dis, names, err = _vectors(res, key, len(frames))
    if err:
        return err
    rows, why = _frame_assignment(res, [(0, t, d, m) for (t, d, m) in frames], tkey, False, float(case.get('tunit', 1.0)))
    if rows is None:
        return why
    for f, (t, distinct, means) in enumerate(frames):
        err = _check_names(names, distinct) or _cmp_vec(dis[rows[f]], names, distinct, means, method, _sopt(opt, noise),
                                                        tag=f'time {t!r}: ')
        if err:
            return err
    return None


def _calls_movie(case):
    method, opt = case['method'], case.get('opt', {})
    mc = dict(case, n_ds=0, check='values')
    ra, da, ia, _, noises, narg, bins, barg, tkey = _movie_case(mc)
    rb, db, ib, _, _, _, _, _, _ = _movie_case(dict(mc, seed=case['seed'] + 1000))
    key = 'cond' if case.get('descriptor', 'cond') is not None else 'oid'
    others = ([narg] if narg is not None else []) + (list(barg) if barg is not None else [])

    def call(dss):
        return _movie_call(mc, dss, opt, narg, barg, tkey)

    def values(res, raws, idents):
        return _movie_values(res, raws[0], idents[0], case, method, opt, noises[0], bins, tkey, key)

    return _calls_protocol([(ra, da, ia), (rb, db, ib)], others, call, values)


# =====================================================================================================================
# C01/hashseed: the property in a new interpreter with another PYTHONHASHSEED
# =====================================================================================================================
_CHILD = r"""
import json, sys, warnings
warnings.simplefilter('ignore')
import contracts.C01_c  # noqa: registers the oracles
from vf.rt.harness import ORACLES
out = []
for name, case in json.load(sys.stdin):
    try:
        r = ORACLES[name](case)
    except Exception as e:
        r = 'exception %s: %s' % (type(e).__name__, e)
    out.append(r)
print('C01-CHILD-RESULT ' + json.dumps(out))
"""


@oracle('C01/hashseed')
def orc_hashseed(case):
    """runs the oracles of case['batch'] = [[oracle name, case], ...] in a new interpreter started with
    PYTHONHASHSEED = case['hashseed'] (same library, same sys.path); every one of them must hold there too"""
    import os
    import subprocess
    import sys
    env = dict(os.environ)
    env['PYTHONHASHSEED'] = str(case['hashseed'])
    env['PYTHONPATH'] = os.pathsep.join(q for q in sys.path if q)
    env['PYTHONDONTWRITEBYTECODE'] = '1'
    proc = subprocess.run([sys.executable, '-c', _CHILD], input=json.dumps(case['batch']), capture_output=True, text=True,
                          env=env, timeout=600)
    line = [ln for ln in proc.stdout.splitlines() if ln.startswith('C01-CHILD-RESULT ')]
    if proc.returncode != 0 or not line:
        return f'interpreter with PYTHONHASHSEED={case["hashseed"]} failed (exit {proc.returncode}): {proc.stderr.strip()[-400:]}'
    results = json.loads(line[-1][len('C01-CHILD-RESULT '):])
    for (name, sub), r in zip(case['batch'], results):
        if r is not None:
            return f'with PYTHONHASHSEED={case["hashseed"]}: {name} on {json.dumps(sub)[:300]}: {r}'
    return None


# =====================================================================================================================
# domains
# =====================================================================================================================
def _surjective_sequences(max_len, max_cond):
    """all label sequences of length <= max_len that use exactly the condition indices 0..k-1, k <= max_cond"""
    for length in range(1, max_len + 1):
        for seq in itertools.product(range(min(max_cond, length)), repeat=length):
            k = max(seq) + 1
            if len(set(seq)) == k:
                yield list(seq)


def _arrangements(n_labels):
    """all ordered arrangements of non-empty subsets of range(n_labels)"""
    out = []
    for size in range(1, n_labels + 1):
        for sub in itertools.permutations(range(n_labels), size):
            out.append(list(sub))
    return out


def _random_labels(rs, n_cond, max_rep):
    reps = [int(rs.randint(1, max_rep + 1)) for _ in range(n_cond)]
    seq = [c for c in range(n_cond) for _ in range(reps[c])]
    return [seq[int(p)] for p in rs.permutation(len(seq))]


def tier_c(run, thorough):
    bds = []
    schemes = ['int', 'str', 'numstr', 'float', 'int-unsorted'] if thorough else ['int', 'str', 'numstr']
    if thorough:
        seqs = list(_surjective_sequences(6, 3)) + [q for q in _surjective_sequences(5, 4) if max(q) == 3]
    else:
        seqs = list(_surjective_sequences(4, 4))
    seq_txt = 'length <= 6 onto <= 3 conditions and of length <= 5 onto 4 conditions' if thorough else 'length <= 4 onto <= 4 conditions'
    kinds = ('pos', 'count', 'signed')

    # ---- values: exhaustive labelings -------------------------------------------------------------------------------
    bd = Bounded(run, 'C01/values-labelings', 'C01/calc_rdm/oracle/value-per-label-pair-is-formula-on-condition-means',
                 'ALL label sequences of %s (%d sequences) x %d label naming schemes %s x 11 '
                 'method/option combinations (euclidean, correlation, mahalanobis with / without SPD precision, poisson default / '
                 'given prior, each with / without remove_mean); 5 channels; data seeded (positive float / integer counts / signed '
                 'rotated); list / array descriptors rotated'
                 % (seq_txt, len(seqs), len(schemes), schemes), exhaustive=True, function='calc_rdm')
    i = 0
    for seq in seqs:
        for sch in schemes:
            for method, opt in GRID:
                i += 1
                kind = kinds[i % 3]
                if not _kind_ok(method, kind):
                    kind = 'count'
                bd.check(orc_values, dict(seed=i % 97, labels=seq, names=NAMES[sch], P=5, kind=kind, method=method, opt=opt,
                                          desc=('list', 'array')[i % 2], descriptor='cond', extra=bool(i % 3)),
                         _opt_label(method, opt), function='calc_rdm_' + method)
    bd.done()
    bds.append(bd)

    # ---- values: shapes ---------------------------------------------------------------------------------------------
    n_seed = 60 if thorough else 12
    bd = Bounded(run, 'C01/values-shapes', 'C01/calc_rdm/oracle/value-per-label-pair-is-formula-on-condition-means',
                 '%d seeds x 11 method/option combinations: 2..7 conditions, 1..4 repetitions each (unbalanced, shuffled), channels '
                 'in {1,2,3,4,6,8}, positive / count / signed data, 5 naming schemes, list / array descriptors, with a condition '
                 'descriptor and without (one condition per observation)' % n_seed, function='calc_rdm')
    for seed in range(n_seed):
        rs = np.random.RandomState(1000 + seed)
        n_cond = 2 + seed % 6
        seq = _random_labels(rs, n_cond, 1 + seed % 4)
        n_ch = (1, 2, 3, 4, 6, 8)[seed % 6] if seed % 7 else 3
        for g, (method, opt) in enumerate(GRID):
            kind = kinds[(seed + g) % 3]
            if not _kind_ok(method, kind):
                kind = 'pos'
            for descriptor in ('cond', None):
                if descriptor is None and len(seq) > 8:
                    continue
                bd.check(orc_values, dict(seed=seed, labels=seq, names=NAMES[list(NAMES)[seed % 5]], P=n_ch, kind=kind,
                                          method=method, opt=opt, desc=('list', 'array')[(seed + g) % 2],
                                          descriptor=descriptor, extra=True),
                         _opt_label(method, opt) + (',no-descriptor' if descriptor is None else ''),
                         function='calc_rdm_' + method)
    bd.done()
    bds.append(bd)

    # ---- descriptors ------------------------------------------------------------------------------------------------
    bd = Bounded(run, 'C01/descriptors', 'C01/calc_rdm/oracle/descriptors-on-the-right-rdm-and-condition',
                 'ALL label sequences of %s x %d naming schemes, method/option rotated over the 11 '
                 'combinations, list / array descriptors, with and without condition descriptor; obs descriptors: one constant '
                 'within conditions, one varying, one unique; dataset descriptors int and str'
                 % (seq_txt, len(schemes)), exhaustive=True, function='_build_rdms')
    i = 0
    for seq in seqs:
        for sch in schemes:
            for descriptor in ('cond', None):
                i += 1
                method, opt = GRID[i % len(GRID)]
                bd.check(orc_descriptors, dict(seed=i % 89, labels=seq, names=NAMES[sch], P=3, kind='pos', method=method, opt=opt,
                                               desc=('list', 'array')[(i // 2) % 2], descriptor=descriptor, extra=True),
                         'with-descriptor' if descriptor else 'no-descriptor', function='_build_rdms')
    bd.done()
    bds.append(bd)

    # ---- invariance -------------------------------------------------------------------------------------------------
    variants = ('permute-rows', 'reverse-rows', 'array-descriptors', 'float-data', 'fortran-order', 'no-extra-descriptors',
                'one-element-list')
    n_seed = 30 if thorough else 6
    bd = Bounded(run, 'C01/invariance', 'C01/calc_rdm/oracle/values-depend-only-on-the-multiset-of-observation-label-pairs',
                 '%d seeds x 7 variants %s x 8 method/option combinations (no remove_mean for the one-element list: option forwarding '
                 'is C01/list); 2..5 conditions, unbalanced, 3..5 channels' % (n_seed, list(variants)), function='calc_rdm')
    for seed in range(n_seed):
        rs = np.random.RandomState(2000 + seed)
        seq = _random_labels(rs, 2 + seed % 4, 3)
        for var in variants:
            for g, (method, opt) in enumerate(GRID):
                if method == 'poisson' and opt.get('remove_mean') or method == 'correlation' and opt.get('remove_mean') \
                        or (method == 'mahalanobis' and not opt.get('noise') and opt.get('remove_mean')):
                    continue
                if var == 'one-element-list' and opt.get('remove_mean'):
                    continue                      # option forwarding of the list form is checked by C01/list
                ic = var
                bd.check(orc_invariance, dict(seed=seed, labels=seq, names=NAMES[list(NAMES)[seed % 5]], P=3 + seed % 3,
                                              kind='count' if var == 'float-data' else ('pos', 'count')[seed % 2],
                                              method=method, opt=opt, variant=var), ic,
                         function='calc_rdm' if var == 'one-element-list' else 'average_dataset_by')
    bd.done()
    bds.append(bd)

    # ---- list with condition descriptor ----------------------------------------------------------------------------
    arr = _arrangements(3)
    bd = Bounded(run, 'C01/list', 'C01/calc_rdm[list]/oracle/rdm-i-is-formula-on-dataset-i-with-the-same-options',
                 'lists of 2 datasets over ALL ordered arrangements of non-empty subsets of 3 labels for each dataset (%d x %d; same '
                 'and differing condition sets, unbalanced repetitions) x 2 naming schemes x methods rotated over 8 combinations '
                 'without remove_mean; plus seeded lists of 1..4 datasets x 11+8 method/option combinations incl. remove_mean, '
                 'shared / per-dataset (list, tuple, 3-D array) precisions, differing channel counts, list / tuple container'
                 % (len(arr), len(arr)), exhaustive=True, function='calc_rdm')
    i = 0
    for a1 in arr:
        for a2 in arr:
            for sch in ('str', 'int-unsorted'):
                i += 1
                method, opt = GRID_NO_RM[i % len(GRID_NO_RM)]
                same = sorted(a1) == sorted(a2)
                # unbalanced repetitions: the first label of each dataset twice, interleaved
                l1 = a1 + a1[:1]
                l2 = a2[::-1] + a2[:1] + a2[:1]
                bd.check(orc_list, dict(seed=i % 83, datasets=[dict(labels=l1), dict(labels=l2)], names=NAMES[sch], P=4,
                                        kind=('pos', 'count')[i % 2], method=method, opt=opt, desc=('list', 'array')[i % 2]),
                         ('same-conditions' if same else 'differing-conditions'), function='from_partials')
    list_grid = GRID + [('mahalanobis', {'noise': 'per-dataset'}), ('mahalanobis', {'noise': 'per-dataset-tuple'}),
                        ('mahalanobis', {'noise': 'per-dataset-3d'}), ('mahalanobis', {'noise': 'per-dataset', 'remove_mean': True}),
                        # a precision handed over with a method that does not use it must not disturb the other options
                        ('poisson', {'prior': [2.0, 0.5], 'noise': 'spd'}), ('poisson', {'prior': [0.5, 2.0], 'noise': 'per-dataset'}),
                        ('euclidean', {'noise': 'spd'}), ('correlation', {'noise': 'per-dataset'})]
    n_seed = 24 if thorough else 6
    for seed in range(n_seed):
        rs = np.random.RandomState(3000 + seed)
        n_ds = 1 + seed % 4
        n_lab = 3 + seed % 3
        specs = []
        for d in range(n_ds):
            sub = [int(c) for c in rs.permutation(n_lab)[:int(rs.randint(2, n_lab + 1))]] if seed % 2 else list(range(n_lab))
            reps = [c for c in sub for _ in range(int(rs.randint(1, 4)))]
            specs.append(dict(labels=[reps[int(p)] for p in rs.permutation(len(reps))]))
        for g, (method, opt) in enumerate(list_grid):
            rm = bool(opt.get('remove_mean')) and method in ('euclidean', 'mahalanobis')
            ic = K_LIST_RM if rm else ('seeded,' + _opt_label(method, opt))
            bd.check(orc_list, dict(seed=seed, datasets=specs, names=NAMES[list(NAMES)[seed % 5]], P=3 + seed % 3,
                                    kind=('pos', 'count')[seed % 2], method=method, opt=opt, desc=('list', 'array')[g % 2],
                                    container=('list', 'tuple')[(seed + g) % 2]), ic, function='calc_rdm')
        # differing channel counts (different subjects have different numbers of voxels)
        specs_p = [dict(s, P=3 + (d % 3)) for d, s in enumerate(specs)]
        if n_ds > 1:
            for method, opt in (('euclidean', {}), ('correlation', {}), ('poisson', {}), ('mahalanobis', {'noise': 'per-dataset'})):
                ic = K_LIST_NOISE_P if opt.get('noise') else 'different-n-channel'
                bd.check(orc_list, dict(seed=seed, datasets=specs_p, names=NAMES['str'], P=3, kind='pos', method=method, opt=opt),
                         ic, function='calc_rdm')
    bd.done()
    bds.append(bd)

    # ---- list: dataset descriptors ----------------------------------------------------------------------------------
    bd = Bounded(run, 'C01/list-descriptors', 'C01/calc_rdm[list]/oracle/dataset-descriptors-on-the-right-rdm',
                 'lists of 1..4 datasets (same or differing condition sets), 4 methods, dataset descriptors: one differing per '
                 'dataset (subj), one common (sess)', function='calc_rdm')
    for seed in range(16 if thorough else 8):
        rs = np.random.RandomState(3500 + seed)
        n_ds = 1 + seed % 4
        specs = []
        for d in range(n_ds):
            sub = [int(c) for c in rs.permutation(4)[:int(rs.randint(2, 5))]] if seed % 2 else [0, 1, 2]
            specs.append(dict(labels=sub + sub[:1 + d % 2]))
        for method, opt in (('euclidean', {}), ('correlation', {}), ('mahalanobis', {'noise': 'spd'}), ('poisson', {})):
            bd.check(orc_list_descriptors, dict(seed=seed, datasets=specs, names=NAMES['str'], P=4, kind='pos', method=method,
                                                opt=opt), K_LIST_SINGLE if n_ds == 1 else 'several-datasets',
                     function='_merged_rdm_descriptors')
    bd.done()
    bds.append(bd)

    # ---- list without condition descriptor --------------------------------------------------------------------------
    bd = Bounded(run, 'C01/list-no-descriptor', 'C01/calc_rdm[list,no-descriptor]/oracle/rdm-i-is-formula-on-observations-of-dataset-i',
                 'lists of 1..3 datasets of 3..5 observations without condition descriptor x 8 method/option combinations: no obs '
                 'descriptor at all / only a non-unique one / a unique one in the same order / in differing order (array- and '
                 'list-typed) / with different values per dataset', function='calc_rdm')
    for seed in range(12 if thorough else 4):
        n_obs = 3 + seed % 3
        n_ds = 1 + seed % 3
        base = list(range(n_obs))
        perms = (base, base[::-1], base[1:] + base[:1])
        for g, (method, opt) in enumerate(GRID_NO_RM):
            common = dict(seed=seed, names=NAMES['int'], P=4, kind='pos', method=method, opt=opt)
            plain = [dict(labels=base) for _ in range(n_ds)]
            nonuniq = [dict(labels=[t % 2 for t in range(n_obs)]) for _ in range(n_ds)]
            differing = [dict(labels=base, oid_perm=perms[d % 3]) for d in range(n_ds)]
            bd.check(orc_list_nodesc, dict(common, datasets=plain, drop_oid=True), 'no-obs-descriptors', function='concat')
            bd.check(orc_list_nodesc, dict(common, datasets=nonuniq, drop_oid=True, with_cond=True),
                     'only-non-unique-obs-descriptor', function='concat')
            for desc in ('array', 'list'):
                bd.check(orc_list_nodesc, dict(common, datasets=plain, desc=desc), 'unique-obs-descriptor,same-order,' + desc,
                         function='concat')
                if n_ds > 1:
                    bd.check(orc_list_nodesc, dict(common, datasets=differing, desc=desc),
                             K_CONCAT_LIST if desc == 'list' else 'unique-obs-descriptor,differing-order,array', function='concat')
            if n_ds > 1:
                bd.check(orc_list_nodesc, dict(common, datasets=[dict(labels=base, oid_base=50 + 100 * d) for d in range(n_ds)],
                                               desc='array'), K_CONCAT_VALUES, function='concat')
    bd.done()
    bds.append(bd)

    # ---- sequences --------------------------------------------------------------------------------------------------
    bd = Bounded(run, 'C01/sequence', 'C01/calc_rdm/oracle/each-call-of-a-sequence-on-the-same-objects-equals-the-formula',
                 'ALL ordered pairs of steps from the 11-step alphabet on ONE dataset object x {condition descriptor, none} x '
                 '{float, integer data}; ALL ordered pairs from the 8-step alphabet without remove_mean (incl. ONE shared list of per-dataset precisions) on ONE list of 2 datasets; '
                 'ALL ordered pairs from 5 steps on ONE temporal dataset (movie); %d seeded sequences of length 6; shared '
                 'precision objects' % (40 if thorough else 8), exhaustive=True, function='calc_rdm')
    seq7 = [1, 0, 2, 0, 1, 1, 3]
    i = 0
    for s1 in GRID:
        for s2 in GRID:
            for descriptor in ('cond', None):
                for kind in ('pos', 'count'):
                    i += 1
                    bd.check(orc_sequence, dict(seed=i % 71, labels=seq7, names=NAMES['str'], P=5, kind=kind, descriptor=descriptor,
                                                form='single', steps=[list(s1), list(s2)], desc=('list', 'array')[i % 2]),
                             'single,' + ('descriptor' if descriptor else 'no-descriptor') + ',' + kind, function='_parse_input')
    list_steps = GRID_NO_RM + [('mahalanobis', {'noise': 'per-dataset'})]
    for s1 in list_steps:
        for s2 in list_steps:
            for descriptor in ('cond', None):
                i += 1
                bd.check(orc_sequence, dict(seed=i % 71, labels=seq7, names=NAMES['str'], P=4, kind=('pos', 'count')[i % 2],
                                            descriptor=descriptor, form='list', steps=[list(s1), list(s2)], desc='array'),
                         'list,' + ('descriptor' if descriptor else 'no-descriptor'), function='calc_rdm')
    movie_steps = [('euclidean', {}), ('correlation', {}), ('mahalanobis', {'noise': 'spd'}), ('poisson', {}),
                   ('poisson', {'prior': [2.0, 0.5]})]
    for s1 in movie_steps:
        for s2 in movie_steps:
            for descriptor in ('cond', None):
                i += 1
                bd.check(orc_sequence, dict(seed=i % 71, labels=[1, 0, 2, 0, 1], names=NAMES['str'], P=3, kind='pos',
                                            descriptor=descriptor, form='movie', steps=[list(s1), list(s2)], times=[0.0, 2.0, 1.0],
                                            bins=[[0.0, 1.0], [2.0]] if i % 2 else None), 'movie', function='calc_rdm_movie')
    for seed in range(40 if thorough else 8):
        rs = np.random.RandomState(4000 + seed)
        steps = [list(GRID[int(rs.randint(len(GRID)))]) for _ in range(6)]
        for descriptor in ('cond', None):
            bd.check(orc_sequence, dict(seed=seed, labels=_random_labels(rs, 3 + seed % 3, 2), names=NAMES[list(NAMES)[seed % 5]],
                                        P=2 + seed % 4, kind=('pos', 'count')[seed % 2], descriptor=descriptor, form='single',
                                        steps=steps), 'single,length-6', function='_parse_input')
    bd.done()
    bds.append(bd)

    # ---- movies -----------------------------------------------------------------------------------------------------
    movie_grid = [('euclidean', {}), ('correlation', {}), ('mahalanobis', {'noise': 'spd'}), ('mahalanobis', {}),
                  ('poisson', {}), ('poisson', {'prior': [2.0, 0.5]})]
    label_seqs = [[1, 0, 2, 0, 1], [0, 1], [2, 2, 0, 1, 0, 3]]
    tvals = [0.5, -1.0, 2.0, 3.5]
    cases = []          # (case, input_class)
    i = 0
    for n_t in range(1, 5 if thorough else 4):
        for perm in itertools.permutations(tvals[:n_t]):
            for seq in label_seqs:
                for method, opt in movie_grid:
                    i += 1
                    if not thorough and i % 3:
                        continue
                    cases.append((dict(seed=i % 61, labels=seq, names=NAMES[('str', 'int', 'numstr')[i % 3]], P=2 + i % 3,
                                       kind=('pos', 'count')[i % 2], times=list(perm), tdesc=('array', 'list')[(i // 2) % 2],
                                       method=method, opt=opt, descriptor=('cond', None)[(i // 3) % 2 if len(seq) < 6 else 0],
                                       desc=('list', 'array')[(i // 5) % 2],
                                       time_descriptor=('time', 'lat')[(i // 7) % 2]),
                                  'no-bins,' + ('sorted' if list(perm) == sorted(perm) else 'unsorted')))
    # bins: every assignment of 3 (thorough 4) time points to {bin 0, bin 1, both, none} with both bins non-empty
    for n_t in ((3, 4) if thorough else (3,)):
        for axis in (tvals[:n_t], tvals[:n_t][::-1], [1.0, 0.0, 3.0, 2.0][:n_t]):
            for assign in itertools.product((0, 1, 2, 3), repeat=n_t):
                b0 = [axis[k] for k in range(n_t) if assign[k] in (0, 2)]
                b1 = [axis[k] for k in range(n_t) if assign[k] in (1, 2)]
                if not b0 or not b1:
                    continue
                i += 1
                m0, m1 = sum(b0) / len(b0), sum(b1) / len(b1)
                if i % 4 == 1:
                    b0 = b0 + [7.25]          # a listed value that is no time point of the dataset: no member, no effect
                method, opt = movie_grid[i % len(movie_grid)]
                cases.append((dict(seed=i % 61, labels=label_seqs[0], names=NAMES[('str', 'int')[i % 2]], P=3, kind='pos',
                                   times=list(axis), tdesc='array', method=method, opt=opt, descriptor='cond',
                                   bins=[b0, b1], bins_type='array', time_descriptor='lat' if i % 5 == 0 else 'time'),
                              K_MOVIE_DUP if m0 == m1 else (K_MOVIE_BINS_TD if i % 5 == 0 else 'bins')))
    for j, (times, bins) in enumerate([([0.0, 1.0, 1.0], None), ([1.0, 0.0, 1.0], None), ([2.0, 2.0], None),
                                        ([0.0, 1.0, 2.0, 2.0], [[0.0, 1.0], [2.0]]), ([0.0, 1.0, 2.0, 3.0], [[0.0, 3.0], [1.0, 2.0]])]):
        for method, opt in movie_grid[:3]:
            cases.append((dict(seed=j, labels=label_seqs[0], names=NAMES['str'], P=3, kind='pos', times=times, tdesc='array',
                               method=method, opt=opt, descriptor='cond', bins=bins, bins_type='array'), K_MOVIE_DUP))
    for j in range(3):
        method, opt = movie_grid[j]
        cases.append((dict(seed=j, labels=label_seqs[0], names=NAMES['str'], P=1, kind='pos', times=[0.0, 1.0], tdesc='array',
                           method=method, opt={}, descriptor='cond'), K_MOVIE_P1))
        cases.append((dict(seed=j, labels=label_seqs[0], names=NAMES['str'], P=3, kind='pos', times=[0.0, 1.0, 2.0], tdesc='array',
                           method=method, opt=opt, descriptor='cond', bins=[[0.0, 1.0], [2.0]], bins_type='list'),
                      K_MOVIE_BINS_LISTS))
        cases.append((dict(seed=j, labels=label_seqs[0], names=NAMES['str'], P=3, kind='pos', times=[0.0, 1.0, 2.0], tdesc='list',
                           method=method, opt=opt, descriptor='cond', bins=[[0.0, 1.0], [2.0]], bins_type='array'),
                      K_MOVIE_BINS_TLIST))
    n_bins_cases = sum(1 for _, ic in cases if ic == 'bins')
    bd = Bounded(run, 'C01/movie', 'C01/calc_rdm_movie/oracle/movie-is-stack-of-per-time-point-rdms',
                 'ALL orders of 1..%d distinct time values x 3 label sequences (2..4 conditions) x 6 method/option combinations%s, '
                 'list / array time and obs descriptors, time descriptor "time" / other, with / without condition descriptor; '
                 'ALL assignments of %s time points (3 axis orders) to two possibly overlapping / non-covering non-empty bins, every fourth with an extra value that is no time point (%d '
                 'cases); duplicate time values / equal bin means; single channel; bins as lists; list-typed time descriptor with bins'
                 % (4 if thorough else 3, '' if thorough else ' (every third case)', '3 and 4' if thorough else '3', n_bins_cases),
                 exhaustive=bool(thorough), function='calc_rdm_movie')
    for case, ic in cases:
        bd.check(orc_movie, case, ic, function='calc_rdm_movie')
    bd.done()
    bds.append(bd)
    bd = Bounded(run, 'C01/movie-labels', 'C01/calc_rdm_movie/oracle/time-labels-describe-the-rdms',
                 'the cases of C01/movie that do not raise on the unchanged tree: the (binned) time value labels every RDM, the '
                 'dataset descriptor sits on every RDM, the measure names the method', function='calc_rdm_movie')
    for case, ic in cases:
        if ic in ('bins',) or ic.startswith('no-bins'):
            bd.check(orc_movie_labels, case, K_MOVIE_T1 if len(case['times']) == 1 else ic, function='calc_rdm_movie')
    bd.done()
    bds.append(bd)

    # ---- lists of temporal datasets ---------------------------------------------------------------------------------
    bd = Bounded(run, 'C01/movie-list', 'C01/calc_rdm_movie[list]/oracle/each-movie-with-the-same-options',
                 'lists of 1..3 temporal datasets (3 time points, sorted / unsorted) x {defaults with 4 methods, shared / per-dataset '
                 'precision, poisson prior, bins, other time descriptor}; values and labels', function='calc_rdm_movie')
    i = 0
    for n_ds in (1, 2, 3):
        for times in ([0.0, 1.0, 2.0], [2.0, 0.0, 1.0]):
            variants_ml = [('euclidean', {}, None, 'time', 'defaults'), ('correlation', {}, None, 'time', 'defaults'),
                           ('poisson', {}, None, 'time', 'defaults'), ('mahalanobis', {}, None, 'time', 'defaults'),
                           ('mahalanobis', {'noise': 'spd'}, None, 'time', 'noise-shared'),
                           ('mahalanobis', {'noise': 'per-dataset'}, None, 'time', 'noise-per-dataset'),
                           ('poisson', {'prior': [2.0, 0.5]}, None, 'time', K_MOVIE_LIST_PRIOR),
                           ('euclidean', {}, [[0.0, 1.0], [2.0]], 'time', K_MOVIE_LIST_BINS),
                           ('euclidean', {}, None, 'lat', 'time_descriptor,values')]
            for method, opt, bins, tkey, ic in variants_ml:
                i += 1
                case = dict(seed=i % 53, labels=[1, 0, 2, 0, 1], names=NAMES[('str', 'int')[i % 2]], P=3, kind='pos', times=times,
                            tdesc='array', method=method, opt=opt, descriptor='cond', bins=bins, bins_type='array',
                            time_descriptor=tkey, n_ds=n_ds)
                bd.check(orc_movie_list, case, ic, function='calc_rdm_movie')
                if ic in ('defaults', 'noise-shared', 'noise-per-dataset'):
                    bd.check(orc_movie_labels, case, K_LIST_SINGLE if n_ds == 1 else ic + ',labels', function='calc_rdm_movie')
                if tkey != 'time':
                    bd.check(orc_movie_labels, case, K_MOVIE_LIST_TD, function='calc_rdm_movie')
    bd.done()
    bds.append(bd)
    bds.extend(_sweep_domains(run, thorough))
    return bds


# =====================================================================================================================
# dimension sweeps (typed data, units, containers, dict orders, sizes, call sequences, hash seed)
# =====================================================================================================================
OB_VALUES = 'C01/calc_rdm/oracle/value-per-label-pair-is-formula-on-condition-means'
OB_DESC = 'C01/calc_rdm/oracle/descriptors-on-the-right-rdm-and-condition'
OB_INV = 'C01/calc_rdm/oracle/values-depend-only-on-the-multiset-of-observation-label-pairs'
OB_LIST = 'C01/calc_rdm[list]/oracle/rdm-i-is-formula-on-dataset-i-with-the-same-options'
OB_LIST_ND = 'C01/calc_rdm[list,no-descriptor]/oracle/rdm-i-is-formula-on-observations-of-dataset-i'
OB_MOVIE = 'C01/calc_rdm_movie/oracle/movie-is-stack-of-per-time-point-rdms'
OB_MOVIE_LABELS = 'C01/calc_rdm_movie/oracle/time-labels-describe-the-rdms'
OB_MOVIE_LIST = 'C01/calc_rdm_movie[list]/oracle/each-movie-with-the-same-options'
OB_CALLS = 'C01/calc_rdm/oracle/calls-do-not-influence-each-other-nor-inputs-nor-held-results'
OB_HASH = 'C01/calc_rdm/oracle/holds-in-a-new-interpreter-with-another-hash-seed'

# integer dtypes in which the squares / products of values of their own range do not fit
NARROW = ('int8', 'uint8', 'int16', 'uint16', 'int32', 'uint32')
K_NARROW_OVERFLOW = 'narrow-int-data,no-descriptor,euclidean'
K_VECTOR_DESC = 'vector-valued-extra-obs-descriptor,repetitions'


def _overflows(dt, method, opt, descriptor):
    """the class of the defect K_NARROW_OVERFLOW: integer arithmetic on the raw measurements in their own narrow dtype"""
    return (descriptor is None and dt in NARROW and not opt.get('remove_mean')
            and (method == 'euclidean' or (method == 'mahalanobis' and not opt.get('noise'))))


def _sweep_domains(run, thorough):
    bds = []
    scheme_names = list(NAMES)

    # ---- typed data -------------------------------------------------------------------------------------------------
    dtypes = ('int8', 'uint8', 'int16', 'uint16', 'int32', 'uint32', 'int64', 'float32') if thorough else ('uint8', 'int16', 'int32', 'float32')
    n_seed = 8 if thorough else 2
    bd = Bounded(run, 'C01/values-typed', OB_VALUES,
                 'measurements of dtype %s with values that use the range of the dtype (at most +-100000; float32: integers up to '
                 '2000 and generic positive values rounded to float32; tolerance for float32 1e-4 of the scale of the terms) x %d '
                 'seeds x 11 method/option combinations x with / without condition descriptor; single dataset, lists with one '
                 'dtype per dataset, movies' % (list(dtypes), n_seed), function='calc_rdm')
    pending_overflow = []
    for seed in range(n_seed):
        rs = np.random.RandomState(5000 + seed)
        seq = _random_labels(rs, 2 + seed % 4, 3)
        n_ch = (3, 5, 1, 8)[seed % 4]
        for dt in dtypes:
            for g, (method, opt) in enumerate(GRID):
                for descriptor in ('cond', None):
                    kinds_t = [('typedpos:' if method == 'poisson' else 'typed:') + dt]
                    if dt == 'float32':
                        kinds_t.append('pos')
                    for kind in kinds_t:
                        case = dict(seed=seed, labels=seq, names=NAMES[scheme_names[(seed + g) % 5]], P=n_ch, kind=kind, dtype=dt,
                                    method=method, opt=opt, desc=('list', 'array')[g % 2], descriptor=descriptor, extra=True)
                        if _overflows(dt, method, opt, descriptor):
                            pending_overflow.append(case)
                            continue
                        bd.check(orc_values, case, 'typed-data,' + dt + (',no-descriptor' if descriptor is None else ''),
                                 function='calc_rdm_' + method)
        # lists: one dtype per dataset
        specs = [dict(labels=_random_labels(rs, 3, 2), dtype=dtypes[(seed + d) % len(dtypes)]) for d in range(3)]
        specs[1]['dtype'] = 'float64'
        for method, opt in (('euclidean', {}), ('euclidean', {'remove_mean': True}), ('correlation', {}), ('mahalanobis', {'noise': 'spd'}),
                            ('poisson', {}), ('mahalanobis', {'noise': 'per-dataset'})):
            bd.check(orc_list, dict(seed=seed, datasets=specs, names=NAMES['str'], P=4,
                                    kind='typedpos:int8', method=method, opt=opt),       # 0..127: every dtype of the list holds them
                     'typed-data,list,one-dtype-per-dataset', function='calc_rdm')
        # movies
        for dt in dtypes[:4]:
            for method, opt in (('euclidean', {}), ('correlation', {}), ('mahalanobis', {'noise': 'spd'}), ('poisson', {})):
                bd.check(orc_movie, dict(seed=seed, labels=[1, 0, 2, 0, 1], names=NAMES['str'], P=3,
                                         kind=('typedpos:' if method == 'poisson' else 'typed:') + dt, dtype=dt, times=[0.0, 2.0, 1.0, 3.0],
                                         tdesc='array', method=method, opt=opt, descriptor='cond',
                                         bins=[[0.0, 1.0], [2.0, 3.0]] if seed % 2 else None, bins_type='array'),
                         'typed-data,movie,' + dt, function='calc_rdm_movie')
    if True:   # was pending triage: narrow-int-data,no-descriptor,euclidean -- repaired in /repo e11d6494
        for case in pending_overflow:
            bd.check(orc_values, case, K_NARROW_OVERFLOW, function='calc_rdm_euclidean')
    bd.done()
    bds.append(bd)

    # typed data as a metamorphic relation + memory layouts / containers / dict orders of the SAME data
    variants = ('small-int-data', 'readonly-data', 'strided-view', 'tuple-descriptors', 'object-array-descriptors',
                'small-dtype-array-descriptors', 'reversed-descriptor-dict', 'cond-last-descriptor-dict', 'permute-channels')
    n_seed = 12 if thorough else 3
    bd = Bounded(run, 'C01/invariance-sweeps', OB_INV,
                 '%d seeds x 9 variants %s (the same values as int8/int16/uint8 instead of float64, read-only array, strided view '
                 'into a larger array, obs descriptors as tuple / object array / int16-float32 array, other key orders of the '
                 'descriptor dicts, channels (and precision) permuted) x 8 method/option combinations; 2..5 conditions, '
                 'unbalanced, 3..5 channels' % (n_seed, list(variants)), function='calc_rdm')
    for seed in range(n_seed):
        rs = np.random.RandomState(2500 + seed)
        seq = _random_labels(rs, 2 + seed % 4, 3)
        for var in variants:
            for g, (method, opt) in enumerate(GRID):
                if method == 'poisson' and opt.get('remove_mean') or method == 'correlation' and opt.get('remove_mean') \
                        or (method == 'mahalanobis' and not opt.get('noise') and opt.get('remove_mean')):
                    continue
                kind = ('pos', 'count')[seed % 2]
                if var == 'small-int-data':
                    kind = ('typedpos:' if method == 'poisson' else 'typed:') + ('int16', 'int8', 'uint8')[seed % 3]
                bd.check(orc_invariance, dict(seed=seed, labels=seq, names=NAMES[scheme_names[seed % 5]], P=3 + seed % 3, kind=kind,
                                              method=method, opt=opt, variant=var), var, function='average_dataset_by')
    bd.done()
    bds.append(bd)

    # ---- units ------------------------------------------------------------------------------------------------------
    scales = (1e-26, 1e-18, 1e-12, 1e-9, 1e-6, 1e-3, 1e3, 1e6, 1e9, 1e12, 2.0 ** -40) if thorough else (1e-26, 1e-12, 1e-6, 1e6, 1e12)
    n_seed = 4 if thorough else 1
    bd = Bounded(run, 'C01/values-units', OB_VALUES,
                 'the same O(1) numbers in another unit: data x %s (precision x 1/scale^2 or left O(1); poisson prior rate x scale); '
                 'the reported value / scale^degree of the method must equal the formula on the O(1) numbers to 1e-9 x %d seeds x 11 '
                 'method/option combinations x with / without condition descriptor; lists with one unit per dataset; movies; '
                 'condition labels that differ by 1e-13 / one ulp / 1 in 1e12 / beyond 2^53 / after 40 equal characters'
                 % (list(scales), n_seed), function='calc_rdm')
    i = 0
    for s_ in scales:
        for seed in range(n_seed):
            rs = np.random.RandomState(6000 + seed)
            seq = _random_labels(rs, 3 + seed % 3, 2)
            for method, opt in GRID:
                for descriptor in ('cond', None):
                    for nscale in ((1.0 / (s_ * s_), None) if opt.get('noise') else (None,)):
                        i += 1
                        kind = ('pos', 'signed')[i % 2]
                        if not _kind_ok(method, kind):
                            kind = 'pos'
                        bd.check(orc_values, dict(seed=seed, labels=seq, names=NAMES[scheme_names[i % 5]], P=2 + i % 4, kind=kind,
                                                  scale=s_, nscale=nscale, method=method, opt=opt, desc=('list', 'array')[i % 2],
                                                  descriptor=descriptor, extra=True),
                                 'units,data-x-%g' % s_, function='calc_rdm_' + method)
            # one unit per dataset of a list (no poisson: its prior rate is one number for the whole call)
            specs = [dict(labels=_random_labels(rs, 3, 2), scale=(s_, 1.0, 1.0 / s_)[d]) for d in range(3)]
            for method, opt in (('euclidean', {}), ('euclidean', {'remove_mean': True}), ('correlation', {}), ('mahalanobis', {'noise': 'spd'}),
                                ('mahalanobis', {'noise': 'per-dataset'})):
                bd.check(orc_list, dict(seed=seed, datasets=specs, names=NAMES['str'], P=4, kind='pos', method=method, opt=opt),
                         'units,list,one-unit-per-dataset', function='calc_rdm')
                bd.check(orc_list_nodesc, dict(seed=seed, datasets=[dict(labels=[0, 1, 2, 3], scale=(s_, 1.0, 1.0 / s_)[d]) for d in range(3)],
                                               names=NAMES['int'], P=4, kind='pos', method=method, opt=opt, desc='array'),
                         'units,list-no-descriptor,one-unit-per-dataset', function='concat')
            for method, opt in (('euclidean', {}), ('correlation', {}), ('mahalanobis', {'noise': 'spd'}), ('poisson', {}),
                                ('poisson', {'prior': [2.0, 0.5]})):
                bd.check(orc_movie, dict(seed=seed, labels=[1, 0, 2, 0, 1], names=NAMES['str'], P=3, kind='pos', scale=s_,
                                         nscale=1.0 / (s_ * s_) if opt.get('noise') else None, times=[0.0, 2.0, 1.0], tdesc='array',
                                         method=method, opt=opt, descriptor='cond', bins=[[0.0, 1.0], [2.0]] if seed % 2 else None,
                                         bins_type='array'), 'units,movie,data-x-%g' % s_, function='calc_rdm_movie')
    # labels in extreme units
    seqs_u = list(_surjective_sequences(5 if thorough else 4, 3))
    i = 0
    for sch, nm in NAMES_UNITS.items():
        for seq in seqs_u:
            for method, opt in (('euclidean', {}), ('correlation', {}), ('mahalanobis', {'noise': 'spd'}), ('poisson', {})):
                i += 1
                if not thorough and i % 2:
                    continue
                case = dict(seed=i % 97, labels=seq, names=nm, P=4, kind='pos', method=method, opt=opt,
                            desc=('list', 'array')[(i // 2) % 2], descriptor='cond', extra=True)
                bd.check(orc_values, case, 'labels,' + sch, function='get_unique_inverse')
    for sch, nm in NAMES_UNITS.items():
        for a1, a2 in (([0, 1, 2], [2, 1]), ([1, 0], [0, 2]), ([2, 0, 1], [1, 0, 2])):
            for method, opt in (('euclidean', {}), ('mahalanobis', {'noise': 'per-dataset'})):
                bd.check(orc_list, dict(seed=len(sch), datasets=[dict(labels=a1 + a1[:1]), dict(labels=a2[::-1] + a2[:1])], names=nm,
                                        P=4, kind='pos', method=method, opt=opt, desc='array'), 'labels,list,' + sch,
                         function='from_partials')
    bd.done()
    bds.append(bd)

    bd = Bounded(run, 'C01/descriptors-units', OB_DESC,
                 'ALL label sequences of length <= %d onto <= 3 conditions x 5 label schemes whose values differ by 1e-13 / one ulp '
                 '/ 1 in 1e12 / beyond 2^53 / after 40 equal characters, with / without condition descriptor'
                 % (5 if thorough else 4), exhaustive=True, function='_build_rdms')
    i = 0
    for sch, nm in NAMES_UNITS.items():
        for seq in seqs_u:
            for descriptor in ('cond', None):
                i += 1
                method, opt = GRID[i % len(GRID)]
                bd.check(orc_descriptors, dict(seed=i % 89, labels=seq, names=nm, P=3, kind='pos', method=method, opt=opt,
                                               desc=('list', 'array')[(i // 2) % 2], descriptor=descriptor, extra=True),
                         'labels,' + sch, function='_build_rdms')
    bd.done()
    bds.append(bd)

    # ---- time axis in other units / of other types -------------------------------------------------------------------
    movie_grid = [('euclidean', {}), ('correlation', {}), ('mahalanobis', {'noise': 'spd'}), ('poisson', {})]
    tunits = (1e-12, 1e-9, 1e-3, 1e3, 1e9) if thorough else (1e-9, 1e9)
    bd = Bounded(run, 'C01/movie-time-units', OB_MOVIE,
                 'time axes in units %s (ALL orders of 3 time values, with and without two bins), integer-typed (int64 / int32) and '
                 'tuple time descriptors, other key order of the descriptor dicts' % (list(tunits),), function='calc_rdm_movie')
    bd_l = Bounded(run, 'C01/movie-time-units-labels', OB_MOVIE_LABELS,
                   'the cases of C01/movie-time-units: the (binned) time value labels every RDM (to 1e-12 of the unit of the axis), the '
                   'dataset descriptor sits on every RDM', function='calc_rdm_movie')
    i = 0
    for tu in tunits:
        for perm in itertools.permutations([0.5, -1.0, 2.25]):      # no two bins of two / one of them have the same mean
            times = [v * tu for v in perm]
            for bins in (None, [[times[0], times[2]], [times[1]]]):
                i += 1
                method, opt = movie_grid[i % 4]
                case = dict(seed=i % 61, labels=[1, 0, 2, 0, 1], names=NAMES[('str', 'int')[i % 2]], P=3, kind='pos', times=times,
                            tdesc='array', method=method, opt=opt, descriptor=('cond', None)[(i // 2) % 2], bins=bins, bins_type='array',
                            tunit=tu, time_descriptor=('time', 'lat')[(i // 3) % 2] if bins is None else 'time')
                ic = 'time-unit-%g' % tu + (',bins' if bins else '')
                bd.check(orc_movie, case, ic, function='calc_rdm_movie')
                bd_l.check(orc_movie_labels, case, ic, function='calc_rdm_movie')
    for tdesc in ('int-array', 'int32-array', 'tuple'):
        for perm in itertools.permutations([3.0, 0.0, 7.0]):
            for bins in (None, [[perm[0], perm[2]], [perm[1]]]):
                i += 1
                method, opt = movie_grid[i % 4]
                case = dict(seed=i % 61, labels=[1, 0, 2, 0, 1], names=NAMES['str'], P=3, kind='pos', times=list(perm), tdesc=tdesc,
                            method=method, opt=opt, descriptor='cond', bins=bins, bins_type='array',
                            tdict_order=('reversed', None)[i % 2], time_descriptor=('time', 'lat')[(i // 3) % 2] if bins is None else 'time')
                if tdesc == 'tuple' and bins is not None:
                    continue            # list-typed time descriptor with bins: input class K_MOVIE_BINS_TLIST of the movie domain
                ic = 'time-descriptor-' + tdesc + (',bins' if bins else '')
                bd.check(orc_movie, case, ic, function='calc_rdm_movie')
                bd_l.check(orc_movie_labels, case, ic, function='calc_rdm_movie')
    bd.done()
    bd_l.done()
    bds.extend([bd, bd_l])

    # ---- containers, key orders, vector-valued descriptors ------------------------------------------------------------
    seqs_c = [[1, 0, 2, 0, 1, 1, 3], [0, 1, 2], [2, 0, 1, 0], [0, 0, 1], [1, 2, 0, 3, 4], [3, 3, 0, 2, 1, 0, 3, 2]]
    if thorough:
        seqs_c = seqs_c + [q for q in _surjective_sequences(5, 3) if len(q) == 5]
    bd = Bounded(run, 'C01/containers', OB_VALUES,
                 '%d label sequences x obs descriptors as tuple / object array / int16-float32-typed array x 4 key orders of the '
                 'descriptor dicts x 3 naming schemes x method/option rotated over 11 combinations x with / without condition '
                 'descriptor (values and descriptors); a vector-valued (2-D) extra obs descriptor; lists whose datasets differ in '
                 'container type and key order' % len(seqs_c), function='calc_rdm')
    bd_d = Bounded(run, 'C01/containers-descriptors', OB_DESC, 'the cases of C01/containers: descriptors on the right condition / RDM',
                   function='_build_rdms')
    pending_vec = []
    i = 0
    for seq in seqs_c:
        for desc in ('tuple', 'object-array', 'small-dtype-array'):
            for order in (None, 'reversed', 'oid-first', 'cond-last'):
                for sch in ('int-unsorted', 'str', 'float'):
                    for descriptor in ('cond', None):
                        i += 1
                        method, opt = GRID[i % len(GRID)]
                        case = dict(seed=i % 97, labels=seq, names=NAMES[sch], P=2 + i % 3, kind=('pos', 'count')[i % 2], method=method,
                                    opt=opt, desc=desc, obs_order=order, descriptor=descriptor, extra=True)
                        ic = 'obs-descriptors-as-' + desc + (',dict-order-' + order if order else '')
                        bd.check(orc_values, case, ic, function='calc_rdm_' + method)
                        bd_d.check(orc_descriptors, case, ic, function='_build_rdms')
        for desc in ('list', 'array', 'tuple'):
            for descriptor in ('cond', None):
                for g, (method, opt) in enumerate(GRID_NO_RM):
                    i += 1
                    case = dict(seed=i % 97, labels=seq, names=NAMES['str'], P=3, kind='pos', method=method, opt=opt, desc=desc,
                                descriptor=descriptor, extra=True, extra2d=True, obs_order=(None, 'reversed')[g % 2])
                    if descriptor is not None and len(set(seq)) != len(seq):
                        pending_vec.append(case)
                        continue
                    ic = 'vector-valued-extra-obs-descriptor,' + ('no-repetition' if descriptor else 'no-descriptor')
                    bd.check(orc_values, case, ic, function='_build_rdms')
                    bd_d.check(orc_descriptors, case, ic, function='_build_rdms')
    if True:   # was pending triage: vector-valued-extra-obs-descriptor,repetitions -- repaired in /repo d8538afc
        for case in pending_vec:
            bd.check(orc_values, case, K_VECTOR_DESC, function='_build_rdms')
            bd_d.check(orc_descriptors, case, K_VECTOR_DESC, function='_build_rdms')
    # lists whose datasets differ in container type and key order
    for seed in range(8 if thorough else 3):
        rs = np.random.RandomState(7000 + seed)
        descs = ('tuple', 'array', 'object-array', 'list', 'small-dtype-array')
        orders = (None, 'reversed', 'cond-last', 'oid-first')
        specs = [dict(labels=_random_labels(rs, 3 + seed % 2, 2), desc=descs[(seed + d) % 5], obs_order=orders[(seed + d) % 4])
                 for d in range(2 + seed % 3)]
        if seed % 2:
            specs[-1]['labels'] = [c for c in specs[-1]['labels'] if c != 0] or [1]
        plain = [dict(labels=[0, 1, 2, 3], desc=('array', 'small-dtype-array')[d % 2], obs_order=orders[(seed + d) % 4]) for d in range(3)]
        for g, (method, opt) in enumerate(GRID_NO_RM + [('euclidean', {'remove_mean': True}), ('mahalanobis', {'noise': 'per-dataset-tuple'})]):
            bd.check(orc_list, dict(seed=seed, datasets=specs, names=NAMES[('str', 'int-unsorted', 'float')[seed % 3]], P=3 + seed % 2,
                                    kind='pos', method=method, opt=opt, extra=True, container=('list', 'tuple')[g % 2]),
                     'list,containers-and-dict-orders-differ', function='from_partials')
            bd.check(orc_list_nodesc, dict(seed=seed, datasets=plain, names=NAMES['int'], P=4, kind='pos', method=method, opt=opt,
                                           extra=True), 'list-no-descriptor,dict-orders-differ', function='concat')
    bd.done()
    bd_d.done()
    bds.extend([bd, bd_d])

    # ---- sizes ------------------------------------------------------------------------------------------------------
    sizes = [(12, 3, 24), (25, 1, 7)] + ([(40, 3, 64), (64, 2, 5), (3, 40, 100)] if thorough else [])
    bd = Bounded(run, 'C01/values-large', OB_VALUES,
                 '(conditions, max repetitions, channels) in %s x 11 method/option combinations x with / without condition descriptor '
                 '(without: at most 60 observations); lists of 6 datasets; movies of %d time points with %d bins'
                 % (sizes, 12 if thorough else 8, 4 if thorough else 3), function='calc_rdm')
    for j, (n_cond, max_rep, n_ch) in enumerate(sizes):
        rs = np.random.RandomState(8000 + j)
        seq = _random_labels(rs, n_cond, max_rep)
        for g, (method, opt) in enumerate(GRID):
            kind = kinds_ok(method, g + j)
            for descriptor in ('cond', None):
                if descriptor is None and len(seq) > 60:
                    continue
                nm = list(range(100, 100 - n_cond, -1)) if (g + j) % 2 else ['c%03d' % ((7 * c) % n_cond) for c in range(n_cond)]
                bd.check(orc_values, dict(seed=j, labels=seq, names=nm, P=n_ch, kind=kind, method=method, opt=opt,
                                          desc=('list', 'array')[g % 2], descriptor=descriptor, extra=True),
                         'large,%dx%dx%d' % (n_cond, max_rep, n_ch), function='calc_rdm_' + method)
    rs = np.random.RandomState(8100)
    specs = [dict(labels=_random_labels(rs, 7, 2)) for _ in range(6)]
    for d in (1, 4):
        specs[d]['labels'] = [c for c in specs[d]['labels'] if c not in (d, d + 1)]
    for method, opt in GRID + [('mahalanobis', {'noise': 'per-dataset'})]:
        bd.check(orc_list, dict(seed=1, datasets=specs, names=NAMES['str'], P=9, kind='pos', method=method, opt=opt), 'large,list-of-6',
                 function='calc_rdm')
    n_t = 12 if thorough else 8
    times = [float(v) for v in np.random.RandomState(8200).permutation(n_t)]
    nb = 4 if thorough else 3
    for g, (method, opt) in enumerate(movie_grid):
        for bins in (None, [times[b::nb] for b in range(nb)]):
            bd.check(orc_movie, dict(seed=g, labels=[1, 0, 2, 0, 1, 3, 3, 2], names=NAMES['str'], P=6, kind='pos', times=times, tdesc='array',
                                     method=method, opt=opt, descriptor='cond', bins=bins, bins_type='array'),
                     'large,movie' + (',bins' if bins else ''), function='calc_rdm_movie')
    bd.done()
    bds.append(bd)

    # ---- call sequences ---------------------------------------------------------------------------------------------
    bd = Bounded(run, 'C01/calls', OB_CALLS,
                 'two datasets A, B of the same shape / labels / descriptors and different content; protocol: call(A) = formula, inputs '
                 '(measurements, descriptors, precision, bins) unchanged, call(A) again identical, call(B) = formula on B, held results '
                 'unchanged, caller overwrites a held result -> call(A) = formula, caller overwrites A.measurements with B -> formula on '
                 'B; single dataset x 11 method/option combinations x with / without descriptor x float / integer data; list of 3 '
                 'datasets x 10 combinations (shared / per-dataset precision); movie x 5 combinations x bins / none',
                 function='calc_rdm')
    seq7 = [1, 0, 2, 0, 1, 1, 3]
    i = 0
    for method, opt in GRID:
        for descriptor in ('cond', None):
            for kind in ('pos', 'count', 'typed:int16'):
                i += 1
                if kind.startswith('typed'):
                    if _overflows('int16', method, opt, descriptor) or not thorough and i % 2:
                        continue
                    if method == 'poisson':
                        kind = 'typedpos:int16'
                bd.check(orc_calls, dict(seed=i % 71, form='single', labels=seq7, names=NAMES[('str', 'int-unsorted')[i % 2]], P=4, kind=kind,
                                         dtype='int16' if kind.startswith('typed') else None, method=method, opt=opt,
                                         descriptor=descriptor, desc=('list', 'array')[i % 2]),
                         'single,' + ('descriptor' if descriptor else 'no-descriptor'), function='calc_rdm_' + method)
    for method, opt in GRID_NO_RM + [('mahalanobis', {'noise': 'per-dataset'}), ('euclidean', {'remove_mean': True})]:
        for descriptor in ('cond', None):
            i += 1
            bd.check(orc_calls, dict(seed=i % 71, form='list', labels=seq7, names=NAMES['str'], P=4, kind=('pos', 'count')[i % 2],
                                     method=method, opt=opt, descriptor=descriptor, desc='array'),
                     'list,' + ('descriptor' if descriptor else 'no-descriptor'), function='calc_rdm')
    for method, opt in [('euclidean', {}), ('correlation', {}), ('mahalanobis', {'noise': 'spd'}), ('poisson', {}),
                        ('poisson', {'prior': [2.0, 0.5]})]:
        for descriptor in ('cond', None):
            for bins in (None, [[0.0, 1.0], [2.0]]):
                i += 1
                bd.check(orc_calls, dict(seed=i % 71, form='movie', labels=[1, 0, 2, 0, 1], names=NAMES['str'], P=3, kind='pos',
                                         method=method, opt=opt, descriptor=descriptor, times=[0.0, 2.0, 1.0], tdesc='array', bins=bins,
                                         bins_type='array'), 'movie' + (',bins' if bins else ''), function='calc_rdm_movie')
    bd.done()
    bds.append(bd)

    # ---- another hash seed ------------------------------------------------------------------------------------------
    batch = []
    i = 0
    for seq in ([1, 0, 2, 0, 1, 1, 3], [2, 0, 1], [0, 1, 1, 2, 0]):
        for sch in ('str', 'numstr', 'int-unsorted', 'float'):
            for descriptor in ('cond', None):
                i += 1
                method, opt = GRID[i % len(GRID)]
                case = dict(seed=i, labels=seq, names=NAMES[sch], P=3, kind='pos', method=method, opt=opt, desc=('list', 'array')[i % 2],
                            descriptor=descriptor, extra=True)
                batch.append(['C01/values', case])
                batch.append(['C01/descriptors', case])
    for a1, a2 in (([0, 1, 2], [2, 1]), ([1, 0], [0, 2]), ([2, 0, 1], [1, 0, 2]), ([1, 2], [2, 0])):
        for sch in ('str', 'numstr', 'float'):
            i += 1
            method, opt = GRID_NO_RM[i % len(GRID_NO_RM)]
            case = dict(seed=i, datasets=[dict(labels=a1 + a1[:1]), dict(labels=a2[::-1] + a2[:1]), dict(labels=a1[::-1])],
                        names=NAMES[sch], P=4, kind='pos', method=method, opt=opt, desc=('list', 'array')[i % 2])
            batch.append(['C01/list', case])
            batch.append(['C01/list-descriptors', dict(case, method='euclidean', opt={})])
    batch.append(['C01/list-no-descriptor', dict(seed=1, names=NAMES['int'], P=4, kind='pos', method='euclidean', opt={},
                                                 datasets=[dict(labels=[0, 1, 2, 3], oid_perm=q) for q in ([0, 1, 2, 3], [3, 2, 1, 0])],
                                                 desc='array')])
    for k, (method, opt) in enumerate(movie_grid):
        mcase = dict(seed=k, labels=[1, 0, 2, 0, 1], names=NAMES['str'], P=3, kind='pos', times=[0.5, -1.0, 2.0], tdesc='array',
                     method=method, opt=opt, descriptor='cond', bins=[[0.5, 2.0], [-1.0]] if k % 2 else None, bins_type='array')
        batch.append(['C01/movie', mcase])
        batch.append(['C01/movie-labels', mcase])
        batch.append(['C01/movie-list', dict(mcase, bins=None, n_ds=2)])
    batch.append(['C01/calls', dict(seed=3, form='list', labels=seq7, names=NAMES['str'], P=4, kind='pos', method='euclidean', opt={},
                                    descriptor='cond', desc='array')])
    hashseeds = (1, 2, 3, 31337, 4294967295) if thorough else (1, 31337)
    bd = Bounded(run, 'C01/hashseed', OB_HASH,
                 'new interpreters with PYTHONHASHSEED in %s (this process runs with %s), each running %d cases of the oracles '
                 'values / descriptors / list / list-descriptors / list-no-descriptor / movie / movie-labels / movie-list / calls with '
                 'str, numeric-str, int and float labels' % (list(hashseeds), __import__('os').environ.get('PYTHONHASHSEED', 'unset'),
                                                            len(batch)), function='calc_rdm')
    for hs in hashseeds:
        bd.check(orc_hashseed, dict(hashseed=hs, batch=batch), 'PYTHONHASHSEED=%d' % hs, function='calc_rdm')
    bd.done()
    bds.append(bd)
    return bds


def kinds_ok(method, k):
    kind = ('pos', 'count', 'signed')[k % 3]
    return kind if _kind_ok(method, kind) else 'pos'
