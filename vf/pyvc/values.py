"""Value domain of engine A (pyvc).

Concrete Python values (int, float, str, bool, None, tuples) are used as they are; everything
else is one of the classes below.  All symbolic content is z3 expressions of sort Int, Real,
Bool or the uninterpreted universe V.
"""
import itertools
import math

import z3

V = z3.DeclareSort('V')
_counter = itertools.count()


def fresh_name(prefix):
    return f'{prefix}!{next(_counter)}'


class Undecided(Exception):
    """The engine cannot model something: the obligation is undecided, never a violation."""


class SV:
    """symbolic scalar / opaque value.  kind in {'int','real','bool','val'}"""
    __slots__ = ('z', 'kind', 'app', 'ratio', 'tag', 'shape', 'frozen')

    def __init__(self, z, kind, app=None, ratio=None, tag=None, shape=None):
        self.shape = shape      # tuple of python ints / z3 Int exprs for ndarray-like opaque values
        self.frozen = False     # inputs of the function under verification are frozen: in-place stores into them are not modelled
        self.z = z
        self.kind = kind
        self.app = app          # (fname, [engine args]) when created by an uninterpreted application
        self.ratio = ratio      # (num, den) z3 Int exprs when the value is a quotient of two integers
        self.tag = tag          # python type tag for isinstance ('ndarray', 'list', 'float', ...)

    def __repr__(self):
        return f'SV<{self.kind}:{self.z}>'


class Obj:
    """record-like object with an identity term; fields hold known / overridden attributes"""
    def __init__(self, term, cls=None, fields=None, app=None):
        self.term = term
        self.cls = cls
        self.fields = dict(fields or {})
        self.app = app
        self.birth = next(_counter)

    def __repr__(self):
        return f'Obj<{self.cls}:{self.term}>'


class SeqV:
    """sequence (list / tuple / 1-D array).

    Either concrete-backed (`items` is a python list of engine values) or symbolic:
    `length` (z3 Int expr), `elem(i)` -> engine value, `mem(x)` -> z3 Bool (closed-form membership,
    x is a z3 expr of the element sort), `inv(y)` -> z3 Int index of element y (only for
    sequences with pairwise distinct elements).
    """
    def __init__(self, items=None, length=None, elem=None, mem=None, inv=None, kind='list',
                 esort='val', canon=False, term=None):
        self.items = items
        self.length = length
        self.elem = elem
        self.mem = mem
        self.inv = inv
        self.kind = kind        # 'list' | 'tuple' | 'array'
        self.esort = esort      # 'int' | 'val'
        self.canon = canon      # sorted & unique => determined by its element set
        self.term = term        # identity term if the sequence came from an opaque value
        self.filt = None        # filter sequences: dict(n, keep, src, pos) (core.make_filter)
        self.blocks = None      # concatenation of varying-length blocks: dict(n, off, blen, block, n0)
        self.rows2d = None      # 2-D array given as a sequence of equally long rows (np.array(list of 1-D arrays))
        self.row_len = None
        self.shared_elems = False   # a shallow copy of this list exists: element lists may be aliased
        self.birth = next(_counter)

    @property
    def concrete(self):
        return self.items is not None

    def zlen(self):
        if self.items is not None:
            return z3.IntVal(len(self.items))
        return self.length

    def become(self, other):
        """in-place replacement (mutation of a list object)"""
        for a in ('items', 'length', 'elem', 'mem', 'inv', 'esort', 'canon', 'term', 'filt', 'blocks'):
            setattr(self, a, getattr(other, a))

    def __repr__(self):
        if self.items is not None:
            return f'Seq{self.items!r}'
        return f'Seq<len={self.length}>'


class ArrV:
    """n-d array under construction: identity term (bumped on every mutation), symbolic shape and
    pointwise store clauses.  A clause is (bound, guard, index, value): for all values of the bound
    variables (list of (z3 const, lo, hi)) with `guard`, cell `index` (tuple of z3 Int expr or
    None for a full slice) holds `value` (engine value, may mention the bound variables).
    Later clauses win."""
    def __init__(self, term, shape, fill=None):
        self.term = term
        self.shape = tuple(shape)
        self.fill = fill
        self.clauses = []
        self.birth = next(_counter)

    def __repr__(self):
        return f'Arr<{self.term} shape={self.shape} clauses={len(self.clauses)}>'


class CaseV:
    """piecewise value: list of (guard z3 Bool, engine value); guards are exhaustive & exclusive
    under the path condition that produced them"""
    def __init__(self, cases):
        self.cases = cases

    def __repr__(self):
        return f'Case<{len(self.cases)}>'


class DictV:
    """python dict with concrete keys"""
    def __init__(self, d=None):
        self.d = dict(d or {})
        self.birth = next(_counter)

    def __repr__(self):
        return f'Dict{self.d!r}'


class StrV:
    """structured string: a sequence of literal pieces (python str) and ATOMS.  An atom is an arbitrary NON-EMPTY
    alphanumeric token (z3 constant of sort V; no '_', '-', '.', '/' inside) -- the BIDS value grammar.  Splitting at a
    separator outside that alphabet, prefix tests and replacement of literals containing such a separator are decided
    structurally, for all values of the atoms."""
    def __init__(self, parts):
        out = []
        for p in parts:
            if isinstance(p, StrV):
                ps = p.parts
            else:
                ps = [p]
            for q in ps:
                if isinstance(q, str):
                    if not q:
                        continue
                    if out and isinstance(out[-1], str):
                        out[-1] = out[-1] + q
                    else:
                        out.append(q)
                else:
                    out.append(q)
        self.parts = out

    def key(self):
        return tuple(p if isinstance(p, str) else ('atom', str(p.z)) for p in self.parts)

    def __repr__(self):
        return 'Str<' + ''.join(p if isinstance(p, str) else '{' + str(p.z) + '}' for p in self.parts) + '>'


class Poison:
    def __init__(self, why):
        self.why = why


class FuncV:
    """callable value: repo function (qualname + ast), library function (dotted name), bound method,
    class constructor or lambda"""
    def __init__(self, kind, name, node=None, module=None, self_val=None, closure=None):
        self.kind = kind        # 'repo' | 'lib' | 'method' | 'class' | 'lambda' | 'builtin' | 'libobj'
        self.name = name
        self.node = node
        self.module = module
        self.self_val = self_val
        self.closure = closure

    def __repr__(self):
        return f'Func<{self.kind}:{self.name}>'


class ModV:
    """module object (numpy, tqdm, ...)"""
    def __init__(self, name):
        self.name = name

    def __repr__(self):
        return f'Mod<{self.name}>'


def is_nan(x):
    return isinstance(x, float) and math.isnan(x)
