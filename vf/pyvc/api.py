"""Verification harness of engine A: run a function under contract, collect obligations."""
import os
import time
import traceback

import z3

from .values import V, SV, Obj, SeqV, ArrV, CaseV, DictV, FuncV, Undecided, fresh_name
from .core import Contract, PyRaise, Path
from .interp import Interp, ContractPre, lst_copy
from . import solve


class Eng(Interp):
    def deepcopy(self, x):
        if isinstance(x, SeqV):
            c = lst_copy(x)
            if c.items is not None:
                c.items = [self.deepcopy(i) for i in c.items]
            elif c.elem is not None:
                old = c.elem
                c.elem = lambda t, old=old: self.deepcopy(old(t))
            from .values import _counter
            c.birth = next(_counter)
            return c
        if isinstance(x, tuple):
            return tuple(self.deepcopy(i) for i in x)
        if isinstance(x, DictV):
            return DictV({k: self.deepcopy(v) for k, v in x.d.items()})
        if isinstance(x, Obj):
            o = Obj(x.term, x.cls, {k: self.deepcopy(v) for k, v in x.fields.items()}, app=x.app)
            return o
        if isinstance(x, ArrV):
            a = ArrV(x.term, x.shape, x.fill)
            a.clauses = list(x.clauses)
            return a
        if isinstance(x, CaseV):
            return CaseV([(g, self.deepcopy(v)) for g, v in x.cases])
        return x

    # ---- helpers for contracts -------------------------------------------------------------
    def sym_int(self, name, lo=None, hi=None):
        z = z3.Int(name)
        return SV(z, 'int')

    def sym_bool(self, name):
        return SV(z3.Bool(name), 'bool')

    def sym_val(self, name, tag=None):
        v = SV(z3.Const(name, V), 'val', tag=tag)
        v.frozen = True
        return v

    def sym_obj(self, name, cls):
        return Obj(z3.Const(name, V), cls)

    def sym_list(self, name, cls=None, kind='list', etag=None):
        """symbolic list of arbitrary length whose elements are objects of class cls (or opaque values; etag='scalar':
        hashable scalars compared by value)"""
        term = z3.Const(name, V)
        n = z3.Int(f'len_{name}')
        self.fact(n >= 0)
        holder = SV(term, 'val', tag='list')

        def elem(i):
            if cls is None:
                return self.app('getitem', [holder, SV(i, 'int')], tag=etag)
            return self.app('getitem', [holder, SV(i, 'int')], 'obj', cls=cls)
        return SeqV(length=n, elem=elem, kind=kind, term=term)

    def select(self, arr, index):
        """pointwise content of an ArrV at `index` (tuple of z3 Int / python int) as a CaseV"""
        index = tuple(z3.IntVal(i) if isinstance(i, int) else i for i in index)
        cases = []
        later = []
        for (bound, guard, idx, val) in reversed(arr.clauses):
            pairs = []
            conds = []
            ok = True
            for k, ix in enumerate(idx):
                if ix is None:
                    continue
                if index[k] is None:
                    raise Undecided('whole-slice read of a dimension stored pointwise')
                if isinstance(ix, tuple):
                    ok = False
                    break
                matched = False
                for (bv, lo, hi) in bound:
                    off = z3.simplify(ix - bv)
                    if z3.is_int_value(off):
                        tgt = z3.simplify(index[k] - off)
                        pairs.append((bv, tgt))
                        conds.append(z3.And(tgt >= lo, tgt < hi))
                        matched = True
                        break
                if not matched:
                    conds.append(ix == index[k])
            if not ok:
                raise Undecided('array store at an opaque index')
            bound_names = {str(b[0]) for b in bound}
            done = {str(p[0]) for p in pairs}
            if bound_names - done:
                raise Undecided('array clause with bound variable not determined by the index')
            self.subst_facts(pairs)
            g = z3.substitute(z3.And(conds + [guard]), *pairs) if pairs else z3.And(conds + [guard])
            v = self.subst(val, pairs)
            # a full-slice store of a value into a sub-array: the cell holds that value's element
            free = [k for k, ix in enumerate(idx) if ix is None and index[k] is not None]
            if free and not _is_scalar(v):
                v = self.app('getitem', [v, tuple(SV(index[k], 'int') for k in free)] if len(free) > 1
                             else [v, SV(index[free[0]], 'int')])
            cases.append((z3.And(g, *[z3.Not(x) for x in later]), v))
            later.append(g)
        base = arr.fill if arr.fill != 'uninit' else self.app('uninit', [arr])
        cases.append((z3.And([z3.Not(x) for x in later]), base))
        return CaseV(cases)


def _is_scalar(v):
    return isinstance(v, (int, float, bool, type(None))) or (isinstance(v, SV) and (v.kind != 'val' or v.tag == 'scalar'))


class FuncCheck:
    """Verify one repo function under one type case."""

    def __init__(self, E, run, pid, qual, case_name=''):
        self.E = E
        self.run = run
        self.pid = pid
        self.qual = qual
        self.short = qual.rsplit('.', 1)[-1] if '.' in qual else qual
        parts = qual.split('.')
        self.short = '.'.join(parts[-2:]) if parts[-2][:1].isupper() else parts[-1]
        self.case = case_name
        self.results = {}     # obligation name -> list of (status|future, model, dt, pathno, note, backend)
        self.failed = []
        self.structural = set()   # labels of obligations about the SHAPE of the code (helper level), not the property
        self.thorough = getattr(run, 'tier', 'quick') == 'thorough'
        self.limit_s = 120 if self.thorough else 40

    def name(self, label):
        c = f'[{self.case}]' if self.case else ''
        return f'{self.pid}/{self.short}{c}/{label}'

    def execute(self, make_args, pre=None, post=None, allow_raise=None, kind='post'):
        """make_args(E) -> (args list, kwargs dict, assumptions list of z3 Bool).
        post(ck, E, args, kwargs, path) calls ck.ensure(label, goal).
        allow_raise(E, args, kwargs, path) -> z3 Bool under which the raise is permitted (or None)."""
        E = self.E
        fv = E.find_function(self.qual)
        if fv is None:
            self.run.undecide(self.name('exists'), f'function {self.qual} not found in the current source')
            return None
        self.run.function(self.qual)
        holder = {}

        def thunk():
            args, kwargs, assume = make_args(E)
            holder['args'], holder['kwargs'] = args, kwargs
            for a in assume:
                E.pc.append(a)
            return E.run_function(fv, list(args), dict(kwargs))
        t0 = time.time()
        try:
            paths = []
            # explore() re-runs the thunk per path; we need the args of that very path for the post
            out = []
            work = [[]]
            from .core import Scope, ReturnSig
            while work:
                prefix = work.pop()
                E.pc = []
                E.facts = []
                E._fact_keys = set()
                E.loops = []
                E.rand_count = {}
                E.perms = []
                E.draws = []
                sc = Scope(prefix)
                E.scopes = [sc]
                try:
                    v = thunk()
                    p = Path(list(E.pc), 'return', v)
                except ReturnSig as r:
                    p = Path(list(E.pc), 'return', r.value)
                except PyRaise as e:
                    p = Path(list(E.pc), 'raise', None, exc=e)
                p.args, p.kwargs = holder.get('args'), holder.get('kwargs')
                p.perms, p.draws = list(E.perms), list(E.draws)
                out.append(p)
                work.extend(sc.pending)
                if len(out) > 300:
                    raise Undecided('too many paths')
                self._check_path(p, len(out) - 1, post, allow_raise)
            paths = out
        except ContractPre as cp:
            nm = self.name(f'pre@{cp.qual.rsplit(".", 1)[-1]}')
            self.run.obligation(nm, 'refuted' if cp.status == 'refuted' else 'unknown', detail=str(cp))
            if cp.status == 'refuted':
                self.failed.append((nm, 'pre@callee', None))
            return None
        except Undecided as u:
            import os
            if os.environ.get('VERIF_DEBUG'):
                traceback.print_exc()
            self.run.undecide(self.name('engine'), f'{u} (call stack {E.call_stack})')
            return None
        # vacuity
        n_ret = sum(1 for p in paths if p.outcome == 'return')
        self.run.vacuity.append(dict(function=self.short, case=self.case, paths=len(paths), returning=n_ret))
        if n_ret == 0 and post is not None:
            self.run.undecide(self.name('reachable'), 'no returning path is feasible under the precondition (vacuous contract)')
        self.paths = paths
        self._flush()
        return paths

    def _check_path(self, p, k, post, allow_raise):
        E = self.E
        E.pc = list(p.pc)
        self.cur = (p, k)
        # canary: the path condition (with the library facts) must be satisfiable
        if E.sat(timeout_ms=10000) == z3.unsat:
            # the path turned out infeasible (a branch whose feasibility could not be decided when it was taken):
            # it is not a path of the function; vacuity is judged over the feasible paths only
            p.outcome = 'infeasible'
            return
        if p.outcome == 'raise':
            cond = allow_raise(E, p.args, p.kwargs, p) if allow_raise else None
            if cond is None:
                self.ensure(f'raises-free', z3.BoolVal(False), note=f'{p.exc.exc_name} {p.exc.msg or ""}')
            else:
                self.ensure(f'raises-allowed', cond)
            return
        if post is not None:
            try:
                post(self, E, p.args, p.kwargs, p)
            except (AttributeError, TypeError, KeyError, IndexError, ValueError, AssertionError) as e:
                # the returned value no longer has the SHAPE the contract talks about (e.g. an opaque value where a
                # list was built before): a structural obligation, decided together with the bounded tier
                label = 'post/result-has-the-shape-the-contract-describes'
                self.structural.add(label)
                self.results.setdefault(label, []).append(
                    ('refuted', None, 0.0, k, f'{type(e).__name__}: {str(e)[:200]} while evaluating the postcondition', 'engine'))

    def ensure(self, label, goal, note=None, structure=False):
        if structure:
            self.structural.add(label)
        E = self.E
        p, k = self.cur
        try:
            if isinstance(goal, bool):
                goal = z3.BoolVal(goal)
            if z3.is_true(z3.simplify(goal)):
                self.results.setdefault(label, []).append(('proved', None, 0.0, k, note, 'simplify'))
                return
            fut = solve.submit(E.assertions_for(goal, pc=p.pc), limit_s=self.limit_s, thorough=self.thorough)
            self.results.setdefault(label, []).append((fut, None, 0.0, k, note, None))
        except Undecided as u:
            self.results.setdefault(label, []).append(('unknown', None, 0.0, k, str(u), 'engine'))

    def ensure_eq(self, label, a, b, structure=False):
        if structure:
            self.structural.add(label)
        try:
            g = self.E.veq(a, b)
        except Undecided as u:
            p, k = self.cur
            self.results.setdefault(label, []).append(('unknown', None, 0.0, k, str(u), 'engine'))
            return
        self.ensure(label, g)

    def _flush(self):
        for label, rs in self.results.items():
            if label == 'canary':
                self.run.undecide(self.name('canary'), 'infeasible path condition: facts or precondition inconsistent')
                continue
            done = []
            for r in rs:
                if not isinstance(r[0], str):
                    st, model, dt, backend = r[0].result()
                    r = (st, model, dt, r[3], r[4], backend)
                done.append(r)
                if os.environ.get('VERIF_DEBUG'):
                    print(f'   [{self.short} {self.case} path{r[3]}] {label}: {r[0]} {r[2]:.2f}s {r[5]}', flush=True)
            sts = [r[0] for r in done]
            dt = sum(r[2] for r in done)
            backends = ','.join(sorted({str(r[5]) for r in done}))
            nm = self.name(label)
            if any(s == 'disagree' for s in sts):
                raise RuntimeError(f'solver disagreement on {nm}: {[r[1] for r in done if r[0] == "disagree"]}')
            if all(s == 'proved' for s in sts):
                self.run.obligation(nm, 'proved', backends, dt, detail=f'{len(done)} path(s)')
            elif any(s == 'refuted' for s in sts):
                bad = [r for r in done if r[0] == 'refuted'][0]
                detail = dict(path=bad[3], note=bad[4], model=(bad[1] or '')[:1500])
                self.run.obligation(nm, 'refuted', backends, dt, detail=detail)
                self.failed.append((nm, 'structure' if label in self.structural else label, detail))
            else:
                notes = [str(r[4]) for r in done if r[4]] + [str(r[1])[:100] for r in done if r[0] == 'unknown' and r[1]]
                self.run.obligation(nm, 'unknown', backends, dt, detail='; '.join(notes)[:300])
        self.results = {}


def _model_str(m):
    if m is None:
        return None
    out = []
    try:
        for d in m.decls():
            if d.arity() == 0:
                s = f'{d.name()}={m[d]}'
                if len(s) < 80:
                    out.append(s)
    except Exception:
        pass
    return ', '.join(sorted(out)[:40])
