"""Solver back end of engine A: every obligation is written as SMT-LIB2 and decided by solver
processes with a hard wall-clock limit (a portfolio run in parallel; first conclusive answer wins).

Portfolio members:
  z3-new (5.1) on the query as is; /usr/bin/z3 (4.8.12) on the query as is;
  z3-new on the query with non-linear multiplication / division by a variable ABSTRACTED into
  uninterpreted functions (sound for `unsat` only -- a `sat` answer of an abstracted query is ignored).
"""
import os
import shutil
import subprocess
import tempfile
import threading
import time
from concurrent.futures import ThreadPoolExecutor

import z3

Z3NEW = shutil.which('z3-new') or shutil.which('z3')
Z3OLD = '/usr/bin/z3' if os.path.exists('/usr/bin/z3') else None
_pool = ThreadPoolExecutor(max_workers=int(os.environ.get('VERIF_JOBS', '14')))
_tmpdir = None
_lock = threading.Lock()
_qn = [0]

umul = z3.Function('umul', z3.IntSort(), z3.IntSort(), z3.IntSort())
udiv = z3.Function('udiv', z3.IntSort(), z3.IntSort(), z3.IntSort())
umod = z3.Function('umod', z3.IntSort(), z3.IntSort(), z3.IntSort())
umulr = z3.Function('umulr', z3.RealSort(), z3.RealSort(), z3.RealSort())
udivr = z3.Function('udivr', z3.RealSort(), z3.RealSort(), z3.RealSort())


_MEMO = {}
_KEEP = {}


def tmpdir():
    global _tmpdir
    if _tmpdir is None:
        _tmpdir = tempfile.mkdtemp(prefix='pyvc_')
        import atexit
        atexit.register(lambda: shutil.rmtree(_tmpdir, ignore_errors=True))
    return _tmpdir


def abstract_nl(e, memo):
    """replace non-linear arithmetic by uninterpreted functions (over-approximation)"""
    k = e.get_id()
    if k in memo:
        return memo[k]
    if z3.is_quantifier(e):
        body = abstract_nl(e.body(), memo)
        if body.eq(e.body()):
            r = e
        else:
            vs = [z3.Const(e.var_name(i), e.var_sort(i)) for i in range(e.num_vars())]
            # rebuild with de Bruijn body kept: substitute is not needed since the body keeps its indices
            if e.is_lambda():
                r = z3.Lambda(vs, z3.substitute_vars(body, *reversed(vs)))
            elif e.is_forall():
                r = z3.ForAll(vs, z3.substitute_vars(body, *reversed(vs)))
            else:
                r = z3.Exists(vs, z3.substitute_vars(body, *reversed(vs)))
        memo[k] = r
        return r
    if not z3.is_app(e) or e.num_args() == 0:
        memo[k] = e
        return e
    args = [abstract_nl(c, memo) for c in e.children()]
    kind = e.decl().kind()
    r = None
    if kind == z3.Z3_OP_MUL:
        nonconst = [a for a in args if not (z3.is_int_value(a) or z3.is_rational_value(a))]
        if len(nonconst) >= 2:
            consts = [a for a in args if z3.is_int_value(a) or z3.is_rational_value(a)]
            f = umul if e.sort() == z3.IntSort() else umulr
            acc = nonconst[0]
            for a in nonconst[1:]:
                acc = f(acc, a)
            for c in consts:
                acc = c * acc
            r = acc
    elif kind in (z3.Z3_OP_IDIV, z3.Z3_OP_MOD, z3.Z3_OP_DIV):
        if not (z3.is_int_value(args[1]) or z3.is_rational_value(args[1])):
            f = {z3.Z3_OP_IDIV: udiv, z3.Z3_OP_MOD: umod, z3.Z3_OP_DIV: udivr}[kind]
            r = f(args[0], args[1])
    if r is None:
        if all(a.eq(c) for a, c in zip(args, e.children())):
            r = e
        else:
            r = e.decl()(*args)
    memo[k] = r
    return r


def _run(cmd, path, limit_s):
    t0 = time.time()
    try:
        p = subprocess.run(cmd + [path], capture_output=True, text=True, timeout=limit_s + 5)
        out = p.stdout.strip()
    except subprocess.TimeoutExpired:
        out = 'timeout'
    first = out.split('\n', 1)[0].strip() if out else ''
    return first, out, time.time() - t0


def smt2_of(assertions, get_model=True):
    s = z3.Solver()
    for a in assertions:
        s.add(a)
    txt = s.to_smt2()
    if get_model:
        txt += '\n(get-model)\n'
    return txt


def prepare(assertions):
    """serialise (main thread only: the z3 API is not thread-safe)"""
    with _lock:
        _qn[0] += 1
        n = _qn[0]
    d = tmpdir()
    p1 = os.path.join(d, f'q{n}.smt2')
    txt = smt2_of(assertions)
    memo = _MEMO
    for a in assertions:
        _KEEP[a.get_id()] = a      # keep the AST alive so that its id is never reused
    abst = [abstract_nl(a, memo) for a in assertions]
    changed = any(not a.eq(b) for a, b in zip(assertions, abst))
    with open(p1, 'w') as f:
        f.write(txt)
    p2 = None
    if changed:
        p2 = os.path.join(d, f'q{n}a.smt2')
        with open(p2, 'w') as f:
            f.write(smt2_of(abst, get_model=False))
    return p1, p2


def decide_files(p1, p2, limit_s=30, thorough=False):
    """returns (status, model_text, seconds, backend) with status in proved/refuted/unknown/disagree"""
    jobs = [('z3-5.1', [Z3NEW, f'-T:{limit_s}'], p1, True)]
    if p2 is not None:
        jobs.append(('z3-5.1/nl-abstracted', [Z3NEW, f'-T:{limit_s}'], p2, False))
    if Z3OLD:
        jobs.append(('z3-4.8', [Z3OLD, f'-T:{limit_s}'], p1, True))
    t0 = time.time()
    results = {}
    done = threading.Event()
    verdict = {}

    def work(name, cmd, path, exact):
        first, out, dt = _run(cmd, path, limit_s)
        results[name] = first
        if first == 'unsat':
            verdict.setdefault('v', ('proved', None, name))
            if not thorough:
                done.set()
        elif first == 'sat' and exact:
            verdict.setdefault('v', ('refuted', out.split('\n', 1)[1] if '\n' in out else '', name))
            if not thorough:
                done.set()
        if len(results) == len(jobs):
            done.set()
    threads = [threading.Thread(target=work, args=j, daemon=True) for j in jobs]
    for t in threads:
        t.start()
    done.wait(limit_s + 10)
    dt = time.time() - t0
    try:
        if not os.environ.get('VERIF_KEEP_SMT'):
            os.unlink(p1)
            if p2:
                os.unlink(p2)
    except OSError:
        pass
    if thorough:
        exact_ans = {results.get(j[0]) for j in jobs if j[3]} & {'sat', 'unsat'}
        if len(exact_ans) > 1 or ('sat' in exact_ans and any(results.get(j[0]) == 'unsat' for j in jobs)):
            return 'disagree', str(results), dt, 'portfolio'
    if 'v' in verdict:
        st, model, name = verdict['v']
        return st, model, dt, name
    return 'unknown', str(results), dt, 'portfolio'


def submit(assertions, limit_s=30, thorough=False):
    p1, p2 = prepare(assertions)
    return _pool.submit(decide_files, p1, p2, limit_s, thorough)


def decide(assertions, limit_s=30, thorough=False):
    p1, p2 = prepare(assertions)
    return decide_files(p1, p2, limit_s, thorough)
