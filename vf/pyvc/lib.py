"""Library models (assumed contracts of numpy / stdlib) of engine A.

Every model used in a run is listed in the evidence `trusted_base`; anything not modelled
here is an uninterpreted pure function of its arguments.
"""
import z3

from .values import V, SV, Obj, SeqV, ArrV, CaseV, DictV, FuncV, ModV, Undecided, fresh_name
from .core import RangeV, ufunc, PyRaise

DOC = {
    'numpy.unique': 'np.unique(x): sorted, pairwise distinct values of x (index function uniq_idx is its inverse)',
    'numpy.arange': 'np.arange(a,b): the integers a <= x < b in increasing order',
    'numpy.floor': 'np.floor(a/b) for integers a >= 0, b > 0 equals a div b (exact float assumption)',
    'numpy.concatenate': 'np.concatenate: elements of the parts in order',
    'numpy.setdiff1d': 'np.setdiff1d(a,b): sorted unique values of a that are not in b',
    'numpy.random.shuffle': 'np.random.shuffle(x): in-place application of an ARBITRARY permutation (havoc)',
    'numpy.random.randint': 'np.random.randint(lo,hi,size=m): ANY integer array of length m with lo <= entries < hi (havoc)',
    'numpy.array': 'np.array(list): same elements',
    'numpy.unique(return_index, return_inverse)': 'distinct values u, position of the first occurrence of each, and for every entry the k with u[k] == entry',
    'ndarray.argsort': 'x.argsort() is a permutation of range(len(x)) along which x is non-decreasing',
    'numpy.array(dtype=float)': 'np.array / np.asarray(x, dtype=float): same values (entries are mathematical reals here; rounding of the '
                                'conversion is not modelled)',
    'os.path.join': 'os.path.join of relative separator-free segments = segments joined by /',
    'os.path.normpath': 'normpath is the identity on relative, already normalised paths (BIDS precondition)',
    'os.path.basename': 'basename = last /-separated segment',
    'numpy.maximum': 'np.maximum / np.minimum act element-wise (proved here per entry on real scalars)',
    'numpy.sqrt': 'np.sqrt(m) for an integer m >= 0 is the non-negative real root (exact float assumption below 2^52)',
    'numpy.ceil': 'np.ceil(np.sqrt(m)) is the least integer c with c*c >= m (exact float assumption below 2^52)',
    'numpy.kron': 'np.kron(a,b) of 1-D arrays: entry t = a[t div len(b)] * b[t mod len(b)]',
    'numpy.zeros': 'np.zeros / np.empty / np.ones: fresh array of the given shape',
    'copy.deepcopy': 'deepcopy(x): fresh object equal to x',
    'tqdm.trange': 'tqdm.trange(n) iterates like range(n)',
    'numpy.where': 'np.where(mask) / np.nonzero(mask) / mask.nonzero() of a 1-D boolean array: (indices of the true entries, increasing,)',
    'numpy.any': 'np.any(M, axis=0) of a 2-D boolean array given as a list of equally long rows: entry j is true iff some row has a true entry j',
    'min/max': 'builtin min / max of an opaque scalar and numbers: the opaque value is a real number (not NaN)',
    'array==scalar': '1-D array == scalar compares element-wise (elements are hashable scalars compared by value)',
}


def install(E):
    L = E.lib

    def np_unique_full(E, x):
        """np.unique(x, return_index=True, return_inverse=True) for a 1-D sequence x of hashable scalars -> (u, first, inverse):
        u[k] the distinct values (their ORDER is not used: only that they are distinct), first[k] the position of the first
        occurrence of u[k] in x, inverse[i] the k with u[k] == x[i].  Facts are instantiated when an element is read."""
        E.used_lib.add('numpy.unique(return_index, return_inverse)')
        xs = E.as_seq(x)
        xt = E.toV(x)
        n = E.as_int(E.seq_len(xs))
        m = ufunc('nunique', 1, 'int')(xt)
        E.fact(z3.And(m >= 0, m <= n, z3.Implies(n > 0, m > 0)))
        el = ufunc('uniq_elem', 2)
        ix = ufunc('uniq_idx', 2, 'int')
        fi = ufunc('uniq_first', 2, 'int')

        def xat(i):
            return E.toV(E.seq_elem(xs, i))

        def u_elem(k):
            z = el(xt, boxI_(k))
            f = fi(xt, boxI_(k))
            E.fact(z3.Implies(z3.And(k >= 0, k < m), z3.And(ix(xt, z) == k, f >= 0, f < n, xat(f) == z, ix(xt, xat(f)) == k)))
            return SV(z, 'val', tag='scalar')

        def first_elem(k):
            u_elem(k)
            return SV(fi(xt, boxI_(k)), 'int')

        def inv_elem(i):
            k = ix(xt, xat(i))
            E.fact(z3.Implies(z3.And(i >= 0, i < n), z3.And(k >= 0, k < m, el(xt, boxI_(k)) == xat(i), fi(xt, boxI_(k)) <= i)))
            return SV(k, 'int')
        # first occurrence: no earlier position holds the value (one quantified axiom per array)
        i, k = z3.Int(fresh_name('ui')), z3.Int(fresh_name('uk'))
        E.fact(z3.ForAll([i, k], z3.Implies(z3.And(k >= 0, k < m, i >= 0, i < fi(xt, boxI_(k))), xat(i) != el(xt, boxI_(k)))))
        u = SeqV(length=m, elem=u_elem, kind='array', esort='val')
        first = SeqV(length=m, elem=first_elem, kind='array', esort='int')
        first.distinct_because = 'first occurrences of distinct values'
        inverse = SeqV(length=n, elem=inv_elem, kind='array', esort='int')
        return (u, first, inverse)

    def np_unique(E, x, **kw):
        if set(kw) in ({'return_index', 'return_inverse'}, {'return_index'}) and all(v is True for v in kw.values()) \
                and not isinstance(x, (Obj, DictV)):
            try:
                full = np_unique_full(E, x)
                return full if 'return_inverse' in kw else full[:2]
            except Undecided:
                pass
        if kw:
            return E.app('numpy.unique', [x, DictV(kw)])
        if isinstance(x, SeqV) and x.canon:
            return x
        xt = E.toV(x)
        n = ufunc('nunique', 1, 'int')(xt)
        E.fact(n >= 0)
        try:
            ln = E.as_int(E.seq_len(x))
            E.fact(n <= ln)
            E.fact(z3.Implies(ln > 0, n > 0))
        except Undecided:
            pass
        el = ufunc('uniq_elem', 2)
        ix = ufunc('uniq_idx', 2, 'int')
        s = SeqV(length=n, kind='array', esort='val', canon=True)

        def elem(i, s=s):
            z = el(xt, boxI_(i))
            E.fact(z3.Implies(z3.And(i >= 0, i < n), ix(xt, z) == i))
            return SV(z, 'val', tag='scalar')

        def inv(y):
            return ix(xt, y)

        def mem(y):
            j = ix(xt, y)
            return z3.And(j >= 0, j < n, el(xt, boxI_(j)) == y)
        s.elem, s.inv, s.mem = elem, inv, mem
        s.term = ufunc('numpy.unique', 1)(xt)
        return s
    L['numpy.unique'] = np_unique

    def np_arange(E, a, b=None, *rest, **kw):
        if rest or kw:
            return E.app('numpy.arange', [a, b] + list(rest) + [DictV(kw)])
        if b is None:
            a, b = 0, a
        if isinstance(a, int) and isinstance(b, int):
            return SeqV(items=list(range(a, b)), kind='array', esort='int', canon=True)
        az, bz = E.as_int(a), E.as_int(b)
        return SeqV(length=z3.If(bz > az, bz - az, 0), elem=lambda t: SV(az + t, 'int'),
                    mem=lambda x: z3.And(x >= az, x < bz), inv=lambda y: y - az, kind='array', esort='int', canon=True)
    L['numpy.arange'] = np_arange

    def np_floor(E, x):
        if isinstance(x, (int, float)):
            import math
            return float(math.floor(x))
        if isinstance(x, SV) and x.kind == 'real' and x.ratio is not None and not isinstance(x.ratio[0], str):
            a, b = x.ratio
            st, _, _ = E.prove(z3.And(a >= 0, b > 0))
            if st == 'proved':
                return SV(a / b, 'int')
        if isinstance(x, SV) and x.kind == 'int':
            return x
        if isinstance(x, SV) and x.kind == 'real':
            return SV(z3.ToInt(x.z), 'int')
        return E.app('numpy.floor', [x])
    L['numpy.floor'] = np_floor

    def np_minmax(which):
        def f(E, a, b):
            if E.is_numeric(a) and E.is_numeric(b):
                x, y = E.as_real(a), E.as_real(b)
                return SV(z3.If(x >= y, x, y) if which == 'max' else z3.If(x <= y, x, y), 'real')
            return E.app(f'numpy.{which}imum', [a, b])
        return f
    L['numpy.maximum'] = np_minmax('max')
    L['numpy.minimum'] = np_minmax('min')

    def np_sqrt(E, x):
        if isinstance(x, (int, float)) and not isinstance(x, bool):
            import math
            return math.sqrt(x)
        if isinstance(x, SV) and x.kind == 'int':
            r = z3.Real(fresh_name('sqrt'))
            E.fact(z3.Implies(x.z >= 0, z3.And(r >= 0, r * r == z3.ToReal(x.z))))
            return SV(r, 'real', ratio=('sqrt', x.z))
        return E.app('numpy.sqrt', [x])
    L['numpy.sqrt'] = np_sqrt

    def np_ceil(E, x):
        if isinstance(x, (int, float)) and not isinstance(x, bool):
            import math
            return float(math.ceil(x))
        if isinstance(x, SV) and x.kind == 'real' and x.ratio is not None and x.ratio[0] == 'sqrt':
            m = x.ratio[1]
            c = z3.Int(fresh_name('ceilsqrt'))
            # exact-float assumption: ceil(sqrt(m)) is the least integer c with c*c >= m (m below 2^52)
            E.fact(z3.Implies(m >= 0, z3.And(c >= 0, c * c >= m, z3.Or(c == 0, (c - 1) * (c - 1) < m))))
            return SV(c, 'int')
        if isinstance(x, SV) and x.kind == 'int':
            return x
        return E.app('numpy.ceil', [x])
    L['numpy.ceil'] = np_ceil

    def np_concatenate(E, parts, *a, **kw):
        if a or kw:
            return E.app('numpy.concatenate', [parts] + list(a) + [DictV(kw)])
        ps = list(parts) if isinstance(parts, tuple) else (parts.items if isinstance(parts, SeqV) and parts.items is not None else None)
        if ps is None or not all(isinstance(p, (SeqV, tuple, RangeV)) for p in ps):
            return E.app('numpy.concatenate', [parts])
        out = E.seq_concat(ps)
        out.kind = 'array'
        return out
    L['numpy.concatenate'] = np_concatenate

    def np_setdiff1d(E, a, b):
        if not isinstance(a, (SeqV, RangeV, tuple)):
            return E.app('numpy.setdiff1d', [a, b])
        a = E.as_seq(a)
        if isinstance(b, (SeqV, RangeV, tuple)):
            b = E.as_seq(b)

            def bmem(x):
                return E.seq_mem(b, x)
        else:
            # scalar second argument
            bz = E.elem_z(a, b)

            def bmem(x):
                return x == bz
        if a.items is not None and isinstance(b, SeqV) and b.items is not None and \
                all(isinstance(x, int) for x in a.items + b.items):
            return SeqV(items=sorted(set(a.items) - set(b.items)), kind='array', esort='int', canon=True)
        n = E.fresh_fun('ndiff', 'int')(z3.IntVal(0))
        E.fact(n >= 0)
        E.fact(n <= a.zlen())
        s = SeqV(length=n, kind='array', esort=a.esort, canon=True)

        def mem(x):
            return z3.And(E.seq_mem(a, x), z3.Not(bmem(x)))
        s.mem = mem
        nth = E.fresh_fun('nth', 'int' if a.esort == 'int' else 'val')

        def elem(t, s=s):
            z = nth(t)
            E.fact(z3.Implies(z3.And(t >= 0, t < n), mem(z)))
            sv = SV(z, 'int' if a.esort == 'int' else 'val')
            return sv
        s.elem = elem
        return s
    L['numpy.setdiff1d'] = np_setdiff1d

    def np_shuffle(E, x):
        if not isinstance(x, SeqV):
            raise Undecided('shuffle of a non-sequence value')
        if E.is_outer(x):
            E.loops[-1].effects.append(('become', x, None))
            raise Undecided('shuffle of an outer sequence inside a symbolic loop')
        k = E.rand_count.get('shuffle', 0)
        E.rand_count['shuffle'] = k + 1
        name = fresh_name(f'perm{k}')
        pi = z3.Function(name, z3.IntSort(), z3.IntSort())
        pinv = z3.Function(name + '_inv', z3.IntSort(), z3.IntSort())
        old_elem, old_inv, old_mem = x.elem, x.inv, x.mem
        if x.items is not None:
            old = SeqV(items=list(x.items), kind=x.kind, esort=x.esort)
            old_elem = lambda t: E.seq_elem(old, t)
            old_mem = lambda y: E.seq_mem(old, y)
            old_inv = None
        n = x.zlen()

        def elem(t):
            E.fact(z3.Implies(z3.And(t >= 0, t < n), z3.And(pi(t) >= 0, pi(t) < n, pinv(pi(t)) == t)))
            return old_elem(pi(t))

        def inv(y):
            j = old_inv(y)
            E.fact(z3.Implies(z3.And(j >= 0, j < n), z3.And(pinv(j) >= 0, pinv(j) < n, pi(pinv(j)) == j)))
            return pinv(j)
        x.items = None
        x.length = n
        x.elem = elem
        x.inv = inv if old_inv is not None else None
        x.mem = old_mem
        x.canon = False
        x.term = None
        E.perms = getattr(E, 'perms', [])
        E.perms.append((pi, pinv, n))
        return None
    L['numpy.random.shuffle'] = np_shuffle

    def np_randint(E, lo, hi=None, size=None, **kw):
        if hi is None:
            lo, hi = 0, lo
        if size is None:
            z = z3.Int(fresh_name('rand'))
            E.pc.append(z3.And(z >= E.as_int(lo), z < E.as_int(hi)))
            return SV(z, 'int')
        if isinstance(size, tuple):
            raise Undecided('randint with tuple size')
        k = E.rand_count.get('randint', 0)
        E.rand_count['randint'] = k + 1
        f = z3.Function(fresh_name(f'draw{k}'), z3.IntSort(), z3.IntSort())
        loz, hiz, n = E.as_int(lo), E.as_int(hi), E.as_int(size)

        def elem(t):
            E.fact(z3.Implies(z3.And(t >= 0, t < n), z3.And(f(t) >= loz, f(t) < hiz)))
            return SV(f(t), 'int')
        s = SeqV(length=z3.If(n > 0, n, 0), elem=elem, kind='array', esort='int')
        E.draws = getattr(E, 'draws', [])
        E.draws.append((f, n, loz, hiz))
        return s
    L['numpy.random.randint'] = np_randint

    def np_kron(E, a, b):
        def as1d(v):
            if isinstance(v, ArrV) and len(v.shape) == 1 and not v.clauses and v.fill in (0, 1):
                n = v.shape[0] if z3.is_expr(v.shape[0]) else z3.IntVal(v.shape[0])
                return n, (lambda t, f=v.fill: f)
            if isinstance(v, (SeqV, RangeV)):
                s = E.as_seq(v)
                return s.zlen(), (lambda t, s=s: E.seq_elem(s, t))
            return None
        pa, pb = as1d(a), as1d(b)
        if pa is None or pb is None:
            return E.app('numpy.kron', [a, b], tag='ndarray')
        (la, ea), (lb, eb) = pa, pb
        E.used_lib.add('numpy.kron')

        def elem(t):
            if z3.is_int_value(lb) and lb.as_long() > 0:
                q, r = t / lb, t % lb
            else:
                q, r = z3.Int(fresh_name('q')), z3.Int(fresh_name('r'))
                E.fact(z3.Implies(z3.And(lb > 0, t >= 0), z3.And(t == q * lb + r, r >= 0, r < lb, q >= 0)))
            return E.binop('*', ea(q), eb(r))
        return SeqV(length=la * lb, elem=elem, kind='array', esort='int')
    L['numpy.kron'] = np_kron


    def np_where(E, cond, *rest, **kw):
        if rest or kw:
            return E.app('numpy.where', [cond] + list(rest) + ([DictV(kw)] if kw else []), tag='ndarray')
        if isinstance(cond, RangeV):
            cond = E.as_seq(cond)
        if isinstance(cond, SeqV):
            n = cond.zlen()
            elem = lambda j: E._zb(E.truth(E.seq_elem(cond, j)))
        elif isinstance(cond, SV) and cond.kind == 'val':
            n = E.as_int(E.seq_len(cond))
            elem = lambda j: E._zb(E.truth(E.app('getitem', [cond, SV(j, 'int')])))
        else:
            return E.app('numpy.where', [cond], tag='ndarray')
        E.used_lib.add('numpy.where')
        f = E.make_filter(n, elem, None, kind='array')
        return (f,)
    L['numpy.where'] = np_where
    L['numpy.nonzero'] = np_where
    L['ndarray.nonzero'] = np_where

    def np_any(E, x, axis=None, **kw):
        rows = x.rows2d if isinstance(x, SeqV) and getattr(x, 'rows2d', None) is not None else None
        if rows is None or axis != 0 or kw:
            return E.app('numpy.any', [x, axis] + ([DictV(kw)] if kw else []), tag='ndarray')
        E.used_lib.add('numpy.any')
        m = rows.zlen()
        width = rows.row_len

        def elem(j):
            i = z3.Int(fresh_name('ri'))
            cell = E._zb(E.truth(E.seq_elem(E.as_seq(E.seq_elem(rows, i)), j)))
            return SV(z3.Exists([i], z3.And(i >= 0, i < m, cell)), 'bool')
        return SeqV(length=width, elem=elem, kind='array')
    L['numpy.any'] = np_any

    def np_array(E, x, *a, **kw):
        dt = kw.get('dtype') if set(kw) == {'dtype'} else None
        if isinstance(dt, FuncV) and dt.kind == 'builtin' and dt.name == 'float' and not a:
            # conversion to float64: array entries are mathematical reals in this encoding (stated assumption), so the
            # conversion is the identity on values; what it does to integer / float32 typed data is the bounded tier's concern
            E.used_lib.add('numpy.array(dtype=float)')
            kw = {}
        if isinstance(x, RangeV) and not a and not kw:
            x = E.as_seq(x)
        if isinstance(x, SeqV) and not a and not kw and x.items is None and x.elem is not None:
            k0 = z3.Int(fresh_name('row'))
            try:
                r0 = x.elem(k0)
            except Undecided:
                r0 = None
            if isinstance(r0, SeqV) and r0.kind == 'array' and not _mentions_const(r0.zlen(), k0):
                out = SeqV(length=x.length, elem=x.elem, kind='array', esort='val')
                out.rows2d = x
                x.row_len = r0.zlen()
                return out
        if isinstance(x, SeqV) and not a and not kw:
            if x.items is not None and any(isinstance(i, (SeqV, tuple)) for i in x.items):
                return E.app('numpy.array', [x], tag='ndarray')
            c = SeqV(items=None if x.items is None else list(x.items), length=x.length, elem=x.elem, mem=x.mem,
                     inv=x.inv, kind='array', esort=x.esort, canon=x.canon, term=None)
            return c
        if isinstance(x, SV) and x.tag == 'ndarray' and not a and not kw:
            return x      # np.array(ndarray) is a value-equal copy (aliasing is C12's concern, not modelled here)
        r = E.app('numpy.array', [x] + list(a) + ([DictV(kw)] if kw else []), tag='ndarray')
        return r
    L['numpy.array'] = np_array
    L['numpy.asarray'] = np_array

    def np_alloc(fill):
        def f(E, shape, *a, **kw):
            if isinstance(shape, (int, SV)):
                shape = (shape,)
            if isinstance(shape, SeqV) and shape.items is not None:
                shape = tuple(shape.items)
            if not isinstance(shape, tuple):
                return E.app(f'numpy.alloc:{fill}', [shape], tag='ndarray')
            dims = []
            for d in shape:
                if isinstance(d, int):
                    dims.append(d)
                else:
                    dims.append(E.as_int(d))
            return ArrV(z3.Const(fresh_name('arr'), V), dims, fill)
        return f
    L['numpy.zeros'] = np_alloc(0)
    L['numpy.ones'] = np_alloc(1)
    L['numpy.empty'] = np_alloc('uninit')

    def np_expand_dims(E, x, axis):
        if isinstance(x, ArrV) and not x.clauses and isinstance(axis, int):
            sh = list(x.shape)
            ax = axis if axis >= 0 else len(sh) + 1 + axis
            sh.insert(ax, 1)
            return ArrV(z3.Const(fresh_name('arr'), V), sh, x.fill)
        return E.app('numpy.expand_dims', [x, axis], tag='ndarray')
    L['numpy.expand_dims'] = np_expand_dims

    def np_repeat(E, x, k, axis=None):
        if isinstance(x, ArrV) and not x.clauses and isinstance(axis, int):
            ax = axis % len(x.shape)
            if isinstance(x.shape[ax], int) and x.shape[ax] == 1:
                sh = list(x.shape)
                sh[ax] = k if isinstance(k, int) else E.as_int(k)
                return ArrV(z3.Const(fresh_name('arr'), V), sh, x.fill)
        return E.app('numpy.repeat', [x, k, axis], tag='ndarray')
    L['numpy.repeat'] = np_repeat

    def deepcopy(E, x):
        return E.deepcopy(x)
    L['copy.deepcopy'] = deepcopy

    L['tqdm.trange'] = lambda E, n, **kw: RangeV(0, n)
    L['tqdm.tqdm'] = lambda E, x, **kw: x
    L['warnings.warn'] = lambda E, *a, **kw: None

    def os_join(E, *segs):
        from .interp import strv_concat, strv_plain
        parts = []
        for k, sg in enumerate(segs):
            if k:
                parts.append('/')
            parts.append(sg)
        v = strv_concat(parts)
        if v is None:
            return E.app('os.path.join', list(segs))
        pl = strv_plain(v)
        return pl if pl is not None else v
    L['os.path.join'] = os_join

    def os_normpath(E, p):
        # assumed: the path is relative and already normalised (no '.', '..', '//' segments) -- the BIDS precondition
        return p
    L['os.path.normpath'] = os_normpath

    def os_basename(E, p):
        from .interp import strv_split, strv_of
        from .values import StrV
        s = strv_of(p)
        if s is None:
            return E.app('os.path.basename', [p])
        return strv_split(s, '/')[-1]
    L['os.path.basename'] = os_basename

    def np_len_like(E, x):
        return E.seq_len(x)

    def nd_argsort(E, x, *a, **kw):
        """x.argsort() of a 1-D integer sequence: a permutation P of range(len(x)) (P and its inverse as functions, facts on
        demand) with x[P(a)] <= x[P(b)] for a < b (one quantified axiom)"""
        if a or kw or not isinstance(x, SeqV) or x.kind != 'array' or x.esort != 'int':
            return E.app('ndarray.argsort', [x] + list(a) + ([DictV(kw)] if kw else []), tag='ndarray')
        E.used_lib.add('ndarray.argsort')
        m = x.zlen()
        xt = z3.Const(fresh_name('argsorted'), V)
        P = ufunc('argsort_perm', 2, 'int')
        Q = ufunc('argsort_inv', 2, 'int')

        def elem(t):
            p = P(xt, boxI_(t))
            E.fact(z3.Implies(z3.And(t >= 0, t < m), z3.And(p >= 0, p < m, Q(xt, boxI_(p)) == t)))
            return SV(p, 'int')

        def inv(y):
            q = Q(xt, boxI_(y))
            E.fact(z3.Implies(z3.And(y >= 0, y < m), z3.And(q >= 0, q < m, P(xt, boxI_(q)) == y)))
            return q
        out = SeqV(length=m, elem=elem, inv=inv, mem=lambda y: z3.And(y >= 0, y < m), kind='array', esort='int')
        out.perm = True
        a_, b_ = z3.Int(fresh_name('pa')), z3.Int(fresh_name('pb'))
        E.fact(z3.ForAll([a_, b_], z3.Implies(z3.And(a_ >= 0, a_ < b_, b_ < m),
                                             E.as_int(x.elem(P(xt, boxI_(a_)))) <= E.as_int(x.elem(P(xt, boxI_(b_)))))))
        return out
    L['ndarray.argsort'] = nd_argsort

    def nd_copy(E, x, *a, **kw):
        return E.deepcopy(x)
    L['ndarray.copy'] = nd_copy
    L['numpy.copy'] = nd_copy

    def np_mean(E, x, axis=None, keepdims=False, **kw):
        args = [x, axis, keepdims] + ([DictV(kw)] if kw else [])
        r = E.app('numpy.mean', args, tag='ndarray')
        sh = getattr(x, 'shape', None) if isinstance(x, SV) else None
        if sh is not None and isinstance(axis, int):
            ax = axis % len(sh)
            r.shape = tuple(1 if k == ax else d for k, d in enumerate(sh)) if keepdims else \
                tuple(d for k, d in enumerate(sh) if k != ax)
        return r
    L['numpy.mean'] = np_mean
    L['ndarray.mean'] = np_mean

    def nd_transpose(E, x, *axes):
        if len(axes) == 1 and isinstance(axes[0], (tuple, SeqV)):
            axes = tuple(axes[0]) if isinstance(axes[0], tuple) else tuple(axes[0].items)
        r = E.app('ndarray.transpose', [x] + list(axes), tag='ndarray')
        sh = getattr(x, 'shape', None) if isinstance(x, SV) else None
        if sh is not None and axes and all(isinstance(a, int) for a in axes):
            r.shape = tuple(sh[a] for a in axes)
        return r
    L['ndarray.transpose'] = nd_transpose

    def nd_reshape2(E, x, *shape, **kw):
        if len(shape) == 1 and isinstance(shape[0], tuple):
            shape = shape[0]
        r = E.app('ndarray.reshape', [x] + list(shape), tag='ndarray')
        if all(isinstance(d, int) and d >= 0 or (isinstance(d, SV) and d.kind == 'int') for d in shape):
            r.shape = tuple(d if isinstance(d, int) else d.z for d in shape)
        return r

    def nd_reshape(E, x, *shape, **kw):
        if isinstance(x, ArrV):
            if len(shape) == 1 and isinstance(shape[0], tuple):
                shape = shape[0]
            r = E.app('ndarray.reshape', [x] + list(shape), tag='ndarray')
            return r
        return E.app('ndarray.reshape', [x] + list(shape), tag='ndarray')
    L['ndarray.reshape'] = nd_reshape2


def _mentions_const(expr, c):
    from .core import _const_names
    return str(c) in _const_names(expr)


def boxI_(i):
    from .core import boxI
    return boxI(i if z3.is_expr(i) else z3.IntVal(i))
