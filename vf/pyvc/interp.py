"""AST interpreter of engine A: statements, expressions, calls, symbolic loop summarisation."""
import ast
import math
import operator

import z3

from .values import (V, SV, Obj, SeqV, ArrV, CaseV, DictV, Poison, FuncV, ModV, Undecided, StrV,
                     fresh_name, is_nan, _counter)
from .core import (Engine, PyRaise, ReturnSig, BreakSig, ContinueSig, RangeV, EnumV, ZipV, FoldAcc,
                   Carried, Scope, LoopCtx, Path, ufunc, boxI, sumI, NONE)

_BINOPS = {ast.Add: '+', ast.Sub: '-', ast.Mult: '*', ast.Div: '/', ast.FloorDiv: '//', ast.Mod: '%',
           ast.Pow: '**', ast.MatMult: '@', ast.BitAnd: '&', ast.BitOr: '|', ast.BitXor: '^'}
_CMPOPS = {ast.Eq: '==', ast.NotEq: '!=', ast.Lt: '<', ast.LtE: '<=', ast.Gt: '>', ast.GtE: '>=',
           ast.Is: 'is', ast.IsNot: 'is not', ast.In: 'in', ast.NotIn: 'not in'}

EXC_NAMES = {'ValueError', 'TypeError', 'AssertionError', 'KeyError', 'IndexError', 'Warning', 'RuntimeError',
             'NotImplementedError', 'AttributeError', 'Exception', 'UserWarning', 'FileNotFoundError'}


class Interp(Engine):

    # ================================================================= function execution
    def bind_args(self, fnode, args, kwargs, self_val=None, module=None):
        a = fnode.args
        params = [p.arg for p in a.posonlyargs + a.args]
        env = {}
        pos = list(args)
        if self_val is not None:
            pos = [self_val] + pos
        if len(pos) > len(params) and a.vararg is None:
            raise PyRaise('TypeError', f'{fnode.name}() takes {len(params)} positional arguments but {len(pos)} were given')
        for p, v in zip(params, pos):
            env[p] = v
        if a.vararg is not None:
            env[a.vararg.arg] = tuple(pos[len(params):])
        kwonly = [p.arg for p in a.kwonlyargs]
        extra = {}
        for k, v in kwargs.items():
            if k in env:
                raise PyRaise('TypeError', f'{fnode.name}() got multiple values for argument {k!r}')
            if k in params or k in kwonly:
                env[k] = v
            elif a.kwarg is not None:
                extra[k] = v
            else:
                raise PyRaise('TypeError', f'{fnode.name}() got an unexpected keyword argument {k!r}')
        if a.kwarg is not None:
            env[a.kwarg.arg] = DictV(extra)
        defaults = a.defaults
        for p, d in zip(params[len(params) - len(defaults):], defaults):
            if p not in env:
                env[p] = self.eval(d, {'__module__': module})
        for p, d in zip(kwonly, a.kw_defaults):
            if p not in env and d is not None:
                env[p] = self.eval(d, {'__module__': module})
        for p in params + kwonly:
            if p not in env:
                raise PyRaise('TypeError', f'{fnode.name}() missing required argument {p!r}')
        order = params + ([a.vararg.arg] if a.vararg is not None else []) + kwonly + \
            ([a.kwarg.arg] if a.kwarg is not None else [])
        return {p: env[p] for p in order}

    def run_function(self, fv, args, kwargs):
        """symbolically execute repo function fv (FuncV 'repo') on engine values"""
        env = self.bind_args(fv.node, args, kwargs, self_val=fv.self_val, module=fv.module)
        env['__module__'] = fv.module
        try:
            self.exec_block(fv.node.body, env)
        except ReturnSig as r:
            return r.value
        return None

    # ================================================================= statements
    def exec_block(self, stmts, env):
        for s in stmts:
            self.exec_stmt(s, env)

    def exec_stmt(self, s, env):
        m = getattr(self, 'st_' + type(s).__name__, None)
        if m is None:
            raise Undecided(f'statement {type(s).__name__} outside the subset (line {getattr(s, "lineno", "?")})')
        return m(s, env)

    def st_Expr(self, s, env):
        if isinstance(s.value, ast.Constant):
            return
        self.eval(s.value, env)

    def st_Pass(self, s, env):
        pass

    def st_Return(self, s, env):
        raise ReturnSig(self.eval(s.value, env) if s.value is not None else None)

    def st_Break(self, s, env):
        raise BreakSig()

    def st_Continue(self, s, env):
        raise ContinueSig()

    def st_Assert(self, s, env):
        c = self.eval(s.test, env)
        if not self.branch(c):
            raise PyRaise('AssertionError', None)

    def st_Raise(self, s, env):
        if s.exc is None:
            raise PyRaise('Exception')
        if isinstance(s.exc, ast.Call) and isinstance(s.exc.func, ast.Name):
            raise PyRaise(s.exc.func.id)
        if isinstance(s.exc, ast.Name):
            raise PyRaise(s.exc.id)
        raise PyRaise('Exception')

    def st_If(self, s, env):
        c = self.eval(s.test, env)
        if self.branch(c):
            self.exec_block(s.body, env)
        else:
            self.exec_block(s.orelse, env)

    def st_Assign(self, s, env):
        if len(s.targets) == 1 and isinstance(s.targets[0], ast.Name) and isinstance(env.get(s.targets[0].id), FoldAcc):
            name = s.targets[0].id
            v = s.value
            if isinstance(v, ast.BinOp) and isinstance(v.left, ast.Name) and v.left.id == name and \
                    _BINOPS.get(type(v.op)) == env[name].op:
                self.loops[-1].effects.append(('fold', name, self.eval(v.right, env), env[name].op))
                return
            raise Undecided(f'accumulator {name!r} assigned in an unsupported form')
        v = self.eval(s.value, env)
        for t in s.targets:
            self.assign(t, v, env)

    def st_AnnAssign(self, s, env):
        if s.value is not None:
            self.assign(s.target, self.eval(s.value, env), env)

    def st_AugAssign(self, s, env):
        op = _BINOPS[type(s.op)]
        if isinstance(s.target, ast.Name):
            cur = env.get(s.target.id)
            if isinstance(cur, FoldAcc):
                rhs = self.eval(s.value, env)
                if op != cur.op:
                    raise Undecided('accumulator updated by different operators')
                self.loops[-1].effects.append(('fold', s.target.id, rhs, op))
                return
            cur = self.eval(ast.Name(id=s.target.id, ctx=ast.Load()), env)
            rhs = self.eval(s.value, env)
            if isinstance(cur, SeqV) and cur.kind == 'list' and op == '+':
                self.list_extend(cur, rhs)
                return
            if isinstance(cur, ArrV):
                newv = self.binop(op, cur, rhs)
                self.assign(s.target, newv, env)
                return
            res = self.binop(op, cur, rhs)
            if isinstance(cur, SV) and cur.shape is not None and isinstance(res, SV):
                res.shape, res.tag = cur.shape, cur.tag   # in-place ndarray update keeps the left operand's shape
            self.assign(s.target, res, env)
            return
        cur = self.eval(_as_load(s.target), env)
        rhs = self.eval(s.value, env)
        self.assign(s.target, self.binop(op, cur, rhs), env)

    def st_For(self, s, env):
        it = self.eval(s.iter, env)
        plan = self.iter_plan(it)
        if plan[0] == 'concrete' and isinstance(it, RangeV) and len(plan[1]) >= 3 and not s.orelse:
            # long concrete ranges are summarised like symbolic ones (avoids 2^n paths); fall back to unrolling
            saved = (list(self.pc), list(self.scopes[-1].decisions), self.scopes[-1].ptr, list(self.scopes[-1].pending))
            try:
                a = self.as_int(it.start)
                self.symbolic_loop(s.target, s.body, z3.IntVal(len(plan[1])), lambda i: SV(a + i, 'int'), env)
                return
            except Undecided:
                self.pc = saved[0]
                self.scopes[-1].decisions, self.scopes[-1].ptr, self.scopes[-1].pending = saved[1], saved[2], saved[3]
        if plan[0] == 'concrete':
            for v in plan[1]:
                self.assign(s.target, v, env)
                try:
                    self.exec_block(s.body, env)
                except BreakSig:
                    break
                except ContinueSig:
                    continue
            else:
                self.exec_block(s.orelse, env)
            return
        if s.orelse:
            raise Undecided('for-else over a symbolic range')
        self.symbolic_loop(s.target, s.body, plan[1], plan[2], env, src=it if isinstance(it, SeqV) else None)

    def st_While(self, s, env):
        for _ in range(64):
            c = self.truth(self.eval(s.test, env))
            if not isinstance(c, bool):
                raise Undecided('while loop with symbolic condition needs an invariant')
            if not c:
                return
            try:
                self.exec_block(s.body, env)
            except BreakSig:
                return
            except ContinueSig:
                continue
        raise Undecided('while loop did not terminate within 64 concrete iterations')

    def st_With(self, s, env):
        for item in s.items:
            v = self.eval(item.context_expr, env)
            if item.optional_vars is not None:
                self.assign(item.optional_vars, v, env)
        self.exec_block(s.body, env)

    def st_Import(self, s, env):
        for a in s.names:
            env[a.asname or a.name.split('.')[0]] = ModV(a.name if a.asname else a.name.split('.')[0])

    def st_ImportFrom(self, s, env):
        for a in s.names:
            env[a.asname or a.name] = FuncV('lib', f'{s.module}.{a.name}')

    def st_Try(self, s, env):
        try:
            self.exec_block(s.body, env)
        except PyRaise as e:
            for h in s.handlers:
                names = []
                if h.type is None:
                    names = None
                elif isinstance(h.type, ast.Name):
                    names = [h.type.id]
                elif isinstance(h.type, ast.Tuple):
                    names = [x.id for x in h.type.elts if isinstance(x, ast.Name)]
                if names is None or e.exc_name in names or 'Exception' in names:
                    self.exec_block(h.body, env)
                    break
            else:
                raise
        else:
            self.exec_block(s.orelse, env)
        finally:
            if s.finalbody:
                self.exec_block(s.finalbody, env)

    def st_Delete(self, s, env):
        for t in s.targets:
            if isinstance(t, ast.Name):
                env.pop(t.id, None)
            else:
                raise Undecided('del of non-name')

    def st_FunctionDef(self, s, env):
        env[s.name] = FuncV('lambda', s.name, node=s, module=env.get('__module__'), closure=env)

    # ---------------------------------------------------------------- assignment
    def assign(self, target, v, env):
        if isinstance(target, ast.Name):
            if self.loops:
                self.loops[-1].effects.append(('assign', target.id, None))
            env[target.id] = v
            return
        if isinstance(target, (ast.Tuple, ast.List)):
            vals = self.unpack(v, len(target.elts))
            for t, x in zip(target.elts, vals):
                self.assign(t, x, env)
            return
        if isinstance(target, ast.Subscript):
            if isinstance(target.value, ast.Subscript):
                outer = self.eval(target.value.value, env)
                if isinstance(outer, SeqV) and (outer.items is None or self.is_outer(outer)):
                    # X[a][b] = v on a list of (small, concrete-length) lists: replace element a by a copy with item b set.
                    # Assumes the inner list X[a] is not shared with another container (shallow copies are flagged).
                    if getattr(outer, 'shared_elems', False):
                        raise Undecided('nested store into a list whose element lists may be shared with a shallow copy')
                    a = self.eval_index(target.value.slice, env)
                    b = self.eval_index(target.slice, env)
                    inner = self.getitem(outer, a)
                    self.setitem(outer, a, self._replace_item(inner, b, v))
                    return
            base = self.eval(target.value, env)
            idx = self.eval_index(target.slice, env)
            self.setitem(base, idx, v)
            return
        if isinstance(target, ast.Attribute):
            base = self.eval(target.value, env)
            if isinstance(base, Obj):
                if self.is_outer(base):
                    raise Undecided('attribute store on an object created outside the symbolic loop')
                base.fields[target.attr] = v
                return
            raise Undecided(f'attribute store on {base!r}')
        raise Undecided(f'assignment target {type(target).__name__}')

    def _replace_item(self, inner, b, v):
        if isinstance(inner, CaseV):
            return CaseV([(g, self._replace_item(x, b, v)) for g, x in inner.cases])
        if isinstance(inner, SeqV) and inner.items is not None and isinstance(b, int) and -len(inner.items) <= b < len(inner.items):
            items = list(inner.items)
            items[b] = v
            return SeqV(items=items, kind=inner.kind, esort='val')
        raise Undecided(f'nested store into {inner!r}')

    def unpack(self, v, n):
        if isinstance(v, tuple):
            if len(v) != n:
                raise PyRaise('ValueError', 'unpack')
            return list(v)
        if isinstance(v, SeqV) and v.items is not None:
            if len(v.items) != n:
                raise PyRaise('ValueError', 'unpack')
            return list(v.items)
        if isinstance(v, CaseV):
            outs = [[] for _ in range(n)]
            for g, x in v.cases:
                parts = self.unpack(x, n)
                for k in range(n):
                    outs[k].append((g, parts[k]))
            return [CaseV(c) for c in outs]
        if isinstance(v, SV) and v.kind == 'val':
            return [self.app('getitem', [v, k]) for k in range(n)]
        if isinstance(v, SeqV):
            return [self.seq_elem(v, z3.IntVal(k)) for k in range(n)]
        raise Undecided(f'cannot unpack {v!r}')

    def is_outer(self, obj):
        """was obj created before the innermost active symbolic loop was entered?"""
        return bool(self.loops) and getattr(obj, 'birth', 1 << 60) < self.loops[-1].entry

    # ---------------------------------------------------------------- stores
    def setitem(self, base, idx, v):
        if isinstance(base, CaseV):
            raise Undecided('store into a piecewise value')
        if isinstance(base, DictV):
            if isinstance(idx, (SV, Obj, SeqV)):
                raise Undecided('dict store with symbolic key')
            if self.is_outer(base):
                raise Undecided('dict store on outer dict inside symbolic loop')
            base.d[idx] = v
            return
        if isinstance(base, SeqV):
            lp = self.loops[-1] if self.loops else None
            if lp is not None and getattr(lp, 'elem_obj', None) is base and isinstance(getattr(lp, 'elem_src', None), SeqV) \
                    and base.items is not None and isinstance(idx, int):
                # `for x in X: x[b] = v`: element i of X is replaced by a copy with item b set (inner lists not shared)
                if getattr(lp.elem_src, 'shared_elems', False):
                    raise Undecided('store into a loop element whose list may be shared with a shallow copy')
                base.items[idx] = v
                self.loops[-1].effects.append(('setitem', lp.elem_src, SV(lp.idx, 'int'),
                                               SeqV(items=list(base.items), kind=base.kind, esort='val')))
                return
            if self.is_outer(base):
                self.loops[-1].effects.append(('setitem', base, idx, v))
                return
            if base.items is not None and isinstance(idx, int):
                if not -len(base.items) <= idx < len(base.items):
                    raise PyRaise('IndexError')
                base.items[idx] = v
                return
            if base.items is not None and isinstance(idx, SV):
                raise Undecided('list store at symbolic index into concrete list')
            old_elem = base.elem
            iz = self.as_int(idx)
            base.elem = lambda t, old=old_elem, iz=iz, v=v: CaseV([(t == iz, v), (t != iz, old(t))])
            base.term = None
            return
        if isinstance(base, ArrV) and len(base.shape) == 1 and not base.clauses and isinstance(idx, SeqV) \
                and getattr(idx, 'perm', False) and isinstance(v, (SeqV, RangeV)) and not self.loops:
            # s[P] = v with P a permutation of range(len(s)): every cell is written once, s[k] = v[P^-1(k)]
            vs = self.as_seq(v)
            st, _, _ = self.prove(z3.And(idx.zlen() == base.shape[0], vs.zlen() == idx.zlen()))
            if st == 'proved':
                base.perm_store = (idx, vs)
                base.term = z3.Const(fresh_name('arr'), V)
                return
            raise Undecided('scatter through a permutation whose length is not the length of the array')
        if isinstance(base, ArrV):
            index = self.norm_index(idx, len(base.shape))
            clause = ([], z3.BoolVal(True), index, v)
            self.store_clause(base, clause)
            return
        if isinstance(base, Obj):
            fn = self.methods.get((base.cls, '__setitem__'))
            if fn is not None:
                if self.loops and self.is_outer(base):
                    raise Undecided('item store into an object created outside the symbolic loop')
                return fn(self, base, idx, v)
        if isinstance(base, SV) and base.kind == 'val':
            if base.frozen or self.loops or (base.app is not None and base.app[0].startswith('attr.')):
                raise Undecided('store into an opaque array that may be shared with the caller (would need an aliasing model)')
            # in-place update of a locally created array: every alias (the same SV object) sees the new contents
            old = SV(base.z, 'val', app=base.app, tag=base.tag, shape=base.shape)
            new = self.app('setitem', [old, idx, v], tag=base.tag)
            base.z, base.app = new.z, new.app
            return
        raise Undecided(f'store into {base!r}')

    def norm_index(self, idx, rank):
        if not isinstance(idx, tuple):
            idx = (idx,)
        out = []
        for x in idx:
            if isinstance(x, slice):
                if x.start is None and x.stop is None and x.step is None:
                    out.append(None)
                else:
                    raise Undecided('partial slice store')
            elif isinstance(x, (int, SV)):
                out.append(self.as_int(x))
            else:
                out.append(('opaque', x))
        while len(out) < rank:
            out.append(None)
        return tuple(out)

    def store_clause(self, arr, clause):
        if self.is_outer(arr):
            self.loops[-1].effects.append(('clause', arr, clause))
            return
        arr.clauses.append(clause)
        arr.term = z3.Const(fresh_name('arr'), V)

    def list_append(self, lst, v):
        if self.is_outer(lst):
            self.loops[-1].effects.append(('append', lst, v))
            return
        if lst.items is not None:
            lst.items.append(v)
            return
        n0 = lst.length
        old = lst.elem
        lst.elem = lambda t, old=old, n0=n0, v=v: CaseV([(t == n0, v), (t != n0, old(t))])
        lst.length = n0 + 1
        lst.mem = None
        lst.term = None

    def list_extend(self, lst, other):
        if self.is_outer(lst):
            self.loops[-1].effects.append(('extend', lst, other))
            return
        if lst.items is not None and isinstance(other, SeqV) and other.items is not None:
            lst.items.extend(other.items)
            return
        if lst.items is not None and isinstance(other, tuple):
            lst.items.extend(other)
            return
        new = self.seq_concat([lst_copy(lst), other])
        lst.become(new)

    def seq_concat(self, parts):
        parts = [self.as_seq(p) for p in parts]
        if all(p.items is not None for p in parts):
            return SeqV(items=[x for p in parts for x in p.items], kind=parts[0].kind, esort=parts[0].esort)
        esort = 'int' if all(p.esort == 'int' for p in parts) else 'val'
        lens = [p.zlen() for p in parts]
        total = lens[0]
        for n in lens[1:]:
            total = total + n

        def elem(t):
            cases = []
            off = z3.IntVal(0)
            for p, n in zip(parts, lens):
                cases.append((z3.And(t >= off, t < off + n), self.seq_elem(p, t - off)))
                off = off + n
            return CaseV(cases) if len(cases) > 1 else cases[0][1]

        mem = None
        if all(p.mem is not None or p.items is not None for p in parts):
            def mem(x):
                return z3.Or([self.seq_mem(p, x) for p in parts])
        return SeqV(length=z3.simplify(total), elem=elem, mem=mem, kind=parts[0].kind, esort=esort)

    def as_seq(self, v):
        if isinstance(v, SeqV):
            return v
        if isinstance(v, tuple):
            es = 'int' if all(isinstance(x, int) or (isinstance(x, SV) and x.kind == 'int') for x in v) and v else 'val'
            return SeqV(items=list(v), kind='tuple', esort=es)
        if isinstance(v, SV) and v.kind == 'val':
            return self.opaque_seq(v)
        if isinstance(v, RangeV):
            a, b = self.as_int(v.start), self.as_int(v.stop)
            return SeqV(length=z3.If(b > a, b - a, 0), elem=lambda t: SV(a + t, 'int'),
                        mem=lambda x: z3.And(x >= a, x < b), kind='list', esort='int', canon=True)
        raise Undecided(f'not a sequence: {v!r}')

    # ================================================================= loops
    def iter_plan(self, it):
        if isinstance(it, SeqV):
            if it.items is not None:
                return ('concrete', list(it.items))
            return ('symbolic', it.length, lambda i: self.seq_elem(it, i))
        if isinstance(it, (tuple, list)):
            return ('concrete', list(it))
        if isinstance(it, str):
            return ('concrete', list(it))
        if isinstance(it, DictV):
            return ('concrete', list(it.d.keys()))
        if isinstance(it, RangeV):
            if isinstance(it.start, int) and isinstance(it.stop, int):
                return ('concrete', list(range(it.start, it.stop)))
            a, b = self.as_int(it.start), self.as_int(it.stop)
            return ('symbolic', z3.If(b > a, b - a, 0), lambda i: SV(a + i, 'int'))
        if isinstance(it, EnumV):
            p = self.iter_plan(it.inner)
            if p[0] == 'concrete':
                return ('concrete', [(k + it.start, v) for k, v in enumerate(p[1])])
            return ('symbolic', p[1], lambda i: (SV(i + it.start, 'int'), p[2](i)))
        if isinstance(it, ZipV):
            ps = [self.iter_plan(x) for x in it.parts]
            if all(p[0] == 'concrete' for p in ps):
                return ('concrete', list(zip(*[p[1] for p in ps])))
            raise Undecided('zip over symbolic sequences')
        if isinstance(it, SV) and it.kind == 'val':
            n = self.seq_len(it)
            return ('symbolic', n.z, lambda i: self.app('getitem', [it, SV(i, 'int')]))
        if isinstance(it, ArrV):
            d = it.shape[0]
            return ('symbolic', d if z3.is_expr(d) else z3.IntVal(d), lambda i: self.app('getitem', [it, SV(i, 'int')]))
        if isinstance(it, Obj):
            fn = self.methods.get((it.cls, '__iter__'))
            if fn:
                return self.iter_plan(fn(self, it))
            n = self.seq_len(it)
            return ('symbolic', self.as_int(n), lambda i: self.app('getitem', [it, SV(i, 'int')]))
        raise Undecided(f'iteration over {it!r}')

    def symbolic_loop(self, target, body, n, elem, env, comp=None, src=None):
        """map/fold summarisation of `for target in <n items>: body` at a Skolem index.

        comp: for comprehensions, (elt_node, cond_nodes) -- returns the resulting SeqV instead."""
        n = z3.simplify(n)
        i = z3.Int(fresh_name('i'))
        rng = z3.And(i >= 0, i < n)
        assigned = _assigned_names(body) | _assigned_names([target]) if comp is None else _assigned_names([target])
        pre_env = dict(env)
        loop = LoopCtx(i, n, next(_counter))
        paths = []
        base_pc = len(self.pc)
        work = [[]]
        guard0 = len(self.pc)
        rand0 = dict(self.rand_count)
        rand_max = dict(rand0)
        while work:
            prefix = work.pop()
            env2 = dict(pre_env)
            self.rand_count = dict(rand0)     # call ordinals of random functions are per iteration, equal on all body paths
            for name in assigned:
                if name in pre_env:
                    env2[name] = Carried(name, pre_env[name])
            if comp is None:
                for name, fop in _fold_candidates(body).items():
                    if name in pre_env and not isinstance(pre_env[name], (Carried, FoldAcc, Poison)):
                        acc = FoldAcc(name, pre_env[name])
                        acc.op = fop
                        env2[name] = acc
            loop.effects = []
            loop.carried_reads = set()
            del self.pc[base_pc:]
            self.pc.append(rng)
            sc = Scope(prefix)
            self.scopes.append(sc)
            self.loops.append(loop)
            outcome = 'normal'
            result = None
            try:
                ev0 = elem(i)
                loop.elem_obj, loop.elem_src = (ev0, src) if isinstance(ev0, SeqV) else (None, None)
                self.assign(target, ev0, env2)
                if comp is None:
                    try:
                        self.exec_block(body, env2)
                    except ContinueSig:
                        pass
                else:
                    keep = True
                    for cnd in comp[1]:
                        if not self.branch(self.eval(cnd, env2)):
                            keep = False
                            break
                    result = ('keep', self.eval(comp[0], env2)) if keep else ('drop', None)
            except BreakSig:
                raise Undecided('break inside a loop over a symbolic range')
            except ReturnSig:
                raise Undecided('return inside a loop over a symbolic range')
            except PyRaise as e:
                outcome = e
            finally:
                self.loops.pop()
                self.scopes.pop()
            for kq, vq in self.rand_count.items():
                rand_max[kq] = max(rand_max.get(kq, 0), vq)
            guard = z3.And(self.pc[base_pc + 1:]) if len(self.pc) > base_pc + 1 else z3.BoolVal(True)
            paths.append(dict(guard=guard, env=env2, effects=list(loop.effects), outcome=outcome, result=result,
                              carried_reads=set(loop.carried_reads)))
            work.extend(sc.pending)
            if len(paths) > 64:
                raise Undecided('too many paths in loop body')
        del self.pc[base_pc:]
        self.rand_count = rand_max
        # ---- exceptions inside the body: the loop raises iff some iteration does
        raising = [p for p in paths if p['outcome'] != 'normal']
        normal = [p for p in paths if p['outcome'] == 'normal']
        if raising:
            g_any = z3.Or([p['guard'] for p in raising])
            w = z3.Int(fresh_name('w'))
            some = z3.And(w >= 0, w < n, z3.substitute(g_any, (i, w)))
            if self.branch(some):
                raise raising[0]['outcome']
            self.pc.append(z3.ForAll([i], z3.Implies(rng, z3.Not(g_any))))
        if comp is not None:
            return self._finish_comp(i, n, normal, elem)
        self._finish_loop(i, n, normal, pre_env, env, assigned)

    def _guarded_filter(self, i, n, kept):
        """[value_p(i) for i in range(n) if some guard_p(i)] for the (guard, value) pairs `kept` (guards exclusive)"""
        def keep(j):
            pairs = [(i, j)]
            self.subst_facts(pairs)
            return z3.Or([z3.substitute(g, *pairs) for g, _ in kept])

        def val(j):
            pairs = [(i, j)]
            self.subst_facts(pairs)
            cs = [(z3.substitute(g, *pairs), self.subst(v, pairs)) for g, v in kept]
            return cs[0][1] if len(cs) == 1 else CaseV(cs)
        ident = all(isinstance(v, SV) and v.kind == 'int' and z3.eq(z3.simplify(v.z - i), z3.IntVal(0)) for _, v in kept)
        allint = all(isinstance(v, int) or (isinstance(v, SV) and v.kind == 'int') for _, v in kept)
        return self.make_filter(n, keep, None if ident else val, esort='int' if allint else 'val')

    def _finish_comp(self, i, n, paths, src_elem):
        for p in paths:
            if any(e[0] != 'assign' for e in p['effects']):
                raise Undecided('side effect inside comprehension')
        if any(p['result'][0] == 'drop' for p in paths):
            kept = [(p['guard'], p['result'][1]) for p in paths if p['result'][0] == 'keep']
            if not kept:
                return SeqV(items=[], kind='list')
            return self._guarded_filter(i, n, kept)
        cases = [(p['guard'], p['result'][1]) for p in paths]

        def elem(t, cases=cases):
            pairs = [(i, t)]
            self.subst_facts(pairs)
            cs = [(z3.substitute(g, *pairs), self.subst(v, pairs)) for g, v in cases]
            return cs[0][1] if len(cs) == 1 else CaseV(cs)
        out = SeqV(length=n, elem=elem, kind='list')
        v0 = cases[0][1] if len(cases) == 1 else None
        if isinstance(v0, SV) and v0.kind == 'int':
            out.esort = 'int'
        return out

    def _finish_loop(self, i, n, paths, pre_env, env, assigned):
        if not paths:
            return
        # ---- loop-carried reads: only the invariant "unchanged" is supported
        carried = set()
        for p in paths:
            carried |= p['carried_reads']
        for name in carried:
            pre = pre_env[name]
            for p in paths:
                post = p['env'].get(name)
                if isinstance(post, Carried):
                    continue
                st, _, _ = self.prove(self.veq(post, pre), pc=self.pc + [z3.And(i >= 0, i < n), p['guard']])
                if st != 'proved':
                    raise Undecided(f'loop-carried variable {name!r} is read before it is written and changes')
        # ---- group effects
        appends, extends, setitems, clauses, folds = {}, {}, {}, {}, {}
        for pi, p in enumerate(paths):
            for e in p['effects']:
                if e[0] == 'append':
                    appends.setdefault(id(e[1]), (e[1], {}))[1].setdefault(pi, []).append(e[2])
                elif e[0] == 'extend':
                    extends.setdefault(id(e[1]), (e[1], {}))[1].setdefault(pi, []).append(e[2])
                elif e[0] == 'setitem':
                    setitems.setdefault(id(e[1]), (e[1], {}))[1].setdefault(pi, []).append((e[2], e[3]))
                elif e[0] == 'clause':
                    clauses.setdefault(id(e[1]), (e[1], []))[1].append((pi, e[2]))
                elif e[0] == 'fold':
                    folds.setdefault((e[1], e[3]), {}).setdefault(pi, []).append(e[2])
        for key in set(appends) & set(extends):
            raise Undecided('list both appended to and extended in one loop')
        # ---- appends
        for _, (lst, per_path) in appends.items():
            counts = {len(per_path.get(pi, [])) for pi in range(len(paths))}
            if counts == {0, 1}:
                # conditional append: the appended values form a FILTER of the iterations
                kept = [(paths[pi]['guard'], per_path[pi][0]) for pi in range(len(paths)) if per_path.get(pi)]
                block = self._guarded_filter(i, n, kept)
                block.kind = lst.kind
                if self.is_outer(lst):
                    # the list lives outside an enclosing symbolic loop: one block per iteration of that loop
                    self.loops[-1].effects.append(('extend', lst, block))
                    continue
                old = lst_copy(lst)
                if old.items is not None and not old.items:
                    self._replace_list(lst, block)
                else:
                    self._replace_list(lst, self.seq_concat([old, block]))
                continue
            if counts != {1}:
                self._poison_list(lst, 'list appended a path-dependent number of times in a symbolic loop')
                continue
            cases = [(paths[pi]['guard'], per_path[pi][0]) for pi in range(len(paths))]
            old = lst_copy(lst)
            n0 = old.zlen()

            def elem(t, cases=cases, old=old, n0=n0):
                pairs = [(i, t - n0)]
                self.subst_facts(pairs)
                cs = [(z3.substitute(g, *pairs), self.subst(v, pairs)) for g, v in cases]
                new = cs[0][1] if len(cs) == 1 else CaseV(cs)
                if old.items is not None and not old.items:
                    return new
                return CaseV([(t < n0, self.seq_elem(old, t)), (t >= n0, new)])
            new = SeqV(length=z3.simplify(n0 + n), elem=elem, kind=lst.kind)
            self._replace_list(lst, new)
        # ---- extends (constant block length)
        for _, (lst, per_path) in extends.items():
            counts = {len(per_path.get(pi, [])) for pi in range(len(paths))}
            if counts != {1}:
                self._poison_list(lst, 'list extended a path-dependent number of times in a symbolic loop')
                continue
            blocks = [(paths[pi]['guard'], self.as_seq(per_path[pi][0])) for pi in range(len(paths))]
            L = blocks[0][1].zlen()
            j = z3.Int(fresh_name('j'))
            ok = True
            for g, b in blocks:
                st, _, _ = self.prove(z3.substitute(b.zlen(), (i, j)) == L, pc=self.pc + [z3.And(i >= 0, i < n, j >= 0, j < n)])
                ok = ok and st == 'proved'
            if not ok or _mentions(L, i):
                self._extend_varying(lst, i, n, blocks)
                continue
            old = lst_copy(lst)
            n0 = old.zlen()
            self.fact(z3.Implies(n > 0, L >= 0))

            def elem(t, blocks=blocks, old=old, n0=n0, L=L):
                u = t - n0
                if z3.is_int_value(L) and L.as_long() > 0:
                    q, r = u / L, u % L
                else:
                    q = z3.Int(fresh_name('q'))
                    r = z3.Int(fresh_name('r'))
                    self.fact(z3.Implies(z3.And(L > 0, u >= 0), z3.And(u == q * L + r, r >= 0, r < L, q >= 0)))
                pairs = [(i, q)]
                self.subst_facts(pairs)
                cs = [(z3.substitute(g, *pairs), self.seq_elem(self.subst(b, pairs), r)) for g, b in blocks]
                new = cs[0][1] if len(cs) == 1 else CaseV(cs)
                if old.items is not None and not old.items:
                    return new
                return CaseV([(t < n0, self.seq_elem(old, t)), (t >= n0, new)])
            new = SeqV(length=z3.simplify(n0 + n * L), elem=elem, kind=lst.kind)
            self._replace_list(lst, new)
        # ---- stores into list elements at the loop index
        for _, (lst, per_path) in setitems.items():
            old = lst_copy(lst)
            allc = []
            for pi, p in enumerate(paths):
                for (idx, v) in per_path.get(pi, []):
                    allc.append((p['guard'], self.as_int(idx), v))

            def elem(t, allc=allc, old=old):
                cases = []
                neg = []
                for g, ix, v in allc:
                    # the store index must be an injective function of the loop index: solve ix(i) == t for i
                    w = z3.Int(fresh_name('w'))
                    pairs = [(i, w)]
                    self.subst_facts(pairs)
                    hit = z3.And(w >= 0, w < n, z3.substitute(g, *pairs), z3.substitute(ix, *pairs) == t)
                    if not z3.eq(z3.simplify(ix - i), z3.IntVal(0)):
                        raise Undecided('list store at an index other than the loop index')
                    hit = z3.substitute(hit, (w, t))
                    cases.append((z3.And(hit, *[z3.Not(x) for x in neg]), self.subst(v, [(i, t)])))
                    neg.append(hit)
                cases.append((z3.And([z3.Not(x) for x in neg]), self.seq_elem(old, t)))
                return CaseV(cases)
            new = SeqV(length=old.zlen(), elem=elem, kind=lst.kind)
            self._replace_list(lst, new)
        # ---- array clauses
        for _, (arr, items) in clauses.items():
            for pi, (bound, g, index, val) in items:
                cl = ([(i, z3.IntVal(0), n)] + list(bound), z3.And(paths[pi]['guard'], g), index, val)
                self.store_clause(arr, cl)
        # ---- folds
        fold_names = set()
        for (name, fop), per_path in folds.items():
            fold_names.add(name)
            pre = pre_env[name]
            if isinstance(pre, (Carried, FoldAcc)):
                pre = pre.pre
            if fop == '|':
                env[name] = self._or_fold(i, n, paths, per_path, pre)
                continue
            if fop != '+':
                raise Undecided(f'accumulation with operator {fop}')
            terms = []
            for pi, p in enumerate(paths):
                vs = per_path.get(pi, [])
                if len(vs) == 0:
                    terms.append((p['guard'], 0))
                elif len(vs) == 1:
                    terms.append((p['guard'], vs[0]))
                else:
                    acc = vs[0]
                    for x in vs[1:]:
                        acc = self.binop('+', acc, x)
                    terms.append((p['guard'], acc))
            body = terms[0][1] if len(terms) == 1 else CaseV(terms)
            total = self.make_sum(i, n, body)
            env[name] = self.binop('+', pre, total)
        # ---- last-write-wins variables
        last = [(i, n - 1)]
        for name in assigned:
            if name in fold_names:
                continue
            vals = []
            for p in paths:
                v = p['env'].get(name, Poison(f'{name} unbound after loop'))
                vals.append((p['guard'], v))
            if all(isinstance(v, Carried) for _, v in vals):
                continue
            if any(isinstance(v, (Carried, FoldAcc)) for _, v in vals):
                # assigned on some paths only: fine if every assignment re-binds the value it had before the loop
                pre = pre_env.get(name)
                same = pre is not None and not isinstance(pre, (Carried, FoldAcc))
                if same:
                    for pth, (g, v) in zip(paths, vals):
                        if isinstance(v, (Carried, FoldAcc)):
                            continue
                        try:
                            st, _, _ = self.prove(self.veq(v, pre), pc=self.pc + [z3.And(i >= 0, i < n), g])
                        except Undecided:
                            st = 'unknown'
                        same = same and st == 'proved'
                if same:
                    env[name] = pre
                else:
                    env[name] = Poison(f'variable {name!r} assigned on some loop paths only')
                continue
            try:
                self.subst_facts(last)
                cs = [(z3.substitute(g, *last), self.subst(v, last)) for g, v in vals]
                newv = cs[0][1] if len(cs) == 1 else CaseV(cs)
                if name in pre_env and not isinstance(pre_env[name], (Carried,)):
                    env[name] = CaseV([(n > 0, newv), (n <= 0, pre_env[name])])
                else:
                    env[name] = newv
            except Undecided as u:
                env[name] = Poison(str(u))

    def _extend_varying(self, lst, i, n, blocks):
        """lst.extend(block(i)) for i in range(n) with blocks of VARYING length: the concatenation, described by the prefix
        sums off (off(0) = 0, off(q+1) = off(q) + len(block(q)), non-decreasing) and the block-of-position function blk"""
        old = lst_copy(lst)
        n0 = old.zlen()
        nn = z3.If(n > 0, n, 0)
        off = self.fresh_fun('off', 'int')
        blk = self.fresh_fun('blk', 'int')

        def blen(q):
            pairs = [(i, q)]
            self.subst_facts(pairs)
            out = None
            for g, b in reversed(blocks):
                z = z3.substitute(b.zlen(), *pairs)
                out = z if out is None else z3.If(z3.substitute(g, *pairs), z, out)
            return out

        def block_at(q):
            pairs = [(i, q)]
            self.subst_facts(pairs)
            cs = [(z3.substitute(g, *pairs), self.subst(b, pairs)) for g, b in blocks]
            return cs

        self.fact(off(z3.IntVal(0)) == 0)
        qa, qb = z3.Int(fresh_name('qa')), z3.Int(fresh_name('qb'))
        # prefix sums of non-negative lengths are non-decreasing (lemma by induction, stated as an axiom of the summary)
        self.fact(z3.ForAll([qa, qb], z3.Implies(z3.And(qa >= 0, qa <= qb, qb <= nn), off(qa) <= off(qb)),
                            patterns=[z3.MultiPattern(off(qa), off(qb))]))

        def off_at(q):
            """instantiate the prefix-sum facts around block q"""
            lq = blen(q)
            self.fact(z3.Implies(z3.And(q >= 0, q < nn), z3.And(off(q + 1) == off(q) + lq, lq >= 0, off(q) >= 0,
                                                                off(q + 1) <= off(nn))))
            return off(q)
        total = off(nn)
        self.fact(total >= 0)

        def elem(t):
            u = t - n0
            q = blk(u)
            self.fact(z3.Implies(z3.And(u >= 0, u < total), z3.And(q >= 0, q < nn)))
            oq = off_at(q)
            self.fact(z3.Implies(z3.And(u >= 0, u < total), z3.And(oq <= u, u < off(q + 1))))
            cs = [(g, self.seq_elem(b, u - oq)) for g, b in block_at(q)]
            new = cs[0][1] if len(cs) == 1 else CaseV(cs)
            if old.items is not None and not old.items:
                return new
            return CaseV([(t < n0, self.seq_elem(old, t)), (t >= n0, new)])
        esort = 'int' if all(b.esort == 'int' for _, b in blocks) and (old.items == [] or old.esort == 'int') else 'val'
        new = SeqV(length=z3.simplify(n0 + total), elem=elem, kind=lst.kind, esort=esort)
        new.blocks = dict(n=nn, off=off_at, blen=blen, block=block_at, n0=n0)
        self._replace_list(lst, new)

    def _or_fold(self, i, n, paths, per_path, pre):
        """acc = acc | term(i) over a symbolic loop: element-wise OR of boolean 1-D arrays (or of booleans):
        result[j] = pre[j] or EXISTS i in [0, n): term(i)[j]"""
        terms = []
        for pi, p in enumerate(paths):
            for v in per_path.get(pi, []):
                terms.append((p['guard'], v))

        def pre_cell(j):
            if isinstance(pre, ArrV) and len(pre.shape) == 1 and not pre.clauses and pre.fill == 0:
                return z3.BoolVal(False)
            if isinstance(pre, SeqV):
                return self._zb(self.truth(self.seq_elem(pre, j)))
            raise Undecided('OR-accumulator with an unsupported initial value')
        if isinstance(pre, (bool,)) or (isinstance(pre, SV) and pre.kind == 'bool'):
            w = z3.Int(fresh_name('oi'))
            pairs = [(i, w)]
            self.subst_facts(pairs)
            ex = [z3.And(z3.substitute(g, *pairs), self._zb(self.truth(self.subst(v, pairs)))) for g, v in terms]
            return SV(z3.Or(self._zb(self.truth(pre)), z3.Exists([w], z3.And(w >= 0, w < n, z3.Or(ex)))), 'bool')
        if isinstance(pre, ArrV) and len(pre.shape) == 1:
            length = pre.shape[0] if z3.is_expr(pre.shape[0]) else z3.IntVal(pre.shape[0])
        elif isinstance(pre, SeqV):
            length = pre.zlen()
        else:
            raise Undecided('OR-accumulator with an unsupported initial value')
        for _, v in terms:
            if not isinstance(v, SeqV):
                raise Undecided('OR-accumulation of a non-array term')

        def elem(j):
            w = z3.Int(fresh_name('oi'))
            pairs = [(i, w)]
            self.subst_facts(pairs)
            ex = [z3.And(z3.substitute(g, *pairs), self._zb(self.truth(self.seq_elem(self.subst(v, pairs), j)))) for g, v in terms]
            return SV(z3.Or(pre_cell(j), z3.Exists([w], z3.And(w >= 0, w < n, z3.Or(ex)))), 'bool')
        return SeqV(length=length, elem=elem, kind='array')

    def make_sum(self, i, n, body):
        """Sum_{i<n} body(i) as an opaque value (only congruence is known about Sum)"""
        k = z3.Int(fresh_name('k'))
        lam = z3.Lambda([k], z3.substitute(self.toV(body), (i, k)))
        sv = SV(sumI(n, lam), 'val')
        sv.app = ('Sum', [SV(n, 'int'), ('lambda', i, body)], None)
        return sv

    def _poison_list(self, lst, why):
        lst.items = None
        lst.length = z3.Int(fresh_name('len'))
        lst.elem = lambda t: (_ for _ in ()).throw(Undecided(why))
        lst.mem = None
        lst.term = None

    def _replace_list(self, lst, new):
        if self.is_outer(lst):
            raise Undecided('nested symbolic loops building the same list')
        lst.become(new)

    # ================================================================= expressions
    def eval(self, e, env):
        m = getattr(self, 'ex_' + type(e).__name__, None)
        if m is None:
            raise Undecided(f'expression {type(e).__name__} outside the subset')
        return m(e, env)

    def ex_Constant(self, e, env):
        return e.value

    def ex_Name(self, e, env):
        n = e.id
        scope = env
        while scope is not None:
            if n in scope:
                v = scope[n]
                if isinstance(v, Carried):
                    if self.loops:
                        self.loops[-1].carried_reads.add(n)
                    return v.pre
                if isinstance(v, FoldAcc):
                    raise Undecided(f'accumulator {n!r} read inside the loop')
                if isinstance(v, Poison):
                    raise Undecided(v.why)
                return v
            scope = scope.get('__closure__')
        mod = env.get('__module__')
        if mod:
            v = self.resolve_global(mod, n)
            if v is not None:
                return v
        if n in _BUILTINS:
            return FuncV('builtin', n)
        if n in EXC_NAMES:
            return FuncV('builtin', n)
        if n in ('True', 'False', 'None'):
            return {'True': True, 'False': False, 'None': None}[n]
        raise Undecided(f'unresolved name {n!r}')

    def ex_Tuple(self, e, env):
        out = []
        for x in e.elts:
            if isinstance(x, ast.Starred):
                out.extend(self.unpack_star(self.eval(x.value, env)))
            else:
                out.append(self.eval(x, env))
        return tuple(out)

    def ex_List(self, e, env):
        items = []
        for x in e.elts:
            if isinstance(x, ast.Starred):
                items.extend(self.unpack_star(self.eval(x.value, env)))
            else:
                items.append(self.eval(x, env))
        es = 'int' if items and all((isinstance(x, int) and not isinstance(x, bool)) or (isinstance(x, SV) and x.kind == 'int') for x in items) else 'val'
        return SeqV(items=items, kind='list', esort=es)

    def unpack_star(self, v):
        if isinstance(v, tuple):
            return list(v)
        if isinstance(v, SeqV) and v.items is not None:
            return list(v.items)
        raise Undecided('star-unpacking of a symbolic sequence')

    def ex_Dict(self, e, env):
        d = {}
        for k, v in zip(e.keys, e.values):
            if k is None:
                inner = self.eval(v, env)
                if not isinstance(inner, DictV):
                    raise Undecided('** of non-dict')
                d.update(inner.d)
                continue
            kk = self.eval(k, env)
            if isinstance(kk, (SV, Obj, SeqV)):
                raise Undecided('dict literal with symbolic key')
            d[kk] = self.eval(v, env)
        return DictV(d)

    def ex_JoinedStr(self, e, env):
        parts = []
        for x in e.values:
            if isinstance(x, ast.Constant):
                parts.append(x.value)
            else:
                v = self.eval(x.value, env)
                if isinstance(v, (str, int, float)):
                    parts.append(str(v))
                else:
                    return self.app('fstring', [ast.dump(e)] + [v])
        return ''.join(parts)

    def ex_Lambda(self, e, env):
        return FuncV('lambda', '<lambda>', node=e, module=env.get('__module__'), closure=env)

    def ex_IfExp(self, e, env):
        if self.branch(self.eval(e.test, env)):
            return self.eval(e.body, env)
        return self.eval(e.orelse, env)

    def ex_BoolOp(self, e, env):
        # python semantics: `a or b` / `a and b` return one of the operand VALUES
        v = None
        if isinstance(e.op, ast.And):
            for x in e.values:
                v = self.eval(x, env)
                if not self.branch(v):
                    return v if not (isinstance(v, SV) and v.kind == 'bool') else False
            return v if not (isinstance(v, SV) and v.kind == 'bool') else True
        for x in e.values:
            v = self.eval(x, env)
            if self.branch(v):
                return v if not (isinstance(v, SV) and v.kind == 'bool') else True
        return v if not (isinstance(v, SV) and v.kind == 'bool') else False

    def ex_UnaryOp(self, e, env):
        v = self.eval(e.operand, env)
        if isinstance(e.op, ast.Not):
            t = self.truth(v)
            return (not t) if isinstance(t, bool) else SV(z3.Not(t), 'bool')
        if isinstance(e.op, ast.USub):
            if isinstance(v, (int, float)):
                return -v
            if isinstance(v, SV) and v.kind in ('int', 'real'):
                return SV(-v.z, v.kind)
            return self.app('neg', [v])
        if isinstance(e.op, ast.UAdd):
            return v
        if isinstance(e.op, ast.Invert):
            if isinstance(v, SV) and v.kind == 'bool':
                return SV(z3.Not(v.z), 'bool')
            if isinstance(v, int) and not isinstance(v, bool):
                return ~v
            return self.app('invert', [v])
        raise Undecided('unary op')

    def ex_BinOp(self, e, env):
        return self.binop(_BINOPS[type(e.op)], self.eval(e.left, env), self.eval(e.right, env))

    def binop(self, op, a, b):
        if isinstance(a, CaseV):
            return CaseV([(g, self.binop(op, x, b)) for g, x in a.cases])
        if isinstance(b, CaseV):
            return CaseV([(g, self.binop(op, a, x)) for g, x in b.cases])
        conc = (int, float, str, bool, type(None))
        if isinstance(a, conc) and isinstance(b, conc):
            try:
                return _PYOPS[op](a, b)
            except ZeroDivisionError:
                raise PyRaise('ZeroDivisionError')
        if op == '+' and isinstance(a, tuple) and isinstance(b, tuple):
            return a + b
        if isinstance(a, SeqV) and a.kind in ('list', 'tuple'):
            if op == '+' and isinstance(b, (SeqV, tuple)):
                return self.seq_concat([a, b])
            if op == '*' and (isinstance(b, int) or (isinstance(b, SV) and b.kind == 'int')):
                return self.seq_repeat(a, b)
        if isinstance(b, SeqV) and b.kind in ('list', 'tuple') and op == '*' and \
                (isinstance(a, int) or (isinstance(a, SV) and a.kind == 'int')):
            return self.seq_repeat(b, a)
        if op == '%' and isinstance(a, str):
            return self.app('strformat', [a, b])
        if self.is_numeric(a) and self.is_numeric(b):
            ia = isinstance(a, int) or (isinstance(a, SV) and a.kind == 'int')
            ib = isinstance(b, int) or (isinstance(b, SV) and b.kind == 'int')
            if ia and ib:
                x, y = self.as_int(a), self.as_int(b)
                if op == '+':
                    return SV(x + y, 'int')
                if op == '-':
                    return SV(x - y, 'int')
                if op == '*':
                    return SV(x * y, 'int')
                if op == '//':
                    self._nonzero(y)
                    return SV(x / y, 'int')
                if op == '%':
                    self._nonzero(y)
                    return SV(x % y, 'int')
                if op == '/':
                    self._nonzero(y)
                    return SV(z3.ToReal(x) / z3.ToReal(y), 'real', ratio=(x, y))
                if op == '**' and isinstance(b, int) and 0 <= b <= 4:
                    r = z3.IntVal(1)
                    for _ in range(b):
                        r = r * x
                    return SV(r, 'int')
            else:
                x, y = self.as_real(a), self.as_real(b)
                if op == '+':
                    return SV(x + y, 'real')
                if op == '-':
                    return SV(x - y, 'real')
                if op == '*':
                    return SV(x * y, 'real')
                if op == '/':
                    self._nonzero(y)
                    return SV(x / y, 'real')
                if op == '**' and isinstance(b, int) and 0 <= b <= 4:
                    r = z3.RealVal(1)
                    for _ in range(b):
                        r = r * x
                    return SV(r, 'real')
        if isinstance(a, SV) and a.kind == 'bool' and isinstance(b, SV) and b.kind == 'bool' and op in '&|^':
            return SV({'&': z3.And, '|': z3.Or, '^': z3.Xor}[op](a.z, b.z), 'bool')
        r = self.app(f'op{op}', [a, b])
        sh = self._broadcast(getattr(a, 'shape', None) if isinstance(a, SV) else (() if isinstance(a, (int, float)) else None),
                             getattr(b, 'shape', None) if isinstance(b, SV) else (() if isinstance(b, (int, float)) else None))
        if sh is not None and op != '@':
            r.shape = sh
            r.tag = 'ndarray'
        return r

    def _broadcast(self, sa, sb):
        if sa is None or sb is None:
            return None
        if len(sa) < len(sb):
            sa = (1,) * (len(sb) - len(sa)) + tuple(sa)
        if len(sb) < len(sa):
            sb = (1,) * (len(sa) - len(sb)) + tuple(sb)
        out = []
        for x, y in zip(sa, sb):
            if isinstance(x, int) and x == 1:
                out.append(y)
            elif isinstance(y, int) and y == 1:
                out.append(x)
            elif (isinstance(x, int) and isinstance(y, int) and x == y) or (z3.is_expr(x) and z3.is_expr(y) and z3.eq(x, y)):
                out.append(x)
            else:
                return None
        return tuple(out)

    def _nonzero(self, y):
        if self.sat(y == 0) != z3.unsat:
            if self.branch(y == 0):
                raise PyRaise('ZeroDivisionError')

    def seq_repeat(self, s, k):
        if s.items is not None and isinstance(k, int):
            return SeqV(items=list(s.items) * k, kind=s.kind, esort=s.esort)
        if s.items is not None and len(s.items) == 1:
            kz = self.as_int(k)
            x = s.items[0]
            return SeqV(length=z3.If(kz > 0, kz, 0), elem=lambda t: x, kind=s.kind, esort=s.esort)
        raise Undecided('repetition of a symbolic / multi-element list')

    def ex_Compare(self, e, env):
        left = self.eval(e.left, env)
        result = None
        for op, rn in zip(e.ops, e.comparators):
            right = self.eval(rn, env)
            r = self.compare(_CMPOPS[type(op)], left, right)
            if result is None:
                result = r
            else:
                tr, tn = self.truth(result), self.truth(r)
                if isinstance(tr, bool) and isinstance(tn, bool):
                    result = tr and tn
                else:
                    result = SV(z3.And(self._zb(tr), self._zb(tn)), 'bool')
            left = right
        return result

    def compare(self, op, a, b):
        if isinstance(a, CaseV):
            return CaseV([(g, self.compare(op, x, b)) for g, x in a.cases])
        if isinstance(b, CaseV):
            return CaseV([(g, self.compare(op, a, x)) for g, x in b.cases])
        if op in ('is', 'is not'):
            r = self.identical(a, b)
            if isinstance(r, bool):
                return r if op == 'is' else not r
            return SV(r if op == 'is' else z3.Not(r), 'bool')
        if op in ('in', 'not in'):
            r = self.contains(b, a)
            if isinstance(r, bool):
                return r if op == 'in' else not r
            return SV(r if op == 'in' else z3.Not(r), 'bool')
        conc = (int, float, str, bool, type(None), tuple)
        if isinstance(a, conc) and isinstance(b, conc) and not _has_sym(a) and not _has_sym(b):
            return _PYCMP[op](a, b)
        if self.is_numeric(a) and self.is_numeric(b):
            ia = isinstance(a, int) or (isinstance(a, SV) and a.kind == 'int')
            ib = isinstance(b, int) or (isinstance(b, SV) and b.kind == 'int')
            if ia and ib:
                x, y = self.as_int(a), self.as_int(b)
            else:
                x, y = self.as_real(a), self.as_real(b)
            return SV(_Z3CMP[op](x, y), 'bool')
        if op in ('==', '!=') and isinstance(a, SeqV) and a.kind == 'array' and a.items is None and \
                (isinstance(b, (int, float, str)) or (isinstance(b, SV) and (b.kind != 'val' or b.tag == 'scalar'))):
            # 1-D array compared with a scalar: element-wise
            self.used_lib.add('array==scalar')
            src = a
            return SeqV(length=a.zlen(), kind='array',
                        elem=lambda t, src=src, b=b, op=op: self.compare(op, self.seq_elem(src, t), b))
        if op in ('==', '!='):
            if isinstance(a, str) or isinstance(b, str) or a is None or b is None:
                other = b if (isinstance(a, str) or a is None) else a
                if isinstance(other, (SeqV, ArrV, Obj, DictV, FuncV)) or (isinstance(other, conc)):
                    return op == '!='
            if isinstance(a, SV) and a.tag == 'scalar' or isinstance(b, SV) and getattr(b, 'tag', None) == 'scalar':
                z = self.toV(a) == self.toV(b)
                return SV(z if op == '==' else z3.Not(z), 'bool')
        return self.app(f'cmp{op}', [a, b])

    def identical(self, a, b):
        if a is None or b is None:
            o = b if a is None else a
            if o is None:
                return True
            if isinstance(o, SV) and o.kind == 'val' and o.tag is None and o.app is None:
                return o.z == NONE
            return False
        if isinstance(a, (SV, Obj)) and isinstance(b, (SV, Obj)):
            return self.toV(a) == self.toV(b)
        return a is b

    def contains(self, container, x):
        if isinstance(container, DictV):
            if isinstance(x, (SV, Obj)):
                raise Undecided('symbolic key lookup in concrete dict')
            return x in container.d
        if isinstance(container, (tuple, list)):
            if not _has_sym(x) and all(not _has_sym(c) for c in container):
                return x in container
            container = self.as_seq(tuple(container))
        if isinstance(container, str) and isinstance(x, str):
            return x in container
        if isinstance(container, SeqV):
            if container.items is not None and not _has_sym(x) and all(not _has_sym(c) for c in container.items):
                return x in container.items
            if container.esort == 'int':
                return self.seq_mem(container, self.as_int(x))
            return self.seq_mem(container, self.toV(x))
        if isinstance(container, (SV, Obj)):
            return ufunc('contains', 2, 'bool')(self.toV(container), self.toV(x))
        raise Undecided(f'membership in {container!r}')

    def ex_Attribute(self, e, env):
        base = self.eval(e.value, env)
        return self.getattr(base, e.attr)

    def getattr(self, base, name):
        if isinstance(base, CaseV):
            return CaseV([(g, self.getattr(x, name)) for g, x in base.cases])
        if isinstance(base, ModV):
            full = f'{base.name}.{name}'
            if base.name.split('.')[0] == 'rsatoolbox':
                if self.module(full) is not None:
                    return ModV(full)
                v = self.resolve_global(base.name, name)
                if v is not None:
                    return v
            cv = _LIBCONSTS.get(_norm_lib(full))
            if cv is not None or _norm_lib(full) in _LIBCONSTS:
                return cv
            if _norm_lib(full) in ('numpy.random', 'numpy.linalg', 'scipy.stats', 'scipy.sparse', 'scipy.linalg',
                                   'scipy.sparse.linalg', 'os.path', 'scipy.spatial', 'scipy.spatial.distance',
                                   'scipy.optimize', 'scipy.special', 'scipy.stats.t', 'scipy.io', 'numpy.char', 'numpy.ma', 'numpy.fft'):
                return ModV(full)
            return FuncV('lib', full)
        if isinstance(base, Obj):
            if name in base.fields:
                return base.fields[name]
            sch = self.schema_attr(base.cls, name)
            if sch is not None:
                v = self.make_attr(base, name, sch)
                if v is not None:
                    base.fields[name] = v
                    return v
            if (base.cls, name) in self.methods or self.find_method(base.cls, name) is not None:
                return FuncV('method', name, self_val=base)
            if base.cls is not None and base.cls in self.schemas and self.schemas[base.cls].get('__closed__'):
                raise PyRaise('AttributeError', name)
            v = self.app(f'attr.{name}', [base])
            base.fields[name] = v
            return v
        if isinstance(base, (SeqV, ArrV, DictV, str, FuncV)) or isinstance(base, SV):
            if isinstance(base, ArrV) and name == 'shape':
                return tuple(SV(d, 'int') if z3.is_expr(d) else d for d in base.shape)
            if isinstance(base, ArrV) and name == 'ndim':
                return len(base.shape)
            if isinstance(base, ArrV) and name == 'T' and len(base.shape) <= 1:
                return base
            if isinstance(base, SeqV) and base.kind == 'array' and name == 'size' and getattr(base, 'rows2d', None) is None:
                return self.seq_len(base)
            if isinstance(base, (SeqV, ArrV)) and name in ('T', 'size', 'dtype'):
                return self.app(f'attr.{name}', [base], tag='ndarray' if name == 'T' else None)
            if isinstance(base, SeqV) and name == 'shape' and base.kind == 'array':
                return (self.seq_len(base),)
            if isinstance(base, SV) and base.shape is not None and name in ('shape', 'ndim', 'T'):
                if name == 'shape':
                    return tuple(SV(d, 'int') if z3.is_expr(d) else d for d in base.shape)
                if name == 'ndim':
                    return len(base.shape)
                r = self.app('attr.T', [base], tag='ndarray')
                r.shape = tuple(reversed(base.shape))
                return r
            if isinstance(base, SV) and name in ('shape', 'ndim', 'T', 'size', 'dtype', 'real', 'imag', 'flat'):
                if name == 'shape':
                    return self.app('attr.shape', [base])
                if name == 'ndim':
                    return self.app('attr.ndim', [base], 'int')
                return self.app(f'attr.{name}', [base])
            if isinstance(base, SV):
                return self.app(f'attr.{name}', [base])
            return FuncV('method', name, self_val=base)
        if isinstance(base, tuple) and name in ('index', 'count'):
            return FuncV('method', name, self_val=base)
        raise Undecided(f'attribute {name!r} of {base!r}')

    def schema_attr(self, cls, name):
        seen = set()
        stack = [cls]
        while stack:
            c = stack.pop()
            if c in seen or c is None:
                continue
            seen.add(c)
            sch = self.schemas.get(c)
            if sch and name in sch:
                return sch[name]
            stack.extend(self.subclasses.get(c, ()))
        return None

    def make_attr(self, obj, name, sch):
        if sch == 'int':
            v = self.app(f'attr.{name}', [obj], 'int')
            self.fact(v.z >= 0)
            return v
        if sch == 'val':
            return self.app(f'attr.{name}', [obj])
        if sch == 'str':
            return self.app(f'attr.{name}', [obj], tag='scalar')
        if isinstance(sch, str) and sch.startswith('obj:'):
            return self.app(f'attr.{name}', [obj], 'obj', cls=sch[4:])
        if callable(sch):
            return sch(self, obj, name)
        return None

    def find_method(self, cls, name):
        """AST of method `name` of repo class `cls` (searching base classes)"""
        seen = set()
        stack = [cls]
        while stack:
            c = stack.pop()
            if c in seen or c is None:
                continue
            seen.add(c)
            loc = self.class_index().get(c)
            if loc is not None:
                modname, node = loc
                for st in node.body:
                    if isinstance(st, ast.FunctionDef) and st.name == name:
                        return FuncV('repo', f'{modname}.{c}.{name}', node=st, module=modname)
                for b in node.bases:
                    if isinstance(b, ast.Name):
                        stack.append(b.id)
        return None

    def class_index(self):
        if hasattr(self, '_class_index'):
            return self._class_index
        import os
        idx = {}
        root = os.path.join(self.src_root, 'rsatoolbox')
        for dp, dn, fn in os.walk(root):
            for f in fn:
                if f.endswith('.py'):
                    rel = os.path.relpath(os.path.join(dp, f), self.src_root)[:-3].replace(os.sep, '.')
                    if rel.endswith('.__init__'):
                        rel = rel[:-9]
                    if '.vis' in rel:
                        continue
                    mi = self.module(rel)
                    if mi is None:
                        continue
                    for name, ent in mi.names.items():
                        if ent[0] == 'class':
                            idx[name] = (rel, ent[1])
                            bases = {b.id for b in ent[1].bases if isinstance(b, ast.Name)}
                            self.subclasses.setdefault(name, set()).update(bases)
        self._class_index = idx
        return idx

    def isinstance_of(self, cls, target):
        if cls is None:
            return None
        self.class_index()
        seen = set()
        stack = [cls]
        while stack:
            c = stack.pop()
            if c == target:
                return True
            if c in seen:
                continue
            seen.add(c)
            stack.extend(self.subclasses.get(c, ()))
        return False

    def ex_Subscript(self, e, env):
        base = self.eval(e.value, env)
        idx = self.eval_index(e.slice, env)
        return self.getitem(base, idx)

    def eval_index(self, sl, env):
        if isinstance(sl, ast.Slice):
            return slice(self.eval(sl.lower, env) if sl.lower else None,
                         self.eval(sl.upper, env) if sl.upper else None,
                         self.eval(sl.step, env) if sl.step else None)
        if isinstance(sl, ast.Tuple):
            return tuple(self.eval_index(x, env) for x in sl.elts)
        return self.eval(sl, env)

    def getitem(self, base, idx):
        if isinstance(base, CaseV):
            return CaseV([(g, self.getitem(x, idx)) for g, x in base.cases])
        if isinstance(idx, CaseV):
            return CaseV([(g, self.getitem(base, x)) for g, x in idx.cases])
        if isinstance(base, DictV):
            if isinstance(idx, (SV, Obj, SeqV)):
                raise Undecided('symbolic key lookup in concrete dict')
            if idx not in base.d:
                raise PyRaise('KeyError', idx)
            return base.d[idx]
        if isinstance(base, (tuple, str)):
            if isinstance(idx, (int, slice)) and not _slice_sym(idx):
                try:
                    return base[idx]
                except IndexError:
                    raise PyRaise('IndexError')
            if isinstance(base, tuple):
                return self.seq_elem(self.as_seq(base), self.as_int(idx))
        if isinstance(base, ArrV) and getattr(base, 'perm_store', None) is not None and not base.clauses:
            pidx, pval = base.perm_store
            if isinstance(idx, SeqV):
                return SeqV(length=idx.zlen(), kind='array', esort=pval.esort,
                            elem=lambda t: self.seq_elem(pval, pidx.inv(self.as_int(self.seq_elem(idx, t)))))
            if isinstance(idx, (int, SV)) and not isinstance(idx, bool):
                return self.seq_elem(pval, pidx.inv(self.as_int(idx)))
            raise Undecided('read of a permutation-scattered array with this kind of index')
        if isinstance(base, SeqV):
            if base.items is not None and isinstance(idx, int):
                try:
                    return base.items[idx]
                except IndexError:
                    raise PyRaise('IndexError')
            if base.items is not None and isinstance(idx, slice) and not _slice_sym(idx):
                return SeqV(items=base.items[idx], kind=base.kind, esort=base.esort)
            if isinstance(idx, (int, SV)) and (isinstance(idx, int) or idx.kind == 'int'):
                iz = self.as_int(idx)
                n = base.zlen()
                if isinstance(idx, int) and idx < 0:
                    iz = n + idx
                elif not isinstance(idx, int) and self.sat(iz < 0) != z3.unsat:
                    # python semantics: negative indices count from the end
                    if self.branch(iz < 0):
                        iz = n + iz
                if self.sat(z3.Or(iz < 0, iz >= n)) != z3.unsat:
                    if self.branch(z3.Or(iz < 0, iz >= n)):
                        raise PyRaise('IndexError')
                return self.seq_elem(base, iz)
            if isinstance(idx, SeqV) and base.kind == 'array':
                # fancy indexing of a 1-D array by an integer index sequence
                src = base
                return SeqV(length=idx.zlen(), elem=lambda t: self.seq_elem(src, self.as_int(self.seq_elem(idx, t))),
                            kind='array', esort=base.esort)
            return self.app('getitem', [base, idx])
        if isinstance(base, ArrV):
            return self.app('getitem', [base, idx])
        if isinstance(base, Obj):
            fn = self.methods.get((base.cls, '__getitem__'))
            if fn:
                return fn(self, base, idx)
            m = self.find_method(base.cls, '__getitem__')
            if m is not None:
                return self.call(FuncV('method', '__getitem__', self_val=base), [idx], {})
            return self.app('getitem', [base, idx])
        if isinstance(base, SV):
            if isinstance(idx, SeqV) and idx.items is None and base.kind == 'val':
                src = base
                es = 'int' if base.tag == 'intarray' else 'val'
                return SeqV(length=idx.zlen(), kind='array', esort=es,
                            elem=lambda t: self.app('getitem', [src, self.seq_elem(idx, t)], 'int' if es == 'int' else 'val'))
            return self.app('getitem', [base, idx])
        raise Undecided(f'subscript of {base!r}')

    def ex_ListComp(self, e, env):
        if len(e.generators) != 1:
            # nested generators: only concrete
            return self._concrete_comp(e, env)
        g = e.generators[0]
        it = self.eval(g.iter, env)
        plan = self.iter_plan(it)
        if plan[0] == 'concrete':
            out = []
            env2 = dict(env)
            for v in plan[1]:
                self.assign(g.target, v, env2)
                if all(self.branch(self.eval(c, env2)) for c in g.ifs):
                    out.append(self.eval(e.elt, env2))
            es = 'int' if out and all((isinstance(x, int) and not isinstance(x, bool)) or (isinstance(x, SV) and x.kind == 'int') for x in out) else 'val'
            return SeqV(items=out, kind='list', esort=es)
        res = self.symbolic_loop(g.target, [], plan[1], plan[2], env, comp=(e.elt, g.ifs))
        if not g.ifs:
            self._derive_mem(res, it, g.target, e.elt, env)
        return res

    def _derive_mem(self, res, src, target, elt, env):
        """closed-form membership of [T[int(x)] for x in S] when T has pairwise distinct elements:
        the body is evaluated once more on an abstract member x of S"""
        if not isinstance(src, (SeqV, RangeV)):
            return
        s = self.as_seq(src)
        if s.esort != 'int' or (s.mem is None and s.items is None):
            return
        xv = z3.Int(fresh_name('m'))
        env2 = dict(env)
        saved_pc = list(self.pc)
        sc = Scope([])
        self.scopes.append(sc)
        loop = LoopCtx(xv, z3.IntVal(0), next(_counter))
        self.loops.append(loop)
        tbl = ix = None
        try:
            self.pc.append(self.seq_mem(s, xv))
            self.assign(target, SV(xv, 'int'), env2)
            if isinstance(elt, ast.Subscript):
                tbl = self.eval(elt.value, env2)
                ix = self.eval_index(elt.slice, env2)
        except (Undecided, PyRaise):
            return
        finally:
            self.loops.pop()
            self.scopes.pop()
            extra = self.pc[len(saved_pc) + 1:]
            self.pc = saved_pc
        if sc.pending or extra:
            return
        if isinstance(tbl, SeqV) and tbl.inv is not None and isinstance(ix, SV) and ix.kind == 'int' and \
                z3.eq(z3.simplify(ix.z - xv), z3.IntVal(0)):
            tb = lst_copy(tbl)   # snapshot: later in-place shuffles of the table must not leak in

            def mem(y, tbl=tb, s=s):
                # python index semantics: position j is addressed by index j and by index j - len
                j = tbl.inv(y)
                return z3.And(j >= 0, j < tbl.zlen(), z3.Or(self.seq_mem(s, j), self.seq_mem(s, j - tbl.zlen())),
                              self.elem_z(tbl, self.seq_elem(tbl, j)) == y)
            res.mem = mem
            res.esort = tbl.esort

    def _concrete_comp(self, e, env):
        out = []

        def rec(k, env2):
            if k == len(e.generators):
                out.append(self.eval(e.elt, env2))
                return
            g = e.generators[k]
            plan = self.iter_plan(self.eval(g.iter, env2))
            if plan[0] != 'concrete':
                raise Undecided('nested comprehension over symbolic sequence')
            for v in plan[1]:
                env3 = dict(env2)
                self.assign(g.target, v, env3)
                if all(self.branch(self.eval(c, env3)) for c in g.ifs):
                    rec(k + 1, env3)
        rec(0, dict(env))
        return SeqV(items=out, kind='list')

    def ex_GeneratorExp(self, e, env):
        return self.ex_ListComp(e, env)

    def ex_Starred(self, e, env):
        raise Undecided('starred expression')

    # ================================================================= calls
    def ex_Call(self, e, env):
        fn = None
        if isinstance(e.func, ast.Attribute):
            base = self.eval(e.func.value, env)
            if isinstance(base, (SV, SeqV, ArrV, DictV, str, tuple, StrV)) or \
                    (isinstance(base, Obj) and e.func.attr not in base.fields):
                fn = FuncV('method', e.func.attr, self_val=base)
            else:
                fn = self.getattr(base, e.func.attr)
        else:
            fn = self.eval(e.func, env)
        args = []
        for a in e.args:
            if isinstance(a, ast.Starred):
                args.extend(self.unpack_star(self.eval(a.value, env)))
            else:
                args.append(self.eval(a, env))
        kwargs = {}
        for k in e.keywords:
            if k.arg is None:
                d = self.eval(k.value, env)
                if not isinstance(d, DictV):
                    raise Undecided('** of non-dict in call')
                kwargs.update(d.d)
            else:
                kwargs[k.arg] = self.eval(k.value, env)
        return self.call(fn, args, kwargs)

    def call(self, fn, args, kwargs):
        if isinstance(fn, CaseV):
            return CaseV([(g, self.call(x, args, kwargs)) for g, x in fn.cases])
        if not isinstance(fn, FuncV):
            if isinstance(fn, (SV, Obj)):
                return self.app('call', [fn] + list(args) + [DictV(kwargs)] if kwargs else [fn] + list(args))
            raise Undecided(f'call of {fn!r}')
        if fn.kind == 'builtin':
            return self.call_builtin(fn.name, args, kwargs)
        if fn.kind == 'lambda':
            if isinstance(fn.node, ast.Lambda):
                env = self.bind_args(_LambdaShim(fn.node), args, kwargs, module=fn.module)
                env['__closure__'] = fn.closure
                env['__module__'] = fn.module
                return self.eval(fn.node.body, env)
            env = self.bind_args(fn.node, args, kwargs, module=fn.module)
            env['__closure__'] = fn.closure
            env['__module__'] = fn.module
            try:
                self.exec_block(fn.node.body, env)
            except ReturnSig as r:
                return r.value
            return None
        if fn.kind == 'lib':
            return self.call_lib(_norm_lib(fn.name), args, kwargs)
        if fn.kind == 'method':
            return self.call_method(fn.self_val, fn.name, args, kwargs)
        if fn.kind == 'class':
            return self.call_class(fn, args, kwargs)
        if fn.kind == 'repo':
            return self.call_repo(fn, args, kwargs)
        raise Undecided(f'call of {fn!r}')

    def call_repo(self, fn, args, kwargs):
        con = self.contracts.get(fn.name)
        if fn.node is not None:
            bound = self.bind_args(fn.node, args, kwargs, self_val=fn.self_val, module=fn.module)
        else:
            bound = None
        if con is not None and con.random:
            self.used_contracts.add(fn.name + ' (havoc: arbitrary outcome per call instance)')
            return self.havoc(fn.name, [bound[p] for p in bound], con.ret)
        if con is not None and not con.inline:
            self.used_contracts.add(fn.name)
            if con.requires is not None:
                req = con.requires(self, **bound)
                st, _, _ = self.prove(req)
                if st != 'proved':
                    raise ContractPre(fn.name, st)
            if con.define is not None:
                return con.define(self, **bound)
            params = [p for p in bound]
            return self.app(fn.name, [bound[p] for p in params], con.ret or 'val',
                            modes={k: con.argmodes[p] for k, p in enumerate(params) if p in con.argmodes})
        if fn.node is not None and (con is not None and con.inline or fn.name in self.inline) and self.inline_depth < self.max_inline \
                and fn.name not in self.no_inline:
            self.inline_depth += 1
            self.call_stack.append(fn.name)
            try:
                return self.run_function(fn, args, kwargs)
            finally:
                self.inline_depth -= 1
                self.call_stack.pop()
        self.used_uninterp.add(fn.name)
        if bound is not None:
            params = [p for p in bound]
            rc = self.func_ret.get(fn.name)
            if rc:
                return self.app(fn.name, [bound[p] for p in params], 'obj', cls=rc)
            return self.app(fn.name, [bound[p] for p in params])
        return self.app(fn.name, list(args) + ([DictV(kwargs)] if kwargs else []))

    no_inline = set()

    def havoc(self, qual, args, ret, k=None, idxs=None):
        """result of the k-th call instance (on this path) of a function with random outcome: an uninterpreted
        function of the call ordinal, the indices of the active symbolic loops and the arguments.  Contracts refer
        to the same value with havoc(qual, args, ret, k=..., idxs=...)."""
        if k is None:
            k = self.rand_count.get(qual, 0)
            self.rand_count[qual] = k + 1
        if idxs is None:
            idxs = [l.idx for l in self.loops]
        base = self.app(f'{qual}#{k}', [SV(i, 'int') if z3.is_expr(i) else i for i in idxs] + list(args))
        return self.shape_ret(base, ret)

    def shape_ret(self, base, ret):
        if ret is None or ret == 'val':
            return base
        if isinstance(ret, tuple):
            return tuple(self.shape_ret(self.app('getitem', [base, k]), r) for k, r in enumerate(ret))
        if ret.startswith('obj:'):
            return Obj(base.z, ret[4:], app=base.app)
        if ret == 'ndarray':
            base.tag = 'ndarray'
            return base
        if ret == 'int':
            return SV(self.as_int(base), 'int')
        return base

    inline = set()

    def _small(self, node):
        return False

    def call_class(self, fn, args, kwargs):
        name = fn.name.rsplit('.', 1)[-1]
        m = self.methods.get((name, '__init__'))
        if m is not None:
            return m(self, *args, **kwargs)
        init = self.find_method(name, '__init__')
        if init is not None:
            bound = self.bind_args(init.node, args, kwargs, self_val=Obj(z3.Const(fresh_name('self'), V), name),
                                   module=init.module)
            params = [p for p in bound if p != 'self']
            o = self.app(f'new:{name}', [bound[p] for p in params], 'obj', cls=name)
            o.fields.update({p: bound[p] for p in params})
            self.used_uninterp.add(f'{fn.name}.__init__ (record constructor: fields = constructor arguments)')
            return o
        return self.app(f'new:{name}', list(args) + ([DictV(kwargs)] if kwargs else []), 'obj', cls=name)

    def call_method(self, selfv, name, args, kwargs):
        if isinstance(selfv, CaseV):
            return CaseV([(g, self.call_method(x, name, args, kwargs)) for g, x in selfv.cases])
        if isinstance(selfv, Obj):
            m = self.methods.get((selfv.cls, name))
            if m is None:
                # inherited models
                for base in self._bases(selfv.cls):
                    m = self.methods.get((base, name))
                    if m is not None:
                        break
            if m is not None:
                return m(self, selfv, *args, **kwargs)
            fv = self.find_method(selfv.cls, name)
            if fv is not None:
                fv = FuncV('repo', fv.name, node=fv.node, module=fv.module, self_val=selfv)
                con = self.contracts.get(fv.name)
                if con is not None:
                    return self.call_repo(fv, args, kwargs)
                bound = self.bind_args(fv.node, args, kwargs, self_val=selfv, module=fv.module)
                params = [p for p in bound]
                self.used_uninterp.add(fv.name)
                ret_cls = self.method_ret.get((selfv.cls, name)) or self.method_ret.get((None, name))
                if ret_cls:
                    return self.app(fv.name.split('.', 1)[-1] if False else fv.name, [bound[p] for p in params], 'obj', cls=ret_cls if ret_cls != 'self' else selfv.cls)
                return self.app(fv.name, [bound[p] for p in params])
            return self.app(f'method.{name}', [selfv] + list(args) + ([DictV(kwargs)] if kwargs else []))
        if isinstance(selfv, SeqV):
            return self.seq_method(selfv, name, args, kwargs)
        if isinstance(selfv, DictV):
            return self.dict_method(selfv, name, args, kwargs)
        if isinstance(selfv, str):
            if all(isinstance(a, (str, int, tuple)) for a in args):
                return getattr(selfv, name)(*args, **kwargs)
            return self.app(f'str.{name}', [selfv] + list(args))
        if isinstance(selfv, tuple):
            return getattr(selfv, name)(*args)
        if isinstance(selfv, (SV, ArrV)):
            m = self.lib.get(f'ndarray.{name}')
            if m is not None:
                self.used_lib.add(f'ndarray.{name}')
                return m(self, selfv, *args, **kwargs)
            self.used_uninterp.add(f'ndarray.{name}')
            return self.app(f'ndarray.{name}', [selfv] + list(args) + ([DictV(kwargs)] if kwargs else []))
        raise Undecided(f'method {name!r} of {selfv!r}')

    method_ret = {}
    func_ret = {}

    def _bases(self, cls):
        self.class_index()
        out = []
        seen = set()
        stack = list(self.subclasses.get(cls, ()))
        while stack:
            c = stack.pop()
            if c in seen:
                continue
            seen.add(c)
            out.append(c)
            stack.extend(self.subclasses.get(c, ()))
        return out

    def seq_method(self, s, name, args, kwargs):
        if name == 'append':
            self.list_append(s, args[0])
            return None
        if name == 'extend':
            self.list_extend(s, args[0])
            return None
        if name == 'copy':
            return _shallow_copy(s)
        if name == 'index' and s.items is not None and not _has_sym(args[0]) and all(not _has_sym(x) for x in s.items):
            try:
                return s.items.index(args[0])
            except ValueError:
                raise PyRaise('ValueError')
        if name == 'astype':
            return s
        if name in ('tolist',):
            c = lst_copy(s)
            c.kind = 'list'
            return c
        m = self.lib.get(f'ndarray.{name}')
        if m is not None:
            self.used_lib.add(f'ndarray.{name}')
            return m(self, s, *args, **kwargs)
        return self.app(f'seq.{name}', [s] + list(args) + ([DictV(kwargs)] if kwargs else []))

    def dict_method(self, d, name, args, kwargs):
        if name == 'keys':
            return SeqV(items=list(d.d.keys()), kind='list')
        if name == 'values':
            return SeqV(items=list(d.d.values()), kind='list')
        if name == 'items':
            return SeqV(items=[(k, v) for k, v in d.d.items()], kind='list')
        if name == 'get':
            k = args[0]
            if isinstance(k, (SV, Obj)):
                raise Undecided('dict.get with symbolic key')
            return d.d.get(k, args[1] if len(args) > 1 else None)
        if name == 'copy':
            return DictV(d.d)
        if name == 'update':
            if self.is_outer(d):
                raise Undecided('dict update in symbolic loop')
            o = args[0]
            if isinstance(o, DictV):
                d.d.update(o.d)
                return None
        if name == 'pop':
            if self.is_outer(d):
                raise Undecided('dict pop in symbolic loop')
            return d.d.pop(args[0], *args[1:])
        raise Undecided(f'dict method {name}')

    def call_lib(self, name, args, kwargs):
        m = self.lib.get(name)
        if m is not None:
            self.used_lib.add(name)
            return m(self, *args, **kwargs)
        self.used_uninterp.add(name)
        if name.split('.')[-1] in EXC_NAMES:
            return Obj(z3.Const(fresh_name('exc'), V), name.split('.')[-1])
        return self.app(name, list(args) + ([DictV(kwargs)] if kwargs else []))

    # ----------------------------------------------------------------- builtins
    def call_builtin(self, name, args, kwargs):
        if name in ('len', 'int', 'float', 'bool', 'abs', 'str') and args and isinstance(args[0], CaseV):
            return CaseV([(g, self.call_builtin(name, [x] + list(args[1:]), kwargs)) for g, x in args[0].cases])
        if name == 'len':
            return self.seq_len(args[0])
        if name == 'range':
            if len(args) == 1:
                return RangeV(0, args[0])
            if len(args) == 2:
                return RangeV(args[0], args[1])
            if all(isinstance(a, int) for a in args):
                return SeqV(items=list(range(*args)), kind='list', esort='int')
            raise Undecided('range with symbolic step')
        if name == 'enumerate':
            return EnumV(args[0], args[1] if len(args) > 1 else kwargs.get('start', 0))
        if name == 'zip':
            return ZipV(args)
        if name == 'isinstance':
            return self.isinstance(args[0], args[1])
        if name == 'int':
            v = args[0]
            if isinstance(v, (int, float, str)) and not is_nan(v):
                return int(v)
            if isinstance(v, SV) and v.kind == 'int':
                return v
            if isinstance(v, SV) and v.kind == 'real':
                if v.ratio is not None:
                    a, b = v.ratio
                    self.used_lib.add('int(a/b) = a div b for non-negative a, positive b')
                    st, _, _ = self.prove(z3.And(a >= 0, b > 0))
                    if st == 'proved':
                        return SV(a / b, 'int')
                return SV(z3.ToInt(v.z), 'int')
            if isinstance(v, SV):
                return SV(self.as_int(v), 'int')
            raise Undecided('int() of non-number')
        if name == 'float':
            v = args[0]
            if isinstance(v, (int, float, str)):
                return float(v)
            return v
        if name == 'bool':
            t = self.truth(args[0])
            return t if isinstance(t, bool) else SV(t, 'bool')
        if name == 'str':
            if isinstance(args[0], (str, int, float, bool, type(None))):
                return str(args[0])
            if isinstance(args[0], TypeV):
                loc = self.class_index().get(args[0].name)
                return f"<class '{loc[0]}.{args[0].name}'>" if loc else f"<class '{args[0].name}'>"
            if isinstance(args[0], Obj) and args[0].cls is not None:
                return f"<class '{args[0].cls}'>" if False else self.app('str', [args[0]])
            return self.app('str', [args[0]])
        if name == 'type':
            v = args[0]
            if isinstance(v, Obj) and v.cls is not None:
                return TypeV(v.cls)
            return self.app('type', [v])
        if name in ('min', 'max'):
            vals = list(args)
            if len(vals) == 1:
                s = vals[0]
                if isinstance(s, (tuple,)):
                    vals = list(s)
                elif isinstance(s, SeqV) and s.items is not None:
                    vals = list(s.items)
                else:
                    return self.app(name, [s])
            if all(isinstance(v, (int, float)) for v in vals):
                return min(vals) if name == 'min' else max(vals)
            if all(self.is_numeric(v) for v in vals):
                allint = all(isinstance(v, int) or (isinstance(v, SV) and v.kind == 'int') for v in vals)
                conv = self.as_int if allint else self.as_real
                acc = conv(vals[0])
                for v in vals[1:]:
                    z = conv(v)
                    acc = z3.If(z < acc, z, acc) if name == 'min' else z3.If(z > acc, z, acc)
                return SV(acc, 'int' if allint else 'real')
            if all(self.is_numeric(v) or (isinstance(v, SV) and v.kind == 'val') for v in vals) and any(self.is_numeric(v) for v in vals):
                # an opaque scalar compared with numbers: its numeric value (assumed a real number, not NaN)
                self.used_lib.add('min/max')
                conv = lambda v: self.as_real(v) if self.is_numeric(v) else ufunc('real_of', 1, 'real')(v.z)
                acc = conv(vals[0])
                for v in vals[1:]:
                    z = conv(v)
                    acc = z3.If(z < acc, z, acc) if name == 'min' else z3.If(z > acc, z, acc)
                return SV(acc, 'real')
            return self.app(name, vals)
        if name == 'abs':
            v = args[0]
            if isinstance(v, (int, float)):
                return abs(v)
            if isinstance(v, SV) and v.kind in ('int', 'real'):
                return SV(z3.If(v.z < 0, -v.z, v.z), v.kind)
            return self.app('abs', [v])
        if name == 'sum':
            s = args[0]
            start = args[1] if len(args) > 1 else 0
            if isinstance(s, (tuple,)) or (isinstance(s, SeqV) and s.items is not None):
                acc = start
                for x in (s if isinstance(s, tuple) else s.items):
                    acc = self.binop('+', acc, x)
                return acc
            if isinstance(start, SeqV) and start.items == []:
                return self.app('flatten', [s])
            return self.app('sum', [s, start])
        if name in ('list', 'tuple'):
            if not args:
                return SeqV(items=[], kind='list') if name == 'list' else ()
            v = args[0]
            if isinstance(v, tuple):
                return SeqV(items=list(v), kind='list') if name == 'list' else v
            if isinstance(v, DictV):
                v = SeqV(items=list(v.d.keys()), kind='list')
            if isinstance(v, SeqV):
                c = _shallow_copy(v)
                c.kind = name
                c.term = None if v.items is not None else v.term
                if name == 'tuple' and c.items is not None:
                    return tuple(c.items)
                return c
            plan = self.iter_plan(v)
            if plan[0] == 'concrete':
                return SeqV(items=plan[1], kind='list') if name == 'list' else tuple(plan[1])
            return SeqV(length=plan[1], elem=plan[2], kind=name)
        if name == 'dict':
            if not args:
                return DictV(kwargs)
            if isinstance(args[0], DictV):
                return DictV(args[0].d)
        if name == 'print':
            return None
        if name == 'hasattr':
            o, a = args
            if isinstance(o, Obj):
                if a in o.fields or self.schema_attr(o.cls, a) is not None or self.find_method(o.cls, a) is not None:
                    return True
                return False
            if isinstance(o, (SV,)) and a in ('shape', 'ndim'):
                return o.tag in ('ndarray', 'intarray')
            raise Undecided('hasattr')
        if name == 'getattr':
            return self.getattr(args[0], args[1])
        if name == 'sorted':
            s = args[0]
            if isinstance(s, SeqV) and s.items is not None and all(isinstance(x, (int, float, str)) for x in s.items):
                return SeqV(items=sorted(s.items), kind='list', esort=s.esort)
            return self.app('sorted', [s])
        if name in ('any', 'all'):
            s = args[0]
            items = s.items if isinstance(s, SeqV) and s.items is not None else (list(s) if isinstance(s, tuple) else None)
            if items is not None:
                ts = [self.truth(x) for x in items]
                if all(isinstance(t, bool) for t in ts):
                    return any(ts) if name == 'any' else all(ts)
                zs = [self._zb(t) for t in ts]
                return SV(z3.Or(zs) if name == 'any' else z3.And(zs), 'bool')
            return self.app(name, [s], 'bool')
        if name in EXC_NAMES:
            return Obj(z3.Const(fresh_name('exc'), V), name)
        if name == 'round':
            return self.app('round', list(args))
        if name == 'set':
            return self.app('set', list(args))
        raise Undecided(f'builtin {name}')

    def isinstance(self, v, t):
        names = []
        if isinstance(t, tuple):
            res = [self.isinstance(v, x) for x in t]
            if any(r is True for r in res):
                return True
            if all(r is False for r in res):
                return False
            raise Undecided('isinstance undecided on a tuple of types')
        if isinstance(t, FuncV):
            tn = t.name.rsplit('.', 1)[-1]
        elif isinstance(t, ModV):
            tn = t.name.rsplit('.', 1)[-1]
        else:
            raise Undecided(f'isinstance with {t!r}')
        if isinstance(v, CaseV):
            rs = {self.isinstance(x, t) for _, x in v.cases}
            if len(rs) == 1:
                return rs.pop()
            raise Undecided('isinstance on piecewise value')
        if tn == 'Iterable':
            if isinstance(v, (SeqV, tuple, str, DictV, ArrV, RangeV)):
                return True
            if v is None or isinstance(v, (int, float, bool)):
                return False
            if isinstance(v, SV):
                if v.kind in ('int', 'real', 'bool'):
                    return False
                if v.tag in ('ndarray', 'intarray', 'list'):
                    return True
                if v.tag in ('scalar', 'callable'):
                    return False
            if isinstance(v, Obj):
                return self.find_method(v.cls, '__iter__') is not None or self.find_method(v.cls, '__getitem__') is not None
            if isinstance(v, FuncV):
                return False
            raise Undecided(f'isinstance(_, Iterable) on {v!r}')
        if tn == 'ndarray':
            if isinstance(v, ArrV):
                return True
            if isinstance(v, SeqV):
                return v.kind == 'array'
            if isinstance(v, SV):
                if v.tag in ('ndarray', 'intarray'):
                    return True
                if v.tag in ('list', 'scalar') or v.kind != 'val':
                    return False
                raise Undecided('isinstance(_, ndarray) on untagged opaque value')
            return False
        if tn in ('list', 'tuple', 'dict', 'str', 'int', 'float', 'bool'):
            if tn == 'list':
                return (isinstance(v, SeqV) and v.kind == 'list') or (isinstance(v, SV) and v.tag == 'list')
            if tn == 'tuple':
                return isinstance(v, tuple) or (isinstance(v, SeqV) and v.kind == 'tuple')
            if tn == 'dict':
                return isinstance(v, DictV) or (isinstance(v, Obj) and v.cls == 'DescDict')
            if tn == 'str':
                return isinstance(v, str) or (isinstance(v, SV) and v.tag == 'str')
            if tn == 'int':
                return (isinstance(v, int) and not isinstance(v, bool)) or (isinstance(v, SV) and v.kind == 'int')
            if tn == 'float':
                return isinstance(v, float) or (isinstance(v, SV) and v.kind == 'real')
            if tn == 'bool':
                return isinstance(v, bool) or (isinstance(v, SV) and v.kind == 'bool')
        if isinstance(v, Obj):
            r = self.isinstance_of(v.cls, tn)
            if r is None:
                raise Undecided('isinstance on untyped object')
            return r
        if isinstance(v, (SeqV, tuple, DictV, ArrV, str, int, float, bool, type(None))):
            return False
        if isinstance(v, SV) and (v.kind != 'val' or v.tag is not None):
            return False
        raise Undecided(f'isinstance({v!r}, {tn})')


class TypeV:
    def __init__(self, name):
        self.name = name


class ContractPre(Exception):
    """precondition of a callee contract not established at a call site"""
    def __init__(self, qual, status):
        super().__init__(f'pre@{qual}: {status}')
        self.qual = qual
        self.status = status


class _LambdaShim:
    def __init__(self, node):
        self.args = node.args
        self.name = '<lambda>'


def _shallow_copy(s):
    """a user-level shallow copy (list(x), x.copy()): the element objects are shared, so nested stores through either
    container are no longer modelled (Undecided)"""
    c = lst_copy(s)
    c.shared_elems = True
    s.shared_elems = True
    return c


def lst_copy(s):
    c = SeqV(items=None if s.items is None else list(s.items), length=s.length, elem=s.elem, mem=s.mem,
             inv=s.inv, kind=s.kind, esort=s.esort, canon=s.canon, term=s.term)
    c.filt = getattr(s, 'filt', None)
    c.blocks = getattr(s, 'blocks', None)
    return c


def _fold_candidates(body):
    """names X whose only uses in the loop body are accumulations `X += e`, `X |= e`, `X = X + e`, `X = X | e` (one
    operator per name, not inside a nested loop, X not read otherwise): name -> operator"""
    ops, bad, acc_loads = {}, set(), {}

    def visit(stmts, nested):
        for st in stmts:
            if isinstance(st, ast.AugAssign) and isinstance(st.target, ast.Name):
                op = _BINOPS.get(type(st.op))
                nm = st.target.id
                if nested or op not in ('+', '|') or ops.setdefault(nm, op) != op:
                    bad.add(nm)
            elif isinstance(st, ast.Assign):
                for t in st.targets:
                    for nd in ast.walk(t):
                        if isinstance(nd, ast.Name):
                            nm = nd.id
                            v = st.value
                            ok = (len(st.targets) == 1 and isinstance(t, ast.Name) and isinstance(v, ast.BinOp)
                                  and isinstance(v.left, ast.Name) and v.left.id == nm
                                  and _BINOPS.get(type(v.op)) in ('+', '|') and not nested)
                            if ok and ops.setdefault(nm, _BINOPS[type(v.op)]) == _BINOPS[type(v.op)]:
                                acc_loads[nm] = acc_loads.get(nm, 0) + 1
                            else:
                                bad.add(nm)
            elif isinstance(st, (ast.For, ast.While)):
                for nd in ast.walk(st.target) if isinstance(st, ast.For) else []:
                    if isinstance(nd, ast.Name):
                        bad.add(nd.id)
                visit(st.body, True)
                visit(st.orelse, True)
                continue
            elif isinstance(st, (ast.AnnAssign, ast.With, ast.Delete, ast.FunctionDef, ast.Try, ast.Import, ast.ImportFrom)):
                for nd in ast.walk(st):
                    if isinstance(nd, ast.Name) and isinstance(nd.ctx, (ast.Store, ast.Del)):
                        bad.add(nd.id)
            if isinstance(st, ast.If):
                visit(st.body, nested)
                visit(st.orelse, nested)
    visit(body, False)
    loads = {}
    for st in body:
        for nd in ast.walk(st):
            if isinstance(nd, ast.Name) and isinstance(nd.ctx, ast.Load):
                loads[nd.id] = loads.get(nd.id, 0) + 1
    out = {}
    for nm, op in ops.items():
        if nm in bad:
            continue
        if loads.get(nm, 0) != acc_loads.get(nm, 0):
            continue            # read somewhere else in the body
        out[nm] = op
    return out


def _as_load(t):
    import copy
    t2 = copy.deepcopy(t)
    for n in ast.walk(t2):
        if hasattr(n, 'ctx'):
            n.ctx = ast.Load()
    return t2


def _assigned_names(stmts):
    out = set()
    for s in stmts:
        for n in ast.walk(s):
            if isinstance(n, ast.Name) and isinstance(n.ctx, (ast.Store, ast.Del)):
                out.add(n.id)
            elif isinstance(n, ast.AugAssign) and isinstance(n.target, ast.Name):
                out.add(n.target.id)
    return out


def _mentions(expr, const):
    from .core import _const_names
    return str(const) in _const_names(expr)


def _has_sym(x):
    if isinstance(x, (SV, Obj, SeqV, ArrV, CaseV, DictV, FuncV)):
        return True
    if isinstance(x, tuple):
        return any(_has_sym(y) for y in x)
    return False


def _slice_sym(s):
    return isinstance(s, slice) and any(isinstance(x, (SV, CaseV)) for x in (s.start, s.stop, s.step))


def _norm_lib(name):
    parts = name.split('.')
    if parts[0] == 'np':
        parts[0] = 'numpy'
    return '.'.join(parts)


_LIBCONSTS = {'os.sep': '/', 'numpy.nan': float('nan'), 'numpy.inf': float('inf'), 'numpy.pi': math.pi, 'numpy.newaxis': None,
              'numpy.float64': FuncV('lib', 'numpy.float64'), 'numpy.e': math.e}

_BUILTINS = {'len', 'range', 'enumerate', 'zip', 'isinstance', 'int', 'float', 'bool', 'str', 'type', 'min', 'max',
             'abs', 'sum', 'list', 'tuple', 'dict', 'print', 'hasattr', 'getattr', 'sorted', 'any', 'all', 'round',
             'set'}

_PYOPS = {'+': operator.add, '-': operator.sub, '*': operator.mul, '/': operator.truediv, '//': operator.floordiv,
          '%': operator.mod, '**': operator.pow, '@': operator.matmul, '&': operator.and_, '|': operator.or_,
          '^': operator.xor}
_PYCMP = {'==': operator.eq, '!=': operator.ne, '<': operator.lt, '<=': operator.le, '>': operator.gt,
          '>=': operator.ge}
_Z3CMP = {'==': lambda a, b: a == b, '!=': lambda a, b: a != b, '<': lambda a, b: a < b, '<=': lambda a, b: a <= b,
          '>': lambda a, b: a > b, '>=': lambda a, b: a >= b}


# =====================================================================================================
# structured strings (StrV): decided structurally for all values of the atoms
# =====================================================================================================
from .values import StrV  # noqa: E402

_ALNUM = set('abcdefghijklmnopqrstuvwxyzABCDEFGHIJKLMNOPQRSTUVWXYZ0123456789')


def _is_sep(c):
    return c not in _ALNUM


def strv_of(x):
    if isinstance(x, StrV):
        return x
    if isinstance(x, str):
        return StrV([x])
    if isinstance(x, SV) and x.tag == 'atom':
        return StrV([x])
    return None


def strv_concat(parts):
    out = []
    for p in parts:
        s = strv_of(p)
        if s is None:
            return None
        out.extend(s.parts)
    return StrV(out)


def strv_plain(s):
    """python str if the structured string has no atom"""
    if all(isinstance(p, str) for p in s.parts):
        return ''.join(s.parts)
    return None


def strv_split(s, sep):
    if len(sep) != 1 or not _is_sep(sep):
        raise Undecided('split of a structured string at a separator inside the value alphabet')
    segs = [[]]
    for p in s.parts:
        if isinstance(p, str):
            bits = p.split(sep)
            segs[-1].append(bits[0])
            for b in bits[1:]:
                segs.append([b])
        else:
            segs[-1].append(p)
    out = []
    for sg in segs:
        v = StrV(sg)
        pl = strv_plain(v)
        out.append(pl if pl is not None else v)
    return out


def strv_startswith(s, lit):
    """True / False when decidable for ALL atom values, else Undecided"""
    pos = 0
    for p in s.parts:
        if pos >= len(lit):
            return True
        if isinstance(p, str):
            k = min(len(p), len(lit) - pos)
            if p[:k] != lit[pos:pos + k]:
                return False
            pos += k
        else:
            # an atom is a non-empty alphanumeric run: the rest of `lit` up to its next separator must be matched by the
            # atom (possibly followed by more).  If `lit` has a separator later, the atom would have to end exactly there
            rest = lit[pos:]
            nxt = next((i for i, c in enumerate(rest) if _is_sep(c)), None)
            if nxt == 0:
                return False           # lit needs a separator here, the atom starts with an alphanumeric
            if nxt is not None:
                # the atom would have to be exactly rest[:nxt] AND be followed by the separator rest[nxt]
                k = s.parts.index(p)
                following = s.parts[k + 1] if k + 1 < len(s.parts) else None
                if not (isinstance(following, str) and following[:1] == rest[nxt]):
                    return False
            raise Undecided('prefix test depends on the value of an atom')
    return pos >= len(lit)


def strv_replace(s, old, new):
    if not any(_is_sep(c) for c in old):
        raise Undecided('replacement of an alphanumeric literal may hit atoms')
    # occurrences of `old` need its separator characters to sit in literal pieces; an occurrence overlapping an atom
    # would need the atom to supply the alphanumeric neighbours of a separator: only possible at piece borders
    out = []
    for k, p in enumerate(s.parts):
        if isinstance(p, str):
            # an occurrence could straddle a border with an atom if old starts/ends with alphanumerics next to it
            first_sep = next(i for i, c in enumerate(old) if _is_sep(c))
            last_sep = max(i for i, c in enumerate(old) if _is_sep(c))
            head, tail = old[:first_sep], old[last_sep + 1:]
            if head and k > 0 and not isinstance(s.parts[k - 1], str) and p.startswith(old[first_sep:]):
                raise Undecided('replacement may straddle an atom')
            if tail and k + 1 < len(s.parts) and not isinstance(s.parts[k + 1], str) and p.endswith(old[:last_sep + 1]):
                raise Undecided('replacement may straddle an atom')
            out.append(p.replace(old, new))
        else:
            out.append(p)
    v = StrV(out)
    pl = strv_plain(v)
    return pl if pl is not None else v


def _strv_method(self, s, name, args, kwargs):
    if name == 'split':
        sep = args[0] if args else None
        if not isinstance(sep, str):
            raise Undecided('split without a literal separator')
        items = strv_split(s, sep)
        return SeqV(items=items, kind='list')
    if name == 'startswith':
        lit = args[0]
        if isinstance(lit, StrV):
            lit = strv_plain(lit)
        if not isinstance(lit, str):
            raise Undecided('startswith with a symbolic prefix')
        return strv_startswith(s, lit)
    if name == 'replace':
        old, new = args[0], args[1]
        old = strv_plain(old) if isinstance(old, StrV) else old
        if not isinstance(old, str) or not isinstance(new, str):
            raise Undecided('replace with symbolic arguments')
        return strv_replace(s, old, new)
    if name in ('lstrip', 'rstrip', 'strip') and args:
        # strips a SET of characters: may eat into an adjacent atom -> the result is not structurally determined
        return self.app(f'str.{name}', [s] + list(args), tag='atom-derived')
    if name == 'join':
        seq = args[0]
        items = seq.items if isinstance(seq, SeqV) and seq.items is not None else (list(seq) if isinstance(seq, tuple) else None)
        if items is None:
            raise Undecided('join of a symbolic list')
        parts = []
        for k, it in enumerate(items):
            if k:
                parts.append(s)
            parts.append(it)
        v = strv_concat(parts)
        if v is None:
            raise Undecided('join of non-string items')
        pl = strv_plain(v)
        return pl if pl is not None else v
    raise Undecided(f'string method {name} on a structured string')


Interp._strv_method = _strv_method
_orig_call_method = Interp.call_method


def _call_method2(self, selfv, name, args, kwargs):
    if isinstance(selfv, StrV):
        return self._strv_method(selfv, name, args, kwargs)
    if isinstance(selfv, str) and any(isinstance(a, StrV) or (isinstance(a, SV) and a.tag == 'atom') or
                                      (isinstance(a, SeqV) and a.items is not None and any(isinstance(i, (StrV, SV)) for i in a.items))
                                      for a in args):
        return self._strv_method(StrV([selfv]), name, args, kwargs)
    if isinstance(selfv, SV) and selfv.tag == 'atom':
        return self._strv_method(StrV([selfv]), name, args, kwargs)
    if isinstance(selfv, Obj) and selfv.cls in self.exec_classes:
        fv = self.find_method(selfv.cls, name)
        if fv is not None:
            fv = FuncV('repo', fv.name, node=fv.node, module=fv.module, self_val=selfv)
            decos = [d.id for d in fv.node.decorator_list if isinstance(d, ast.Name)]
            self.inline_depth += 1
            try:
                return self.run_function(fv, list(args), dict(kwargs))
            finally:
                self.inline_depth -= 1
    return _orig_call_method(self, selfv, name, args, kwargs)


Interp.call_method = _call_method2
Interp.exec_classes = set()
_orig_call_class = Interp.call_class


def _call_class2(self, fn, args, kwargs):
    name = fn.name.rsplit('.', 1)[-1]
    if name in self.exec_classes:
        o = Obj(z3.Const(fresh_name('obj'), V), name)
        init = self.find_method(name, '__init__')
        if init is not None:
            fv = FuncV('repo', init.name, node=init.node, module=init.module, self_val=o)
            self.inline_depth += 1
            try:
                self.run_function(fv, list(args), dict(kwargs))
            finally:
                self.inline_depth -= 1
        return o
    return _orig_call_class(self, fn, args, kwargs)


Interp.call_class = _call_class2
_orig_binop = Interp.binop


def _binop2(self, op, a, b):
    if op == '+' and (isinstance(a, StrV) or isinstance(b, StrV) or (isinstance(a, SV) and a.tag == 'atom') or (isinstance(b, SV) and b.tag == 'atom')):
        v = strv_concat([a, b])
        if v is not None:
            return v
    return _orig_binop(self, op, a, b)


Interp.binop = _binop2
_orig_joined = Interp.ex_JoinedStr


def _joined2(self, e, env):
    parts = []
    sym = False
    for x in e.values:
        if isinstance(x, ast.Constant):
            parts.append(x.value)
        else:
            v = self.eval(x.value, env)
            if isinstance(v, StrV) or (isinstance(v, SV) and v.tag == 'atom'):
                sym = True
                parts.append(v)
            elif isinstance(v, (str, int, float)):
                parts.append(str(v))
            else:
                return _orig_joined(self, e, env)
    if not sym:
        return ''.join(parts)
    return strv_concat(parts)


Interp.ex_JoinedStr = _joined2
_orig_truth = Interp.truth


def _truth2(self, v):
    if isinstance(v, StrV):
        return len(v.parts) > 0
    if isinstance(v, SV) and v.tag == 'atom':
        return True
    return _orig_truth(self, v)


Interp.truth = _truth2
_orig_compare = Interp.compare


def _compare2(self, op, a, b):
    sa, sb = strv_of(a) if not isinstance(a, str) else None, strv_of(b) if not isinstance(b, str) else None
    if op in ('==', '!=') and (sa is not None or sb is not None):
        x = sa if sa is not None else strv_of(a)
        y = sb if sb is not None else strv_of(b)
        if x is None or y is None:
            return op == '!='
        if x.key() == y.key():
            return op == '=='
        # different structure: equal only for particular atom values; decided False when a separator is misaligned
        px, py = strv_plain(x), strv_plain(y)
        seps_x = [c for p in x.parts if isinstance(p, str) for c in p if _is_sep(c)]
        seps_y = [c for p in y.parts if isinstance(p, str) for c in p if _is_sep(c)]
        if seps_x != seps_y:
            return op == '!='
        raise Undecided('equality of structured strings depends on atom values')
    return _orig_compare(self, op, a, b)


Interp.compare = _compare2
_orig_veq = Interp.veq


def _veq2(self, a, b, depth=0):
    if isinstance(a, StrV) or isinstance(b, StrV):
        x, y = strv_of(a), strv_of(b)
        if x is None or y is None:
            return z3.BoolVal(False)
        return z3.BoolVal(x.key() == y.key())
    return _orig_veq(self, a, b, depth)


Interp.veq = _veq2
_orig_toV = Interp.toV


def _toV2(self, v):
    if isinstance(v, StrV):
        return ufunc(f'strcat{len(v.parts)}', len(v.parts))(*[self.toV(p) for p in v.parts]) if v.parts else self.strconst('')
    return _orig_toV(self, v)


Interp.toV = _toV2
