"""Engine A (pyvc): symbolic execution of the real source text into z3 obligations.

The engine re-reads the current /repo source with `ast` on every run, finds the function by
qualified name and executes THAT syntax tree over the value domain of values.py.  Calls go to
sidecar contracts, library models, inlined small helpers or uninterpreted pure functions (in
that order).  Loops with symbolic bounds are summarised as map/fold loops at a Skolem index.
"""
import ast
import math
import os
import time

import z3

from .values import (V, SV, Obj, SeqV, ArrV, CaseV, DictV, Poison, FuncV, ModV, Undecided,
                     fresh_name, is_nan, _counter)

# ---------------------------------------------------------------------------------------------
# boxing of primitive sorts into the universe
# ---------------------------------------------------------------------------------------------
boxI = z3.Function('boxI', z3.IntSort(), V)
boxR = z3.Function('boxR', z3.RealSort(), V)
boxB = z3.Function('boxB', z3.BoolSort(), V)
boxS = z3.Function('boxS', z3.StringSort(), V)
unboxI = z3.Function('unboxI', V, z3.IntSort())
NONE = z3.Const('None', V)
NAN = z3.Const('nan', V)
mkseq = z3.Function('mkseq', z3.IntSort(), z3.ArraySort(z3.IntSort(), V), V)
set_int = z3.Function('set_int', z3.ArraySort(z3.IntSort(), z3.BoolSort()), V)
set_val = z3.Function('set_val', z3.ArraySort(V, z3.BoolSort()), V)
sumI = z3.Function('Sum', z3.IntSort(), z3.ArraySort(z3.IntSort(), V), V)

_funcs = {}


def ufunc(name, nargs, ret='val'):
    key = (name, nargs, ret)
    if key not in _funcs:
        rs = {'val': V, 'obj': V, 'int': z3.IntSort(), 'bool': z3.BoolSort(), 'real': z3.RealSort()}[ret]
        _funcs[key] = z3.Function(f'{name}/{nargs}', *([V] * nargs), rs)
    return _funcs[key]


class PyRaise(Exception):
    def __init__(self, exc_name, msg=None, value=None):
        super().__init__(exc_name)
        self.exc_name = exc_name
        self.msg = msg
        self.value = value


class ReturnSig(Exception):
    def __init__(self, value):
        self.value = value


class BreakSig(Exception):
    pass


class ContinueSig(Exception):
    pass


class RangeV:
    def __init__(self, start, stop):
        self.start = start
        self.stop = stop


class EnumV:
    def __init__(self, inner, start=0):
        self.inner = inner
        self.start = start


class ZipV:
    def __init__(self, parts):
        self.parts = parts


class FoldAcc:
    """placeholder bound to an accumulator variable while a symbolic loop body is executed"""
    def __init__(self, name, pre):
        self.name = name
        self.pre = pre


class Carried:
    """placeholder for a loop-carried variable (read before being written in the body)"""
    def __init__(self, name, pre):
        self.name = name
        self.pre = pre


class Scope:
    def __init__(self, prefix):
        self.decisions = list(prefix)
        self.ptr = 0
        self.pending = []


class LoopCtx:
    def __init__(self, idx, n, entry):
        self.idx = idx
        self.n = n
        self.entry = entry
        self.effects = []
        self.carried_reads = set()


class Path:
    def __init__(self, pc, outcome, value, env=None, exc=None):
        self.pc = pc
        self.outcome = outcome   # 'return' | 'raise'
        self.value = value
        self.env = env
        self.exc = exc


class Contract:
    """sidecar contract of one function (keyed by module path :: qualname)"""
    def __init__(self, qual, define=None, requires=None, pure=True, argmodes=None, ret=None,
                 inline=False, random=False, doc=''):
        self.qual = qual
        self.define = define        # define(E, **bound_args) -> engine value  (closed-form summary used by callers)
        self.requires = requires    # requires(E, **bound_args) -> z3 Bool
        self.pure = pure
        self.argmodes = argmodes or {}
        self.ret = ret
        self.inline = inline
        self.random = random
        self.doc = doc


# ---------------------------------------------------------------------------------------------
class ModuleInfo:
    def __init__(self, modname, path, tree):
        self.modname = modname
        self.path = path
        self.tree = tree
        self.names = {}     # name -> ('import', dotted) | ('from', module, name) | ('def', node) | ('class', node) | ('assign', node)
        pkg = modname.rsplit('.', 1)[0] if not path.endswith('__init__.py') else modname
        for st in tree.body:
            self._scan(st, pkg)

    def _scan(self, st, pkg):
        if isinstance(st, ast.Import):
            for a in st.names:
                self.names[a.asname or a.name.split('.')[0]] = ('import', a.name if a.asname else a.name.split('.')[0])
        elif isinstance(st, ast.ImportFrom):
            mod = st.module or ''
            if st.level:
                base = pkg.split('.')
                if st.level > 1:
                    base = base[:-(st.level - 1)]
                mod = '.'.join(base + ([mod] if mod else []))
            for a in st.names:
                self.names[a.asname or a.name] = ('from', mod, a.name)
        elif isinstance(st, (ast.FunctionDef,)):
            self.names[st.name] = ('def', st)
        elif isinstance(st, ast.ClassDef):
            self.names[st.name] = ('class', st)
        elif isinstance(st, ast.Assign):
            for t in st.targets:
                if isinstance(t, ast.Name):
                    self.names[t.id] = ('assign', st.value)
        elif isinstance(st, (ast.If, ast.Try)):
            for s in st.body:
                self._scan(s, pkg)


class Engine:
    def __init__(self, src_root, run=None, timeout_ms=20000):
        self.src_root = src_root
        self.run = run
        self.timeout_ms = timeout_ms
        self.modules = {}
        self.contracts = {}
        self.lib = {}
        self.methods = {}      # (cls, name) -> model(E, self, *args, **kw)
        self.schemas = {}      # cls -> {attr: kind}
        self.subclasses = {}   # cls -> set of base class names
        self.facts = []
        self._fact_keys = set()
        self.pc = []
        self.scopes = []
        self.loops = []
        self.inline_depth = 0
        self.max_inline = 3
        self.used_lib = set()
        self.used_uninterp = set()
        self.used_contracts = set()
        self.rand_count = {}
        self.call_stack = []
        self.solver_time = 0.0
        self.n_queries = 0
        from . import lib as _lib
        _lib.install(self)

    # ------------------------------------------------------------------ modules
    def module(self, modname):
        if modname in self.modules:
            return self.modules[modname]
        rel = modname.replace('.', '/')
        for p in (os.path.join(self.src_root, rel + '.py'), os.path.join(self.src_root, rel, '__init__.py')):
            if os.path.exists(p):
                with open(p) as f:
                    tree = ast.parse(f.read(), filename=p)
                mi = ModuleInfo(modname, p, tree)
                self.modules[modname] = mi
                return mi
        self.modules[modname] = None
        return None

    def resolve_global(self, modname, name, depth=0):
        """value of module-level `name` in repo module `modname`"""
        mi = self.module(modname)
        if mi is None or name not in mi.names or depth > 6:
            return None
        ent = mi.names[name]
        if ent[0] == 'import':
            return ModV(ent[1])
        if ent[0] == 'from':
            mod, nm = ent[1], ent[2]
            if mod.split('.')[0] == 'rsatoolbox':
                # python semantics: an attribute of the package (e.g. a re-exported function) shadows a submodule
                r = self.resolve_global(mod, nm, depth + 1)
                if r is not None:
                    return r
                sub = self.module(mod + '.' + nm)
                if sub is not None:
                    return ModV(mod + '.' + nm)
                return FuncV('lib', f'{mod}.{nm}')
            return FuncV('lib', f'{mod}.{nm}')
        if ent[0] == 'def':
            return FuncV('repo', f'{modname}.{name}', node=ent[1], module=modname)
        if ent[0] == 'class':
            return FuncV('class', f'{modname}.{name}', node=ent[1], module=modname)
        if ent[0] == 'assign':
            try:
                return ast.literal_eval(ent[1])
            except Exception:
                return None
        return None

    def find_function(self, qual):
        """qual: 'rsatoolbox.inference.crossvalsets.sets_k_fold' or '...mod.Class.method'"""
        parts = qual.split('.')
        for cut in range(len(parts) - 1, 0, -1):
            modname = '.'.join(parts[:cut])
            mi = self.module(modname)
            if mi is None:
                continue
            rest = parts[cut:]
            ent = mi.names.get(rest[0])
            if ent is None:
                return None
            if len(rest) == 1 and ent[0] == 'def':
                return FuncV('repo', qual, node=ent[1], module=modname)
            if len(rest) == 2 and ent[0] == 'class':
                for st in ent[1].body:
                    if isinstance(st, ast.FunctionDef) and st.name == rest[1]:
                        return FuncV('repo', qual, node=st, module=modname)
            return None
        return None

    # ------------------------------------------------------------------ facts / solving
    def fact(self, f):
        if isinstance(f, bool):
            if not f:
                raise Undecided('false fact')
            return
        k = f.hash()
        if (k, str(f.sexpr())[:200]) in self._fact_keys:
            return
        self._fact_keys.add((k, str(f.sexpr())[:200]))
        self.facts.append(f)

    def solver(self, timeout_ms=None):
        s = z3.Solver()
        s.set('rlimit', 2000000)
        s.set('timeout', 20000)     # belt and braces: the resource limit is the deterministic bound
        for f in self.facts:
            s.add(f)
        for c in self.pc:
            s.add(c)
        return s

    def sat(self, *extra, timeout_ms=5000):
        """z3.sat / z3.unsat / z3.unknown for facts + pc + extra (in-process, then external portfolio)"""
        s = self.solver(timeout_ms)
        for e in extra:
            s.add(e)
        t0 = time.time()
        r = s.check()
        self.solver_time += time.time() - t0
        self.n_queries += 1
        if r == z3.unknown:
            from . import solve
            st, _, dt, _ = solve.decide(list(self.facts) + list(self.pc) + list(extra), limit_s=4)
            self.solver_time += dt
            if os.environ.get('VERIF_DEBUG'):
                print(f'   [sat] external feasibility check: {st} {dt:.1f}s pc={len(self.pc)} extra={[str(z3.simplify(e))[:300] for e in extra]}', flush=True)
            if st == 'proved':
                return z3.unsat
            if st == 'refuted':
                return z3.sat
        return r

    def fresh_fun(self, name, ret='int'):
        """fresh uninterpreted function of the indices of all active symbolic loops (so that values created
        inside a loop body stay functions of the loop index under later substitution)"""
        idxs = [l.idx for l in self.loops]
        rs = z3.IntSort() if ret == 'int' else V
        f = z3.Function(fresh_name(name), *([z3.IntSort()] * len(idxs)), z3.IntSort(), rs)
        return lambda t: f(*idxs, t)

    def prove(self, goal, pc=None, facts=None, timeout_ms=None):
        """in-process proof attempt for engine-internal side conditions (resource-limited).
        returns ('proved'|'refuted'|'unknown', model_or_None, seconds)"""
        s = z3.Solver()
        s.set('rlimit', 3000000)
        s.set('timeout', 20000)
        for f in (self.facts if facts is None else facts):
            s.add(f)
        for c in (self.pc if pc is None else pc):
            s.add(c)
        if isinstance(goal, bool):
            goal = z3.BoolVal(goal)
        s.add(z3.Not(goal))
        t0 = time.time()
        r = s.check()
        dt = time.time() - t0
        self.solver_time += dt
        self.n_queries += 1
        if r == z3.unsat:
            return 'proved', None, dt
        if r == z3.sat:
            return 'refuted', s.model(), dt
        return 'unknown', None, dt

    def assertions_for(self, goal, pc=None):
        if isinstance(goal, bool):
            goal = z3.BoolVal(goal)
        return list(self.facts) + list(self.pc if pc is None else pc) + [z3.Not(goal)]


    def make_filter(self, n, keep, val=None, kind='list', esort=None):
        """the sequence [val(j) for j in range(n) if keep(j)]  (val = identity when None).

        keep(j) -> z3 Bool and val(j) -> engine value are closures over a z3 Int.  The result is described by fresh
        functions (of the active loop indices): its length L and the strictly increasing source-index function src, with
        the defining facts instantiated on demand:
          0 <= L <= n;   for 0 <= t < L:  0 <= src(t) < n, keep(src(t)), t <= src(t) <= n - L + t, pos(src(t)) = t;
          src strictly increasing (instantiated for every pair of indices read);
          for 0 <= j < n with keep(j):  0 <= pos(j) < L and src(pos(j)) = j      (every kept index occurs)."""
        n = n if z3.is_expr(n) else z3.IntVal(n)
        nn = z3.If(n > 0, n, 0)
        ln = self.fresh_fun('flen', 'int')(z3.IntVal(0))
        src = self.fresh_fun('fsrc', 'int')
        pos = self.fresh_fun('fpos', 'int')
        self.fact(z3.And(ln >= 0, ln <= nn))
        qa, qb = z3.Int(fresh_name('qa')), z3.Int(fresh_name('qb'))
        # strictly increasing source indices (one quantified axiom; the loop indices stay free, so it is re-instantiated
        # whenever the filter is substituted into another iteration)
        self.fact(z3.ForAll([qa, qb], z3.Implies(z3.And(qa >= 0, qa < qb, qb < ln), src(qa) < src(qb)),
                            patterns=[z3.MultiPattern(src(qa), src(qb))]))
        seen = []

        def src_at(t):
            sv = src(t)
            rng = z3.And(t >= 0, t < ln)
            self.fact(z3.Implies(rng, z3.And(sv >= 0, sv < n, keep(sv), sv >= t, sv <= n - ln + t, pos(sv) == t)))
            for (t2, s2) in seen[-6:]:
                if t2 is t or z3.eq(t2, t):
                    continue
                self.fact(z3.Implies(z3.And(rng, t2 >= 0, t2 < ln),
                                     z3.And(z3.Implies(t < t2, sv < s2), z3.Implies(t2 < t, s2 < sv), z3.Implies(t == t2, sv == s2))))
            seen.append((t, sv))
            return sv

        def pos_of(j):
            pz = pos(j)
            self.fact(z3.Implies(z3.And(j >= 0, j < n, keep(j)), z3.And(pz >= 0, pz < ln, src(pz) == j)))
            src_at(pz)
            return pz

        ident = val is None
        es = esort or ('int' if ident else 'val')
        out = SeqV(length=ln, kind=kind, esort=es, canon=ident)

        def elem(t):
            sv = src_at(t)
            return SV(sv, 'int') if ident else val(sv)
        out.elem = elem
        if ident:
            out.mem = lambda x: z3.And(x >= 0, x < n, keep(x))
            out.inv = pos_of
        out.filt = dict(n=n, keep=keep, src=src_at, pos=pos_of)
        return out

    # ------------------------------------------------------------------ reification
    def strconst(self, s):
        return boxS(z3.StringVal(s))

    def toV(self, v):
        if isinstance(v, SV):
            if v.kind == 'val':
                return v.z
            if v.kind == 'int':
                return boxI(v.z)
            if v.kind == 'real':
                return boxR(v.z)
            return boxB(v.z)
        if v is None:
            return NONE
        if isinstance(v, bool):
            return boxB(z3.BoolVal(v))
        if isinstance(v, int):
            return boxI(z3.IntVal(v))
        if isinstance(v, float):
            if math.isnan(v):
                return NAN
            if v == int(v) and abs(v) < 2 ** 53:
                return boxR(z3.RealVal(int(v)))
            return boxR(z3.RealVal(repr(v)))
        if isinstance(v, str):
            return self.strconst(v)
        if isinstance(v, (Obj, ArrV)):
            return v.term
        if isinstance(v, tuple):
            return ufunc(f'tuple{len(v)}', len(v))(*[self.toV(x) for x in v]) if v else z3.Const('tuple0', V)
        if isinstance(v, SeqV):
            if v.term is not None:
                return v.term
            if v.items is not None:
                n = len(v.items)
                return ufunc(f'seq{n}', n)(*[self.toV(x) for x in v.items]) if n else z3.Const('seq0', V)
            if v.canon and v.mem is not None:
                return self.set_term(v)
            if v.elem is not None:
                i = z3.Int(fresh_name('k'))
                return mkseq(v.length, z3.Lambda([i], self.toV(v.elem(i))))
            raise Undecided('cannot reify sequence')
        if isinstance(v, DictV):
            keys = sorted(v.d.keys(), key=str)
            return ufunc('dict:' + ','.join(map(str, keys)), len(keys))(*[self.toV(v.d[k]) for k in keys]) \
                if keys else z3.Const('dict0', V)
        if isinstance(v, FuncV):
            if v.kind == 'method':
                return ufunc(f'boundmethod:{v.name}', 1)(self.toV(v.self_val))
            return z3.Const(f'fn:{v.name}', V)
        if isinstance(v, ModV):
            return z3.Const(f'mod:{v.name}', V)
        if isinstance(v, CaseV):
            out = None
            for g, x in reversed(v.cases):
                t = self.toV(x)
                out = t if out is None else z3.If(g, t, out)
            if out is None:
                raise Undecided('empty piecewise value')
            return out
        if isinstance(v, RangeV):
            return ufunc('range', 2)(self.toV(v.start), self.toV(v.stop))
        if isinstance(v, (FoldAcc, Carried)):
            raise Undecided(f'loop-carried value of {v.name} used as an argument')
        if isinstance(v, Poison):
            raise Undecided(v.why)
        if isinstance(v, slice):
            return ufunc('slice', 3)(self.toV(v.start), self.toV(v.stop), self.toV(v.step))
        if v is Ellipsis:
            return z3.Const('Ellipsis', V)
        raise Undecided(f'cannot reify {type(v).__name__}')

    def set_term(self, s):
        """the set of elements of sequence s as a V term"""
        if s.esort == 'int':
            x = z3.Int(fresh_name('x'))
            return set_int(z3.Lambda([x], self.seq_mem(s, x)))
        x = z3.Const(fresh_name('x'), V)
        return set_val(z3.Lambda([x], self.seq_mem(s, x)))

    def seq_mem(self, s, x):
        """z3 Bool: x (z3 expr of the element sort) is an element of s"""
        if isinstance(s, CaseV):
            return z3.Or([z3.And(g, self.seq_mem(v, x)) for g, v in s.cases])
        if isinstance(s, tuple):
            s = SeqV(items=list(s), kind='tuple')
        if s.items is not None:
            return z3.Or([self.zeq(self.elem_z(s, it), x) for it in s.items]) if s.items else z3.BoolVal(False)
        if s.mem is not None:
            return s.mem(x)
        raise Undecided('sequence without closed-form membership')

    def elem_z(self, s, v):
        """z3 expr of element value v in the element sort of s"""
        if s.esort == 'int':
            return self.as_int(v)
        return self.toV(v)

    def zeq(self, a, b):
        return a == b

    # ------------------------------------------------------------------ uninterpreted application
    def app(self, fname, args, ret='val', cls=None, modes=None, tag=None):
        zargs = []
        for k, a in enumerate(args):
            if modes and modes.get(k) == 'set' and isinstance(a, SeqV):
                zargs.append(self.set_term(a))
            else:
                zargs.append(self.toV(a))
        f = ufunc(fname, len(zargs), 'val' if ret in ('val', 'obj') else ret)
        z = f(*zargs) if zargs else z3.Const(f'{fname}/0', f.range() if hasattr(f, 'range') else V)
        info = (fname, list(args), modes)
        if ret == 'obj':
            return Obj(z, cls, app=info)
        sv = SV(z, ret, app=info, tag=tag)
        return sv

    # ------------------------------------------------------------------ coercions
    def as_int(self, v):
        if isinstance(v, bool):
            return z3.IntVal(int(v))
        if isinstance(v, int):
            return z3.IntVal(v)
        if isinstance(v, float) and v == int(v):
            return z3.IntVal(int(v))
        if isinstance(v, SV):
            if v.kind == 'int':
                return v.z
            if v.kind == 'bool':
                return z3.If(v.z, 1, 0)
            if v.kind == 'val':
                return unboxI(v.z)
            if v.kind == 'real':
                return z3.ToInt(v.z)
        raise Undecided(f'not an integer: {v!r}')

    def as_real(self, v):
        if isinstance(v, (int, float)) and not isinstance(v, bool):
            if isinstance(v, float) and (math.isnan(v) or math.isinf(v)):
                raise Undecided('nan/inf as real')
            return z3.RealVal(repr(v)) if isinstance(v, float) else z3.RealVal(v)
        if isinstance(v, SV):
            if v.kind == 'real':
                return v.z
            if v.kind == 'int':
                return z3.ToReal(v.z)
        raise Undecided(f'not a real: {v!r}')

    def is_numeric(self, v):
        return (isinstance(v, (int, float)) and not isinstance(v, bool) and not is_nan(v)) or \
               (isinstance(v, SV) and v.kind in ('int', 'real'))

    def truth(self, v):
        """python truthiness as bool or z3 Bool"""
        if isinstance(v, SV):
            if v.kind == 'bool':
                return v.z
            if v.kind == 'int':
                return v.z != 0
            if v.kind == 'real':
                return v.z != 0
            return ufunc('truthy', 1, 'bool')(v.z)
        if isinstance(v, SeqV):
            if v.items is not None:
                return len(v.items) > 0
            return v.length > 0
        if isinstance(v, (Obj, ArrV, FuncV, ModV)):
            return True
        if isinstance(v, DictV):
            return len(v.d) > 0
        if isinstance(v, CaseV):
            return z3.Or([z3.And(g, self._zb(self.truth(x))) for g, x in v.cases])
        if isinstance(v, (Poison, FoldAcc, Carried)):
            raise Undecided('truth of loop-carried / poisoned value')
        return bool(v)

    def _zb(self, b):
        return z3.BoolVal(b) if isinstance(b, bool) else b

    # ------------------------------------------------------------------ branching
    def branch(self, cond):
        """decide a (possibly symbolic) condition on the current path; returns python bool"""
        c = self.truth(cond) if not isinstance(cond, (bool, z3.BoolRef)) else cond
        if isinstance(c, bool):
            return c
        c = z3.simplify(c)
        if z3.is_true(c):
            return True
        if z3.is_false(c):
            return False
        sc = self.scopes[-1]
        if sc.ptr < len(sc.decisions):
            d = sc.decisions[sc.ptr]
            sc.ptr += 1
            self.pc.append(c if d else z3.Not(c))
            return d
        can_t = self.sat(c) != z3.unsat
        can_f = self.sat(z3.Not(c)) != z3.unsat
        if can_t and can_f:
            sc.pending.append(sc.decisions[:sc.ptr] + [False])
            sc.decisions.append(True)
            sc.ptr += 1
            self.pc.append(c)
            return True
        if can_t:
            self.pc.append(c)
            return True
        if can_f:
            self.pc.append(z3.Not(c))
            return False
        raise Undecided('infeasible path reached')

    def explore(self, thunk, max_paths=400):
        """run thunk() on every feasible path; returns list of Path"""
        out = []
        work = [[]]
        while work:
            prefix = work.pop()
            if len(out) > max_paths:
                raise Undecided('too many paths')
            self.pc = []
            self.loops = []
            self.rand_count = {}
            sc = Scope(prefix)
            self.scopes = [sc]
            try:
                v = thunk()
                out.append(Path(list(self.pc), 'return', v))
            except ReturnSig as r:
                out.append(Path(list(self.pc), 'return', r.value))
            except PyRaise as e:
                out.append(Path(list(self.pc), 'raise', None, exc=e))
            work.extend(sc.pending)
        return out

    # ------------------------------------------------------------------ substitution
    def subst(self, v, pairs, memo=None):
        """substitute z3 constants in an engine value; pairs: list of (const, expr)"""
        if not pairs:
            return v
        if memo is None:
            memo = {}
        if id(v) in memo:
            return memo[id(v)]
        if isinstance(v, SV):
            r = SV(z3.substitute(v.z, *pairs), v.kind, tag=v.tag)
            if v.shape is not None:
                r.shape = tuple(z3.substitute(d, *pairs) if z3.is_expr(d) else d for d in v.shape)
            memo[id(v)] = r
            if v.app is not None:
                r.app = (v.app[0], [self.subst(a, pairs, memo) for a in v.app[1]], v.app[2])
            if v.ratio is not None:
                r.ratio = tuple(z3.substitute(x, *pairs) for x in v.ratio)
            return r
        if isinstance(v, Obj):
            if z3.is_const(v.term) and v.app is None:
                return v
            o = Obj(z3.substitute(v.term, *pairs), v.cls)
            memo[id(v)] = o
            o.fields = {k: self.subst(x, pairs, memo) for k, x in v.fields.items()}
            if v.app is not None:
                o.app = (v.app[0], [self.subst(a, pairs, memo) for a in v.app[1]], v.app[2])
            return o
        if isinstance(v, tuple):
            return tuple(self.subst(x, pairs, memo) for x in v)
        if isinstance(v, SeqV):
            if v.items is not None:
                return SeqV(items=[self.subst(x, pairs, memo) for x in v.items], kind=v.kind, esort=v.esort)
            s = SeqV(length=z3.substitute(v.length, *pairs), kind=v.kind, esort=v.esort, canon=v.canon,
                     term=None if v.term is None else z3.substitute(v.term, *pairs))
            if v.elem is not None:
                s.elem = self._subst_fn_val(v.elem, pairs, 'int')
            if v.mem is not None:
                s.mem = self._subst_fn_z(v.mem, pairs, v.esort)
            if v.inv is not None:
                s.inv = self._subst_fn_z(v.inv, pairs, v.esort)
            if getattr(v, 'filt', None) is not None:
                f = v.filt
                s.filt = dict(n=z3.substitute(f['n'], *pairs), keep=self._subst_fn_z(f['keep'], pairs, 'int'),
                              src=self._subst_fn_z(f['src'], pairs, 'int'), pos=self._subst_fn_z(f['pos'], pairs, 'int'))
            return s
        if isinstance(v, CaseV):
            return CaseV([(z3.substitute(g, *pairs), self.subst(x, pairs, memo)) for g, x in v.cases])
        if isinstance(v, DictV):
            return DictV({k: self.subst(x, pairs, memo) for k, x in v.d.items()})
        if isinstance(v, ArrV):
            a = ArrV(z3.substitute(v.term, *pairs), [z3.substitute(s, *pairs) if z3.is_expr(s) else s for s in v.shape], v.fill)
            a.clauses = [(b, z3.substitute(g, *pairs) if z3.is_expr(g) else g,
                          tuple(z3.substitute(ix, *pairs) if z3.is_expr(ix) else ix for ix in idx),
                          self.subst(val, pairs, memo)) for (b, g, idx, val) in v.clauses]
            return a
        if isinstance(v, RangeV):
            return RangeV(self.subst(v.start, pairs, memo), self.subst(v.stop, pairs, memo))
        if isinstance(v, FuncV) and v.kind == 'method':
            return FuncV('method', v.name, node=v.node, module=v.module, self_val=self.subst(v.self_val, pairs, memo))
        return v

    def _subst_fn_val(self, fn, pairs, sort):
        def g(i):
            t = z3.Int(fresh_name('t'))
            n0 = len(self.facts)
            r = self.subst(fn(t), pairs)
            self._reinstantiate(n0, pairs, (t, i))
            return self.subst(r, [(t, i)])
        return g

    def _subst_fn_z(self, fn, pairs, esort):
        def g(x):
            t = z3.Int(fresh_name('t')) if esort == 'int' else z3.Const(fresh_name('t'), V)
            n0 = len(self.facts)
            r = z3.substitute(fn(t), *pairs)
            self._reinstantiate(n0, pairs, (t, x))
            return z3.substitute(r, (t, x))
        return g

    def _reinstantiate(self, n0, pairs, last):
        """facts created while a closure was evaluated at a placeholder are re-instantiated at the real argument"""
        for f in self.facts[n0:]:
            f2 = z3.substitute(f, *pairs) if pairs else f
            self.fact(z3.substitute(f2, last))

    def subst_facts(self, pairs):
        """re-instantiate the facts that mention substituted bound variables"""
        names = {str(c) for c, _ in pairs}
        for f in list(self.facts):
            if any(n in _const_names(f) for n in names):
                self.fact(z3.substitute(f, *pairs))

    # ------------------------------------------------------------------ equality (sufficient conditions)
    def veq(self, a, b, depth=0):
        """z3 Bool that is a SUFFICIENT condition for a == b (used positively in goals only)"""
        if a is b:
            return z3.BoolVal(True)
        if isinstance(a, CaseV):
            return z3.And([z3.Implies(g, self.veq(x, b, depth)) for g, x in a.cases])
        if isinstance(b, CaseV):
            return z3.And([z3.Implies(g, self.veq(a, x, depth)) for g, x in b.cases])
        if isinstance(a, (Poison, FoldAcc, Carried)) or isinstance(b, (Poison, FoldAcc, Carried)):
            raise Undecided('comparison with poisoned value')
        if isinstance(a, SeqV) and isinstance(b, SeqV):
            if a.items is not None and b.items is not None:
                if len(a.items) != len(b.items):
                    return z3.BoolVal(False)
                return z3.And([self.veq(x, y, depth) for x, y in zip(a.items, b.items)] + [z3.BoolVal(True)])
            if a.term is not None and b.term is not None:
                return a.term == b.term
            conds = [a.zlen() == b.zlen()]
            if a.canon and b.canon and (a.mem is not None or a.items is not None) and (b.mem is not None or b.items is not None):
                x = z3.Int(fresh_name('sx')) if a.esort == 'int' else z3.Const(fresh_name('sx'), V)
                return z3.And(self.seq_mem(a, x) == self.seq_mem(b, x))
            k = z3.Int(fresh_name('sk'))
            ea = self.seq_elem(a, k)
            eb = self.seq_elem(b, k)
            conds.append(z3.Implies(z3.And(k >= 0, k < a.zlen()), self.veq(ea, eb, depth)))
            return z3.And(conds)
        if isinstance(a, tuple) and isinstance(b, tuple):
            if len(a) != len(b):
                return z3.BoolVal(False)
            return z3.And([self.veq(x, y, depth) for x, y in zip(a, b)] + [z3.BoolVal(True)])
        if isinstance(a, tuple) and isinstance(b, SeqV) and b.items is not None:
            return self.veq(a, tuple(b.items), depth)
        if isinstance(b, tuple) and isinstance(a, SeqV) and a.items is not None:
            return self.veq(tuple(a.items), b, depth)
        if isinstance(a, DictV) and isinstance(b, DictV):
            if set(a.d) != set(b.d):
                return z3.BoolVal(False)
            return z3.And([self.veq(a.d[k], b.d[k], depth) for k in a.d] + [z3.BoolVal(True)])
        if isinstance(a, ArrV) and isinstance(b, ArrV):
            return self.arr_eq(a, b)
        num_a, num_b = self.is_numeric(a), self.is_numeric(b)
        if num_a and num_b:
            ia = isinstance(a, int) or (isinstance(a, SV) and a.kind == 'int')
            ib = isinstance(b, int) or (isinstance(b, SV) and b.kind == 'int')
            if ia and ib:
                return self.as_int(a) == self.as_int(b)
            return self.as_real(a) == self.as_real(b)
        if not isinstance(a, (SV, Obj, SeqV, ArrV, DictV, FuncV)) and not isinstance(b, (SV, Obj, SeqV, ArrV, DictV, FuncV)):
            if is_nan(a) and is_nan(b):
                return z3.BoolVal(True)
            return z3.BoolVal(type(a) == type(b) and a == b or (a == b and not isinstance(a, bool) and not isinstance(b, bool)))
        ta, tb = self.toV(a), self.toV(b)
        direct = ta == tb
        appa = getattr(a, 'app', None)
        appb = getattr(b, 'app', None)
        if appa is not None and appb is not None and appa[0] == appb[0] and len(appa[1]) == len(appb[1]) and depth < 12:
            parts = []
            for k, (x, y) in enumerate(zip(appa[1], appb[1])):
                if appa[2] and appa[2].get(k) == 'set' and isinstance(x, SeqV) and isinstance(y, SeqV):
                    e = z3.Int(fresh_name('sx')) if x.esort == 'int' else z3.Const(fresh_name('sx'), V)
                    parts.append(self.seq_mem(x, e) == self.seq_mem(y, e))
                else:
                    parts.append(self.veq(x, y, depth + 1))
            return z3.Or(direct, z3.And(parts + [z3.BoolVal(True)]))
        return direct

    def arr_eq(self, a, b):
        return a.term == b.term

    # ------------------------------------------------------------------ sequences
    def seq_elem(self, s, i):
        """element of sequence-like value s at z3 Int index i (non-negative, in range assumed)"""
        if isinstance(s, SeqV):
            if s.items is not None:
                if not s.items:
                    raise Undecided('index into empty list')
                out = s.items[-1]
                if all(not isinstance(x, (SeqV, Obj, ArrV, DictV, CaseV)) for x in s.items):
                    cases = [(i == k, x) for k, x in enumerate(s.items)]
                    return CaseV(cases)
                return CaseV([(i == k, x) for k, x in enumerate(s.items)])
            if s.elem is None:
                raise Undecided('sequence without element function')
            return s.elem(i)
        if isinstance(s, SV) and s.kind == 'val':
            return self.app('getitem', [s, SV(i, 'int')])
        if isinstance(s, RangeV):
            return SV(self.as_int(s.start) + i, 'int')
        if isinstance(s, ArrV):
            return self.app('getitem', [s, SV(i, 'int')])
        raise Undecided(f'not a sequence: {s!r}')

    def seq_len(self, s):
        if isinstance(s, CaseV):
            out = None
            for g, v in reversed(s.cases):
                z = self.as_int(self.seq_len(v))
                out = z if out is None else z3.If(g, z, out)
            return SV(out, 'int')
        if isinstance(s, SeqV):
            return len(s.items) if s.items is not None else SV(s.length, 'int')
        if isinstance(s, SV) and s.kind == 'val':
            n = self.app('len', [s], 'int')
            self.fact(n.z >= 0)
            return n
        if isinstance(s, RangeV):
            a, b = self.as_int(s.start), self.as_int(s.stop)
            return SV(z3.If(b > a, b - a, 0), 'int')
        if isinstance(s, ArrV):
            d = s.shape[0]
            return d if isinstance(d, int) else SV(d, 'int')
        if isinstance(s, tuple):
            return len(s)
        if isinstance(s, DictV):
            return len(s.d)
        if isinstance(s, str):
            return len(s)
        if isinstance(s, Obj):
            fn = self.methods.get((s.cls, '__len__'))
            if fn:
                return fn(self, s)
            n = self.app('len', [s], 'int')
            self.fact(n.z >= 0)
            return n
        raise Undecided(f'len of {s!r}')

    def opaque_seq(self, sv, esort='val', length=None):
        """view an opaque value as a sequence"""
        n = self.seq_len(sv) if length is None else length
        nz = self.as_int(n)
        if esort == 'int':
            return SeqV(length=nz, elem=lambda i: self.app('getitem', [sv, SV(i, 'int')], 'int'), kind='array', esort='int', term=sv.z)
        return SeqV(length=nz, elem=lambda i: self.app('getitem', [sv, SV(i, 'int')]), kind='array', term=sv.z)


def _const_names(f, cache={}):
    k = f.get_id()
    if k in cache and cache[k][0].eq(f):
        return cache[k][1]
    names = set()
    seen = set()
    stack = [f]
    while stack:
        e = stack.pop()
        i = e.get_id()
        if i in seen:
            continue
        seen.add(i)
        if z3.is_const(e) and e.decl().kind() == z3.Z3_OP_UNINTERPRETED:
            names.add(str(e))
        elif z3.is_quantifier(e):
            stack.append(e.body())
        else:
            stack.extend(e.children())
    cache[k] = (f, names)      # keep the AST alive: ids are reused after garbage collection
    return names
