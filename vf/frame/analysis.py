"""Frame analysis (C12, clause 1): which public callables may store into memory reachable from their arguments?

A flow-insensitive MAY-alias analysis over the real AST (re-read on every run):
  * a local name is TAINTED by parameter p if it may reference memory reachable from p: the parameter itself, attribute /
    subscript views of a tainted value (basic or unknown indexing, `.T`, `.reshape`, `.ravel`, `.squeeze`, `.flat`,
    `.view`, `.swapaxes`, `.transpose`), `np.asarray / np.array(copy=False) / np.atleast_nd / np.ascontiguousarray` of
    it, `get_vectors()` (returns the internal array by its contract), `dict.values() / items() / get()`, iteration
    over it, tuple unpacking of a tainted value, and results of repo callees whose summary says "returns an alias";
  * COPYING operations clear the taint: arithmetic, boolean / fancy indexing with a mask built by a comparison,
    `np.array(x)`, `.copy()`, `deepcopy`, `np.concatenate`, `astype`, `list(x)`, `dict(x)` (shallow: the CONTAINER is
    fresh, its elements stay tainted -- tracked as 'elements tainted'), `np.where`, reductions;
  * a STORE is `x[...] = v`, `x op= v` on a non-rebinding target (ndarray / list in-place semantics), `x.attr = v`,
    `del x[...]`, calls of mutating methods (`append extend insert pop remove clear sort reverse update setdefault
    fill resize put itemset`) and of library mutators (`np.fill_diagonal, np.put, np.putmask, np.place, np.copyto,
    np.random.shuffle`), and passing x to a repo callee whose summary says it mutates that parameter.
Summaries (mutated parameters, aliased-return parameters) are computed bottom-up to a fixpoint over the repo call graph.

Soundness caveat (stated in the evidence): dynamic dispatch through `self.method`/callables stored in attributes is resolved
by method NAME across all repo classes (over-approximation); getattr/eval/exec are not handled; C extensions are opaque.
Because this is a may-analysis an alarm is not a violation by itself: alarms are cross-checked against the dynamic
fingerprints of the bounded tier.
"""
import ast
import os

VIEW_ATTRS = {'T', 'flat', 'real', 'imag', 'dissimilarities', 'measurements', 'rdm', 'rdm_obj', 'descriptors',
              'rdm_descriptors', 'pattern_descriptors', 'obs_descriptors', 'channel_descriptors', 'time_descriptors',
              'evaluations', 'variances', 'noise_ceiling', 'models', 'basis'}
VIEW_METHODS = {'reshape', 'ravel', 'squeeze', 'view', 'swapaxes', 'transpose', 'get_vectors', 'values', 'items', 'get',
                'keys', 'diagonal', '__getitem__', 'setdefault'}
COPY_METHODS = {'copy', 'astype', 'tolist', 'flatten', 'mean', 'sum', 'std', 'var', 'min', 'max', 'argsort', 'nonzero',
                'get_matrices', 'round', 'dot', 'cumsum', 'conj', 'repeat', 'to_dict'}
MUT_METHODS = {'append', 'extend', 'insert', 'pop', 'remove', 'clear', 'sort', 'reverse', 'update', 'fill',
               'resize', 'put', 'itemset', 'popitem', '__setitem__'}
ALIAS_FUNCS = {'asarray', 'asanyarray', 'ascontiguousarray', 'atleast_1d', 'atleast_2d', 'atleast_3d', 'squeeze',
               'ravel', 'reshape', 'transpose', 'swapaxes', 'expand_dims', 'broadcast_to', 'diagonal'}
LIB_MUTATORS = {'fill_diagonal': 0, 'put': 0, 'putmask': 0, 'place': 0, 'copyto': 0, 'shuffle': 0}
DOCUMENTED_MUTATORS = {'RDMs.reorder', 'RDMs.sort_by', 'RDMs.append', 'Dataset.sort_by', 'TemporalDataset.sort_by',
                       'append_descriptor'}


class FnInfo:
    def __init__(self, qual, node, cls, module):
        self.qual = qual
        self.node = node
        self.cls = cls
        self.module = module
        a = node.args
        self.params = [p.arg for p in a.posonlyargs + a.args + a.kwonlyargs]
        if a.vararg:
            self.params.append(a.vararg.arg)
        if a.kwarg:
            self.params.append(a.kwarg.arg)
        self.mutates = {}      # param -> list of (lineno, reason)
        self.ret_alias = set()  # params the return value may alias
        self.ret_elems = None   # per-element alias sets when the function returns a tuple literal


def collect(src_root, packages=('rdm', 'data', 'model', 'inference', 'util')):
    fns = {}
    for pk in packages:
        base = os.path.join(src_root, 'rsatoolbox', pk)
        for dp, dn, files in os.walk(base):
            for f in sorted(files):
                if not f.endswith('.py'):
                    continue
                path = os.path.join(dp, f)
                mod = os.path.relpath(path, src_root)[:-3].replace(os.sep, '.')
                tree = ast.parse(open(path).read(), filename=path)
                for st in tree.body:
                    if isinstance(st, ast.FunctionDef):
                        fns[f'{mod}.{st.name}'] = FnInfo(f'{mod}.{st.name}', st, None, mod)
                    elif isinstance(st, ast.ClassDef):
                        for m in st.body:
                            if isinstance(m, ast.FunctionDef):
                                fns[f'{mod}.{st.name}.{m.name}'] = FnInfo(f'{mod}.{st.name}.{m.name}', m, st.name, mod)
    return fns


def _root(e):
    """(base name, is_view_chain) of an expression like name.attr[...].T"""
    while True:
        if isinstance(e, ast.Name):
            return e.id
        if isinstance(e, ast.Attribute):
            e = e.value
        elif isinstance(e, ast.Subscript):
            e = e.value
        elif isinstance(e, ast.Starred):
            e = e.value
        else:
            return None


class Analyzer(ast.NodeVisitor):
    def __init__(self, fn, by_name):
        self.fn = fn
        self.by_name = by_name        # simple name -> list of FnInfo (functions and methods)
        self.taint = {p: {p} for p in fn.params}    # local name -> set of params it may alias
        self.changed = True

    # ---- taint of an expression: set of params whose memory the value may reference
    def t(self, e):
        if e is None:
            return set()
        if isinstance(e, ast.Name):
            return set(self.taint.get(e.id, ()))
        if isinstance(e, ast.Attribute):
            return self.t(e.value)          # attribute of a tainted object: reachable memory
        if isinstance(e, ast.Subscript):
            # indexing: boolean-mask / fancy indexing copies; we cannot tell statically, so keep the taint unless the
            # index is syntactically a comparison (mask) or a list/array literal
            sl = e.slice
            if isinstance(sl, (ast.Compare, ast.List)) or (isinstance(sl, ast.Tuple) and any(isinstance(x, (ast.Compare, ast.List)) for x in sl.elts)):
                return set()
            return self.t(e.value)
        if isinstance(e, (ast.Tuple, ast.List, ast.Set)):
            out = set()
            for x in e.elts:
                out |= self.t(x)
            return out
        if isinstance(e, ast.Dict):
            out = set()
            for x in e.values:
                out |= self.t(x)
            return out
        if isinstance(e, ast.IfExp):
            return self.t(e.body) | self.t(e.orelse)
        if isinstance(e, ast.BoolOp):
            out = set()
            for x in e.values:
                out |= self.t(x)
            return out
        if isinstance(e, ast.Starred):
            return self.t(e.value)
        if isinstance(e, ast.Call):
            return self.t_call(e)
        if isinstance(e, (ast.ListComp, ast.GeneratorExp, ast.DictComp, ast.SetComp)):
            # container is fresh, elements may alias what the element expression aliases (with generator targets bound)
            for g in e.generators:
                self.bind(g.target, self.t(g.iter))
            if isinstance(e, ast.DictComp):
                return self.t(e.value)
            return self.t(e.elt)
        return set()      # BinOp, UnaryOp, Compare, Constant, JoinedStr, Lambda ... produce fresh values

    def t_call(self, c):
        f = c.func
        args = list(c.args) + [k.value for k in c.keywords]
        if isinstance(f, ast.Attribute):
            name = f.attr
            if name in VIEW_METHODS:
                return self.t(f.value)
            if name in COPY_METHODS:
                return set()
            base = _root(f.value)
            if base in ('np', 'numpy', 'sl', 'scipy', 'ss'):
                if name in ALIAS_FUNCS:
                    return self.t(args[0]) if args else set()
                if name == 'array':
                    for k in c.keywords:
                        if k.arg == 'copy' and isinstance(k.value, ast.Constant) and k.value.value is False:
                            return self.t(args[0])
                    return set()
                return set()
            # method of a repo class (resolved by name, over-approximating)
            out = set()
            for g in self.by_name.get(name, ()):
                if g.cls is None:
                    continue
                for p in g.ret_alias:
                    if p == 'self':
                        out |= self.t(f.value)
                    elif p in g.params:
                        k = g.params.index(p) - 1
                        if 0 <= k < len(c.args):
                            out |= self.t(c.args[k])
                        for kw in c.keywords:
                            if kw.arg == p:
                                out |= self.t(kw.value)
            return out
        if isinstance(f, ast.Name):
            name = f.id
            if name in ('deepcopy', 'copy', 'len', 'str', 'int', 'float', 'bool', 'sum', 'min', 'max', 'sorted', 'range',
                        'enumerate', 'zip', 'isinstance', 'type', 'abs', 'any', 'all', 'print', 'repr', 'round'):
                if name in ('enumerate', 'zip'):
                    out = set()
                    for a in args:
                        out |= self.t(a)
                    return out
                return set()
            if name in ('list', 'tuple', 'dict', 'set', 'reversed', 'iter'):
                return self.t(args[0]) if args else set()   # shallow: elements stay reachable
            out = set()
            for g in self.by_name.get(name, ()):
                for p in g.ret_alias:
                    if p in g.params:
                        k = g.params.index(p) - (1 if g.cls else 0)
                        if 0 <= k < len(c.args):
                            out |= self.t(c.args[k])
                        for kw in c.keywords:
                            if kw.arg == p:
                                out |= self.t(kw.value)
            return out
        return set()

    def bind(self, target, taint, strong=False):
        if isinstance(target, ast.Name):
            old = self.taint.get(target.id, set())
            new = set(taint) if strong else (old | taint)
            if new != old:
                self.taint[target.id] = new
        elif isinstance(target, (ast.Tuple, ast.List)):
            for x in target.elts:
                self.bind(x, taint, strong)
        elif isinstance(target, ast.Starred):
            self.bind(target.value, taint, strong)

    def store(self, expr, node, reason):
        for p in self.t(expr):
            lst = self.fn.mutates.setdefault(p, [])
            item = (getattr(node, 'lineno', 0), reason)
            if item not in lst:
                lst.append(item)
                self.changed = True

    # ---- flow-sensitive walk: strong updates on rebinding, join at control-flow merges
    def block(self, stmts):
        for st in stmts:
            self.stmt(st)

    def _join(self, envs):
        out = {}
        for e in envs:
            for k, v in e.items():
                out[k] = out.get(k, set()) | v
        self.taint = out

    def stmt(self, n):
        if isinstance(n, ast.Assign):
            self.calls_in(n.value)
            elems = self.t_elems(n.value)
            tv = self.t(n.value)
            for tg in n.targets:
                if elems is not None and isinstance(tg, (ast.Tuple, ast.List)) and len(tg.elts) == len(elems):
                    for x, tx in zip(tg.elts, elems):
                        self._assign_target(x, tx, n)
                else:
                    self._assign_target(tg, tv, n)
        elif isinstance(n, ast.AnnAssign):
            if n.value is not None:
                self.calls_in(n.value)
                self._assign_target(n.target, self.t(n.value), n)
        elif isinstance(n, ast.AugAssign):
            self.calls_in(n.value)
            tg = n.target
            if isinstance(tg, ast.Name):
                self.store(tg, n, f'augmented assignment {ast.unparse(tg)} {type(n.op).__name__}=')
            elif isinstance(tg, ast.Subscript):
                self.store(tg.value, n, 'augmented item store ' + ast.unparse(tg)[:60])
            elif isinstance(tg, ast.Attribute):
                self.store(tg.value, n, 'augmented attribute store ' + ast.unparse(tg)[:60])
        elif isinstance(n, ast.Delete):
            for tg in n.targets:
                if isinstance(tg, ast.Subscript):
                    self.store(tg.value, n, 'del item')
        elif isinstance(n, (ast.For, ast.AsyncFor)):
            self.calls_in(n.iter)
            pre = dict(self.taint)
            for _ in range(3):
                self.bind(n.target, self.t(n.iter))
                self.block(n.body)
                self._join([pre, self.taint])
            self.block(n.orelse)
        elif isinstance(n, ast.While):
            self.calls_in(n.test)
            pre = dict(self.taint)
            for _ in range(3):
                self.block(n.body)
                self._join([pre, self.taint])
            self.block(n.orelse)
        elif isinstance(n, ast.If):
            self.calls_in(n.test)
            pre = dict(self.taint)
            self.block(n.body)
            e1 = self.taint
            self.taint = dict(pre)
            self.block(n.orelse)
            self._join([e1, self.taint])
        elif isinstance(n, (ast.With, ast.AsyncWith)):
            for it in n.items:
                self.calls_in(it.context_expr)
                if it.optional_vars is not None:
                    self.bind(it.optional_vars, self.t(it.context_expr), strong=True)
            self.block(n.body)
        elif isinstance(n, ast.Try):
            pre = dict(self.taint)
            self.block(n.body)
            envs = [self.taint]
            for h in n.handlers:
                self.taint = dict(pre)
                self.block(h.body)
                envs.append(self.taint)
            self._join(envs)
            self.block(n.orelse)
            self.block(n.finalbody)
        elif isinstance(n, ast.Return):
            if n.value is not None:
                self.calls_in(n.value)
                tv = self.t(n.value)
                if not tv <= self.fn.ret_alias:
                    self.fn.ret_alias |= tv
                    self.changed = True
                elems = self.t_elems(n.value)
                if elems is not None:
                    old = self.fn.ret_elems
                    if old is None or len(old) != len(elems):
                        new = [set(x) for x in elems] if old is None else None
                    else:
                        new = [a | b for a, b in zip(old, elems)]
                    if new != old and not (old is not None and new is None and getattr(self.fn, 'ret_elems_dead', False)):
                        self.fn.ret_elems = new
                        if new is None:
                            self.fn.ret_elems_dead = True
                        self.changed = True
                else:
                    if self.fn.ret_elems is not None:
                        self.fn.ret_elems = None
                        self.fn.ret_elems_dead = True
        elif isinstance(n, ast.Expr):
            self.calls_in(n.value)
        elif isinstance(n, (ast.FunctionDef, ast.ClassDef)):
            pass
        elif isinstance(n, ast.Assert):
            self.calls_in(n.test)
        elif isinstance(n, ast.Raise):
            pass

    def t_elems(self, e):
        """per-element taint when e is a tuple literal or a call of a repo function that returns a tuple literal"""
        if isinstance(e, ast.Tuple):
            return [self.t(x) for x in e.elts]
        if isinstance(e, ast.Call):
            name = e.func.id if isinstance(e.func, ast.Name) else (e.func.attr if isinstance(e.func, ast.Attribute) else None)
            cands = [g for g in self.by_name.get(name, ()) if getattr(g, 'ret_elems', None) is not None]
            alls = self.by_name.get(name, ())
            if cands and len(cands) == len(alls) and len({len(g.ret_elems) for g in cands}) == 1:
                k = len(cands[0].ret_elems)
                out = [set() for _ in range(k)]
                for g in cands:
                    off = 1 if g.cls else 0
                    for i in range(k):
                        for p in g.ret_elems[i]:
                            if p == 'self' and isinstance(e.func, ast.Attribute):
                                out[i] |= self.t(e.func.value)
                            elif p in g.params:
                                j = g.params.index(p) - off
                                if 0 <= j < len(e.args):
                                    out[i] |= self.t(e.args[j])
                                for kw in e.keywords:
                                    if kw.arg == p:
                                        out[i] |= self.t(kw.value)
                return out
        return None

    def _assign_target(self, tg, tv, n):
        if isinstance(tg, ast.Name):
            self.bind(tg, tv, strong=True)
        elif isinstance(tg, (ast.Tuple, ast.List)):
            for x in tg.elts:
                self._assign_target(x, tv, n)
        elif isinstance(tg, ast.Subscript):
            self.store(tg.value, n, 'item store ' + ast.unparse(tg)[:60])
        elif isinstance(tg, ast.Attribute):
            self.store(tg.value, n, 'attribute store ' + ast.unparse(tg)[:60])

    def calls_in(self, e):
        for c in ast.walk(e):
            if isinstance(c, ast.Call):
                self.call_effects(c)

    def call_effects(self, c):
        f = c.func
        if isinstance(f, ast.Attribute):
            if f.attr in MUT_METHODS:
                self.store(f.value, c, f'mutating method .{f.attr}()')
            base = _root(f.value)
            if f.attr in LIB_MUTATORS and base in ('np', 'numpy', 'random'):
                k = LIB_MUTATORS[f.attr]
                if k < len(c.args):
                    self.store(c.args[k], c, f'library mutator {f.attr}')
            for g in self.by_name.get(f.attr, ()):
                if g.cls is None:
                    continue
                for p in list(g.mutates):
                    if p == 'self':
                        self.store(f.value, c, f'callee {g.qual.split(".", 2)[-1]} mutates self')
                    elif p in g.params:
                        k = g.params.index(p) - 1
                        if 0 <= k < len(c.args):
                            self.store(c.args[k], c, f'callee {g.qual.split(".", 2)[-1]} mutates {p}')
                        for kw in c.keywords:
                            if kw.arg == p:
                                self.store(kw.value, c, f'callee {g.qual.split(".", 2)[-1]} mutates {p}')
        elif isinstance(f, ast.Name):
            for g in self.by_name.get(f.id, ()):
                off = 1 if g.cls else 0
                for p in list(g.mutates):
                    if p in g.params:
                        k = g.params.index(p) - off
                        if 0 <= k < len(c.args):
                            self.store(c.args[k], c, f'callee {g.qual.rsplit(".", 1)[-1]} mutates {p}')
                        for kw in c.keywords:
                            if kw.arg == p:
                                self.store(kw.value, c, f'callee {g.qual.rsplit(".", 1)[-1]} mutates {p}')


def analyse(src_root):
    fns = collect(src_root)
    by_name = {}
    for q, f in fns.items():
        by_name.setdefault(f.node.name, []).append(f)
    # __init__ of a class is reached through the class name
    for q, f in list(fns.items()):
        if f.node.name == '__init__' and f.cls:
            by_name.setdefault(f.cls, []).append(f)
    for _ in range(12):
        any_change = False
        for f in fns.values():
            a = Analyzer(f, by_name)
            a.changed = False
            a.block(f.node.body)
            if a.changed:
                any_change = True
        if not any_change:
            break
    return fns


def public(f):
    name = f.node.name
    if name.startswith('_') and name not in ('__init__', '__getitem__'):
        return False
    return True
