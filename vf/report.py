"""Run context shared by all checks: obligations, bounded checks, violations, evidence.

Exit codes: 0 held, 1 violation (VIOLATION line printed), 2 undecided, 3 checker crash.
`unknown`, timeouts and tracebacks are never mapped to 1.
"""
import fnmatch
import hashlib
import json
import os
import subprocess
import sys
import time

ROOT = os.path.dirname(os.path.dirname(os.path.abspath(__file__)))
OUT = os.environ.get('VERIF_OUT', ROOT)   # evidence/ and replays/ go here (redirected for seeded-mutation drills)
REPO = os.environ.get('VERIF_REPO', '/repo')
SRC = os.path.join(REPO, 'src')

COMMON_ASSUMPTIONS = [
    "Python ints are unbounded mathematical integers (z3 Int); Python/numpy floats are mathematical reals (no IEEE rounding)",
    "float arithmetic on integers below 2^53 is exact (np.floor(len/k), sqrt brackets)",
    "no monkey-patching, no threads; dict order = insertion order; repo objects are only mutated through statements the engine sees",
    "library functions without a sidecar contract are pure, deterministic functions of their arguments (uninterpreted symbols), except the listed random/mutating models",
    "exceptions other than those the contract mentions do not occur inside assumed library calls when their stated preconditions hold",
    "termination is not verified",
    "the verifier itself is trusted: engine A's translation of the Python subset and its loop summaries (map / fold at a Skolem index, "
    "filter and concat-map sequences with their monotonicity axioms, OR / sum accumulators, nested stores without aliasing of inner "
    "lists) -- DESIGN.md 2.1, 10.2, 10.9; validated by seeded changes and mutation drills, not proved",
]


def repo_describe():
    try:
        h = subprocess.run(['git', '-C', REPO, 'rev-parse', '--short', 'HEAD'], capture_output=True, text=True).stdout.strip()
        d = subprocess.run(['git', '-C', REPO, 'status', '--porcelain', '--untracked-files=no'], capture_output=True, text=True).stdout.strip()
        return h + ('+dirty' if d else '')
    except Exception:
        return 'unknown'


class Run:
    def __init__(self, pid, tier='quick', seed=0, level='other'):
        self.pid = pid
        self.tier = tier
        self.seed = seed
        self.level = level
        self.t0 = time.time()
        self.obligations = []      # dict(name, status, backend, time_s, detail)
        self.bounded = []          # dict(name, tier, domain, evaluations, distinct, exhaustive, failures)
        self.violations = []       # dict(obligation, key, replay, found_input)
        self.known_hits = []
        self.undecided = []
        self.samples = []
        self.trusted = []
        self.functions = []
        self.assumptions = list(COMMON_ASSUMPTIONS)
        self.notes = []
        self.vacuity = []
        self.explanation = ''
        self.crashed = None
        self.known = self._load_known()
        self.extra = {}

    # ---- known findings -------------------------------------------------
    def _load_known(self):
        p = os.path.join(ROOT, 'known_findings.json')
        if not os.path.exists(p):
            return []
        with open(p) as f:
            data = json.load(f)
        return [e for e in data.get('findings', []) if e.get('property') == self.pid]

    def _match_known(self, key):
        for e in self.known:
            if e.get('status') != 'open':
                continue
            if key == e['key'] or fnmatch.fnmatchcase(key, e['key']):
                return e
        return None

    # ---- recording ------------------------------------------------------
    def function(self, qual):
        if qual not in self.functions:
            self.functions.append(qual)

    def trust(self, what):
        if what not in self.trusted:
            self.trusted.append(what)

    def assume(self, what):
        if what not in self.assumptions:
            self.assumptions.append(what)

    def sample(self, s):
        if len(self.samples) < 12:
            self.samples.append(s)

    def obligation(self, name, status, backend='z3', time_s=0.0, detail=None):
        """status in {'proved','refuted','unknown'}"""
        self.obligations.append(dict(name=name, status=status, backend=backend,
                                     time_s=round(time_s, 4), detail=detail))
        if status == 'unknown':
            self.undecided.append(name)
        if status == 'proved':
            self.sample(dict(obligation=name, verdict='proved', backend=backend, time_s=round(time_s, 4),
                             **({'detail': detail} if isinstance(detail, str) and len(detail) < 400 else {})))

    def bounded_check(self, name, tier, domain, evaluations, distinct, exhaustive, failures=0, sample=None):
        self.bounded.append(dict(name=name, tier=tier, domain=domain, evaluations=int(evaluations),
                                 distinct_nontrivial=int(distinct), exhaustive=bool(exhaustive), failures=int(failures)))
        if sample is not None:
            self.sample(dict(bounded=name, case=sample))

    def undecide(self, name, why):
        self.undecided.append(name)
        self.notes.append(f'undecided {name}: {why}')

    def violation(self, obligation, input_class, replay_payload, found_input=True, what=''):
        """Report a violation of `obligation` for inputs of `input_class`.
        replay_payload: JSON-able dict stored in the replay file."""
        key = f'{obligation}|{input_class}'
        for v in self.violations + self.known_hits:
            if v['key'] == key:
                return
        kf = self._match_known(key)
        rec = dict(obligation=obligation, key=key, found_input=bool(found_input), what=what)
        if kf is not None:
            rec['known'] = kf.get('what', '')
            self.known_hits.append(rec)
            print(f"KNOWN-FINDING: property={self.pid} {key} -- {kf.get('what', '')}")
            return
        h = hashlib.sha1(json.dumps([key, replay_payload], sort_keys=True, default=str).encode()).hexdigest()[:10]
        rdir = os.path.join(OUT, 'replays', self.pid)
        os.makedirs(rdir, exist_ok=True)
        safe = obligation.replace('/', '_').replace(':', '_')
        path = os.path.join(rdir, f'{safe}-{h}.json')
        payload = dict(property=self.pid, obligation=obligation, input_class=input_class, key=key,
                       found_input=bool(found_input), what=what, repo=repo_describe(), data=replay_payload)
        with open(path, 'w') as f:
            json.dump(payload, f, indent=1, default=str)
        rec['replay'] = os.path.relpath(path, OUT)
        self.violations.append(rec)
        tail = '' if found_input else ' no-failing-input-found'
        print(f"VIOLATION property={self.pid} replay={rec['replay']}{tail}")
        sys.stdout.flush()

    # ---- finishing ------------------------------------------------------
    def finish(self):
        wall = time.time() - self.t0
        n_ob = len(self.obligations)
        n_dis = sum(1 for o in self.obligations if o['status'] == 'proved')
        by_backend = {}
        solver_time = 0.0
        for o in self.obligations:
            by_backend[o['backend']] = by_backend.get(o['backend'], 0) + 1
            solver_time += o['time_s']
        evals = sum(b['evaluations'] for b in self.bounded)
        distinct = sum(b['distinct_nontrivial'] for b in self.bounded)
        cov = dict(
            obligations=n_ob, discharged=n_dis,
            checker_cmd=f'./check {self.pid} --tier {self.tier}',
            trusted_base=self.trusted,
            explanation=self.explanation or 'see level_note in MANIFEST.json',
            samples=self.samples or [dict(note='no sample recorded')],
            functions_under_contract=self.functions,
            by_backend=by_backend, solver_time_s=round(solver_time, 3),
            undecided=self.undecided, bounded_checks=self.bounded,
            vacuity=self.vacuity, known_findings_matched=[k['key'] for k in self.known_hits],
            obligation_list=[dict(name=o['name'], status=o['status'], backend=o['backend'], time_s=o['time_s'])
                             for o in self.obligations],
            notes=self.notes,
        )
        cov.update(self.extra)
        if self.bounded:
            cov['evaluations'] = evals
            cov['distinct_nontrivial'] = distinct
            cov['rule'] = '; '.join(f"{b['name']}: {b['domain']}" for b in self.bounded)[:4000]
            cov['exhaustive'] = all(b['exhaustive'] for b in self.bounded)
        ev = dict(property_id=self.pid, tier=self.tier, seed=int(self.seed), level=self.level,
                  coverage=cov, assumptions=self.assumptions, wall_s=round(wall, 2),
                  violations=len(self.violations))
        os.makedirs(os.path.join(OUT, 'evidence'), exist_ok=True)
        with open(os.path.join(OUT, 'evidence', f'{self.pid}.json'), 'w') as f:
            json.dump(ev, f, indent=1, default=str)
        if self.crashed:
            print(f'CHECKER-CRASH property={self.pid}: {self.crashed}')
            return 3
        if self.violations:
            return 1
        if self.undecided:
            print(f'UNDECIDED property={self.pid}: ' + ', '.join(self.undecided[:20]))
            return 2
        if n_ob == 0 and not self.bounded:
            print(f'CHECKER-CRASH property={self.pid}: zero obligations and zero bounded checks (vacuous run)')
            return 3
        print(f'OK property={self.pid} tier={self.tier} obligations={n_dis}/{n_ob} '
              f'bounded_evaluations={evals} known_findings={len(self.known_hits)} wall={wall:.1f}s')
        return 0
