/-
C07, lemma layer: the pooled direction maximises the mean cosine similarity.

Stated over the POOLING CONTRACT (pooled RDM = mean of the normalised data vectors), not over code:
for unit vectors u_i in a real inner-product space, with s = Σ u_i ≠ 0, no vector r ≠ 0 has a larger
mean cosine with the u_i than s has; and cosine is invariant under positive rescaling of either argument
(which carries the statement from s to the pooled mean s/n and to unnormalised data).
-/
import Mathlib.Analysis.InnerProductSpace.Basic

open Finset

variable {E : Type*} [NormedAddCommGroup E] [InnerProductSpace ℝ E]

/-- cosine similarity -/
noncomputable def cosSim (a b : E) : ℝ := inner ℝ a b / (‖a‖ * ‖b‖)

theorem cos_scale_invariant (a b : E) (c : ℝ) (hc : 0 < c) (ha : a ≠ 0) (hb : b ≠ 0) :
    cosSim (c • a) b = cosSim a b := by
  unfold cosSim
  rw [inner_smul_left, norm_smul, Real.norm_eq_abs, abs_of_pos hc]
  have hna : ‖a‖ ≠ 0 := norm_ne_zero_iff.mpr ha
  have hnb : ‖b‖ ≠ 0 := norm_ne_zero_iff.mpr hb
  simp only [conj_trivial]
  field_simp

/-- For unit vectors `u i`, the sum `s = Σ u i` (if non-zero) attains the largest possible sum of cosines:
    Σ_i cos(r, u_i) ≤ Σ_i cos(s, u_i) for every r ≠ 0.  (Dividing by n gives the statement for the means.) -/
theorem pooled_optimal {ι : Type*} (t : Finset ι) (u : ι → E) (hu : ∀ i ∈ t, ‖u i‖ = 1)
    (r : E) (hr : r ≠ 0) (hs : (∑ i ∈ t, u i) ≠ 0) :
    ∑ i ∈ t, cosSim r (u i) ≤ ∑ i ∈ t, cosSim (∑ j ∈ t, u j) (u i) := by
  set s := ∑ j ∈ t, u j with hsdef
  have hnr : 0 < ‖r‖ := norm_pos_iff.mpr hr
  have hns : 0 < ‖s‖ := norm_pos_iff.mpr hs
  -- left side = ⟨r, s⟩ / ‖r‖
  have hL : ∑ i ∈ t, cosSim r (u i) = inner ℝ r s / ‖r‖ := by
    have : ∀ i ∈ t, cosSim r (u i) = inner ℝ r (u i) / ‖r‖ := by
      intro i hi
      unfold cosSim
      rw [hu i hi, mul_one]
    rw [Finset.sum_congr rfl this, ← Finset.sum_div, ← inner_sum]
  -- right side = ⟨s, s⟩ / ‖s‖ = ‖s‖
  have hR : ∑ i ∈ t, cosSim s (u i) = ‖s‖ := by
    have : ∀ i ∈ t, cosSim s (u i) = inner ℝ s (u i) / ‖s‖ := by
      intro i hi
      unfold cosSim
      rw [hu i hi, mul_one]
    rw [Finset.sum_congr rfl this, ← Finset.sum_div, ← inner_sum, real_inner_self_eq_norm_sq]
    field_simp
  rw [hL, hR]
  -- Cauchy–Schwarz
  have hcs : inner ℝ r s ≤ ‖r‖ * ‖s‖ := real_inner_le_norm r s
  rw [div_le_iff₀ hnr]
  linarith [hcs, mul_comm ‖r‖ ‖s‖]
