/-
C14, lemma layer for the Ledoit-Wolf estimator `_covariance_eye`:

  b2 = (1/n) * Σ_{jk} [ (1/n) Σ_t p_t(j,k)^2 - ((1/n) Σ_t p_t(j,k))^2 ]    with p_t = outer(x_t, x_t)

is non-negative, because for every entry the mean of squares is at least the square of the mean.
Stated for an arbitrary finite family of reals; the contract in contracts/C14.py checks (structurally, on the
real AST) that `s2_sum` and `s_sum` are the sums of `xt_x ** 2` and `xt_x` over the same rows.
-/
import Mathlib.Algebra.Order.Chebyshev
import Mathlib.Tactic

open Finset

/-- mean of squares ≥ square of the mean, for n > 0 reals -/
theorem mean_sq_ge_sq_mean (n : ℕ) (hn : 0 < n) (x : Fin n → ℝ) :
    ((∑ i, x i) / n) ^ 2 ≤ (∑ i, (x i) ^ 2) / n := by
  have hpos : (0 : ℝ) < n := by exact_mod_cast hn
  have h := sq_sum_le_card_mul_sum_sq (s := (Finset.univ : Finset (Fin n))) (f := x)
  simp only [Finset.card_univ, Fintype.card_fin] at h
  rw [div_pow, div_le_div_iff₀ (by positivity) hpos]
  nlinarith [h, hpos]

/-- hence every summand of b2, and b2 itself, is non-negative -/
theorem var_of_products_nonneg (n : ℕ) (hn : 0 < n) (x : Fin n → ℝ) :
    0 ≤ (∑ i, (x i) ^ 2) / n - ((∑ i, x i) / n) ^ 2 := by
  linarith [mean_sq_ge_sq_mean n hn x]

/-- a sum of squares is non-negative (d2 = Σ (s - m I)^2) -/
theorem sum_sq_nonneg {ι : Type*} (t : Finset ι) (y : ι → ℝ) : 0 ≤ ∑ i ∈ t, (y i) ^ 2 :=
  Finset.sum_nonneg (fun i _ => sq_nonneg (y i))
