"""Engine C (rtcheck): bounded run-time checks of the real functions against spec-function oracles.

An oracle is a function case(dict, JSON-able) -> None | str (failure description).  Cases are
JSON-able so that every failure can be stored in a replay file and re-executed with
`./check Cxx --replay <file>`.  Everything decided here is BOUNDED and labelled so.
"""
import json
import os
import time
import traceback

import numpy as np

ORACLES = {}


def oracle(name):
    def deco(fn):
        ORACLES[name] = fn
        fn.oracle_name = name
        return fn
    return deco


class Bounded:
    def __init__(self, run, name, obligation, domain, exhaustive=False, function=None, budget_s=None):
        self.run = run
        self.name = name
        self.obligation = obligation
        self.domain = domain
        self.exhaustive = exhaustive
        self.function = function or name
        self.evals = 0
        self.keys = set()
        self.failures = []
        self.sample = None
        self.t0 = time.time()
        self.budget_s = budget_s
        self.truncated = False

    def out_of_budget(self):
        if self.budget_s is not None and time.time() - self.t0 > self.budget_s:
            self.truncated = True
            return True
        return False

    def check(self, orc, case, input_class=None, nontrivial=True, function=None):
        """run oracle `orc` on `case`; returns True if it held"""
        self.evals += 1
        if nontrivial:
            self.keys.add(json.dumps(case, sort_keys=True, default=str))
        if self.sample is None:
            self.sample = dict(oracle=orc.oracle_name, case=case)
        try:
            res = orc(case)
        except Exception as e:  # an exception inside the real code under a valid input is a failure of the oracle
            res = f'exception {type(e).__name__}: {e}'
            tb = traceback.format_exc().strip().split('\n')[-6:]
            res += ' | ' + ' / '.join(t.strip() for t in tb)
        if res is None:
            return True
        ic = input_class or 'bounded'
        self.failures.append((ic, case, res, function or self.function, orc.oracle_name))
        self.run.violation(self.obligation, ic, dict(oracle=orc.oracle_name, case=case, observed=str(res)[:2000]),
                           found_input=True, what=str(res)[:300])
        return False

    def done(self):
        exh = self.exhaustive and not self.truncated
        dom = self.domain + (' [truncated by time budget]' if self.truncated else '')
        self.run.bounded_check(self.name, 'C', dom, self.evals, len(self.keys), exh,
                               failures=len(self.failures), sample=self.sample)
        return not self.failures


def replay_file(path):
    with open(path) as f:
        payload = json.load(f)
    data = payload.get('data', {})
    print(f"replay {path}\n property={payload.get('property')} obligation={payload.get('obligation')} "
          f"input_class={payload.get('input_class')} recorded_on={payload.get('repo')}")
    if 'oracle' not in data:
        print(' no concrete input recorded (no-failing-input-found); solver output follows')
        print(json.dumps(data, indent=1)[:4000])
        return 0
    orc = ORACLES.get(data['oracle'])
    if orc is None:
        print(f" unknown oracle {data['oracle']}")
        return 3
    print(' case:', json.dumps(data['case'])[:2000])
    print(' recorded observation:', data.get('observed'))
    try:
        res = orc(data['case'])
    except Exception as e:
        res = f'exception {type(e).__name__}: {e}'
    if res is None:
        print(' now: HOLDS on the current tree')
        return 0
    print(' now: FAILS on the current tree:', res)
    return 1


def rng_for(case_seed):
    return np.random.RandomState(int(case_seed) % (2 ** 31))


def close(a, b, tol=1e-9):
    a = np.asarray(a, dtype=float)
    b = np.asarray(b, dtype=float)
    if a.shape != b.shape:
        return False
    na, nb = np.isnan(a), np.isnan(b)
    if not np.array_equal(na, nb):
        return False
    if not na.all():
        scale = max(1.0, float(np.nanmax(np.abs(b))))
        return bool(np.nanmax(np.abs(a - b)) <= tol * scale) if (~na).any() else True
    return True
