"""Engine B (symrun): the REAL functions executed on numpy object arrays whose entries are symbolic reals
(sympy), concrete small shapes.  Only the module-global name `np` of the modules on the call path is
rebound (inside the checker process) to a proxy that forwards to numpy except for allocation (object
dtype), sqrt/log/exp (symbolic), linalg.inv/solve (exact).  Each override is an assumed contract of the
numpy function it replaces.  Results are decided as polynomial / rational identities by normal form.

Everything decided here holds for ALL REAL VALUES at the stated (bounded) shapes; floats are reals.
"""
import contextlib
import importlib
import itertools

import numpy as _np
import sympy as sp

OVERRIDES_USED = set()


def symarray(name, shape, positive=False):
    shape = (shape,) if isinstance(shape, int) else tuple(shape)
    out = _np.empty(shape, dtype=object)
    for idx in itertools.product(*[range(s) for s in shape]):
        out[idx] = sp.Symbol(name + '_' + '_'.join(map(str, idx)), real=True, positive=positive or None)
    return out


def rational_array(rs, shape, lo=-3, hi=3, den=7):
    shape = (shape,) if isinstance(shape, int) else tuple(shape)
    out = _np.empty(shape, dtype=object)
    for idx in itertools.product(*[range(s) for s in shape]):
        out[idx] = sp.Rational(int(rs.randint(lo * den, hi * den + 1)), den)
    return out


def _obj(a):
    return _np.asarray(a, dtype=object)


class _Linalg:
    def __getattr__(self, name):
        return getattr(_np.linalg, name)

    def inv(self, a):
        OVERRIDES_USED.add('np.linalg.inv -> exact symbolic inverse (assumed contract: returns A^-1)')
        a = _np.asarray(a)
        if a.dtype != object:
            return _np.linalg.inv(a)
        m = sp.Matrix(a.tolist())
        return _np.array(m.inv().tolist(), dtype=object)

    def solve(self, a, b):
        OVERRIDES_USED.add('np.linalg.solve -> exact symbolic solve (assumed contract: returns A^-1 b)')
        a, b = _np.asarray(a), _np.asarray(b)
        if a.dtype != object and b.dtype != object:
            return _np.linalg.solve(a, b)
        m = sp.Matrix(a.tolist())
        bb = sp.Matrix(b.tolist()) if b.ndim > 1 else sp.Matrix(b.tolist())
        x = m.LUsolve(bb)
        out = _np.array(x.tolist(), dtype=object)
        return out.reshape(b.shape)


class _NdMeta(type):
    def __instancecheck__(cls, inst):
        return isinstance(inst, _np.ndarray)


class _NdarrayProxy(metaclass=_NdMeta):
    """np.ndarray(shape) allocates an object array; isinstance(x, np.ndarray) keeps working"""
    def __new__(cls, shape, dtype=None, *a, **kw):
        OVERRIDES_USED.add('np.ndarray(shape) -> object dtype allocation')
        out = _np.empty(shape, dtype=object)
        out[...] = sp.Integer(0)
        return out


def squareform_obj(x, *a, **kw):
    """scipy.spatial.distance.squareform for object arrays (same index convention: condensed = row-major upper triangle)"""
    x = _np.asarray(x)
    if x.dtype != object:
        from scipy.spatial.distance import squareform
        return squareform(x, *a, **kw)
    OVERRIDES_USED.add('scipy squareform -> same condensed <-> square index map on object arrays')
    if x.ndim == 1:
        m = len(x)
        n = int(round((1 + (1 + 8 * m) ** 0.5) / 2))
        out = _np.empty((n, n), dtype=object)
        out[...] = sp.Integer(0)
        k = 0
        for i in range(n):
            for j in range(i + 1, n):
                out[i, j] = out[j, i] = x[k]
                k += 1
        return out
    n = x.shape[0]
    return _np.array([x[i, j] for i in range(n) for j in range(i + 1, n)], dtype=object)


def _decide_rel(v):
    """see NpProxy._decide"""
    return NpProxy._decide(None, v)


class SymArr(_np.ndarray):
    """object array of symbolic reals whose ORDER comparisons are decided entry by entry (sympy, else at a generic rational
    point: NpProxy._decide) instead of raising on an undecided relational; returned by the symbolic sqrt (norms)"""
    def _cmp(self, other, op):
        a, b = _np.broadcast_arrays(_np.asarray(self, dtype=object), _np.asarray(other, dtype=object))
        out = _np.empty(a.shape, dtype=bool)
        for idx in _np.ndindex(a.shape):
            out[idx] = _decide_rel(op(sp.sympify(a[idx]), sp.sympify(b[idx])))
        return out

    def __gt__(self, other):
        return self._cmp(other, sp.StrictGreaterThan)

    def __ge__(self, other):
        return self._cmp(other, sp.GreaterThan)

    def __lt__(self, other):
        return self._cmp(other, sp.StrictLessThan)

    def __le__(self, other):
        return self._cmp(other, sp.LessThan)


class NpProxy:
    """numpy stand-in bound to the module-global name `np` of the modules under test"""
    linalg = _Linalg()
    ndarray = _NdarrayProxy

    def __getattr__(self, name):
        return getattr(_np, name)

    @staticmethod
    def _alloc(shape, value):
        OVERRIDES_USED.add('np.zeros/ones/empty/eye/full -> object dtype allocation with exact 0/1')
        a = _np.empty(shape, dtype=object)
        a[...] = value
        return a

    def zeros(self, shape, dtype=None, **kw):
        if dtype in (bool, int):
            return _np.zeros(shape, dtype=dtype)
        return self._alloc(shape, sp.Integer(0))

    def ones(self, shape, dtype=None, **kw):
        if dtype in (bool, int):
            return _np.ones(shape, dtype=dtype)
        return self._alloc(shape, sp.Integer(1))

    def empty(self, shape, dtype=None, **kw):
        return self._alloc(shape, sp.Integer(0))

    def full(self, shape, value, **kw):
        return self._alloc(shape, value)

    def zeros_like(self, a, **kw):
        return self._alloc(_np.shape(a), sp.Integer(0))

    def eye(self, n, m=None, dtype=None, **kw):
        if dtype is bool:
            return _np.eye(n, m, dtype=bool)
        OVERRIDES_USED.add('np.eye -> exact object identity')
        m = n if m is None else m
        a = self._alloc((n, m), sp.Integer(0))
        for i in range(min(n, m)):
            a[i, i] = sp.Integer(1)
        return a

    def sqrt(self, x):
        OVERRIDES_USED.add('np.sqrt -> symbolic sqrt')
        if _np.ndim(x) == 0:
            return sp.sqrt(x)
        return _np.vectorize(sp.sqrt, otypes=[object])(_obj(x)).view(SymArr)

    def log(self, x):
        OVERRIDES_USED.add('np.log -> symbolic log')
        if _np.ndim(x) == 0:
            return sp.log(x)
        return _np.vectorize(sp.log, otypes=[object])(_obj(x))

    def exp(self, x):
        if _np.ndim(x) == 0:
            return sp.exp(x)
        return _np.vectorize(sp.exp, otypes=[object])(_obj(x))

    def asarray(self, x, dtype=None, **kw):
        a = _np.asarray(x)
        if a.dtype == object:
            OVERRIDES_USED.add('np.asarray(x, dtype=float) -> value-preserving on symbolic (object) arrays')
            return a
        return _np.asarray(x, dtype=dtype, **kw)

    def array(self, x, dtype=None, **kw):
        a = _np.array(x, **kw)
        if a.dtype == object and dtype in (float, _np.float64, 'float', 'float64'):
            OVERRIDES_USED.add('np.asarray(x, dtype=float) -> value-preserving on symbolic (object) arrays')
            return a
        return a if dtype is None else _np.array(x, dtype=dtype, **kw)

    def _decide(self, v):
        """truth value of one entry of a comparison result: python / numpy bools as they are, sympy relationals by sympy's own
        evaluation and, when that is undecided, at a fixed GENERIC rational point (recorded: the identities proved afterwards hold
        for all real values for which the same branches are taken, i.e. outside a set of measure zero)"""
        if isinstance(v, (bool, _np.bool_)):
            return bool(v)
        if v is sp.true or v is sp.false:
            return bool(v)
        if isinstance(v, sp.logic.boolalg.Boolean):
            syms = sorted(v.free_symbols, key=str)
            point = {x: sp.Rational(2 * i + 3, 3 * i + 7) * (-1) ** (i % 3 == 1) for i, x in enumerate(syms)}
            r = v.subs(point)
            if r is sp.true or r is sp.false:
                OVERRIDES_USED.add('np.all / np.any on undecided symbolic comparisons -> branch taken at a generic rational point '
                                   '(identities hold where the same branch is taken: all real values outside a measure-zero set)')
                return bool(r)
        raise TypeError(f'cannot decide {v!r}')

    def all(self, a, *args, **kw):
        arr = _np.asarray(a)
        if arr.dtype != object or args or kw:
            return _np.all(a, *args, **kw)
        return all(self._decide(v) for v in arr.ravel())

    def any(self, a, *args, **kw):
        arr = _np.asarray(a)
        if arr.dtype != object or args or kw:
            return _np.any(a, *args, **kw)
        return any(self._decide(v) for v in arr.ravel())

    def isnan(self, x):
        OVERRIDES_USED.add('np.isnan -> concrete sentinel test (missing entries are the concrete float nan)')
        a = _obj(x)
        return _np.vectorize(lambda v: isinstance(v, float) and v != v, otypes=[bool])(a)

    def isfinite(self, x):
        return ~self.isnan(x)

    def nansum(self, a, axis=None, **kw):
        a = _np.asarray(a)
        if a.dtype != object:
            return _np.nansum(a, axis=axis, **kw)
        OVERRIDES_USED.add('np.nansum -> sum over the entries that are not the missing sentinel (exact 0 for none)')
        miss = self.isnan(a)
        z = _np.where(miss, sp.Integer(0), a)
        z = _np.asarray(z, dtype=object)
        return _np.sum(z, axis=axis) + sp.Integer(0)

    def std(self, a, axis=None, ddof=0, keepdims=False):
        OVERRIDES_USED.add('np.std -> sqrt(mean((x-mean)^2))')
        a = _obj(a)
        m = _np.mean(a, axis=axis, keepdims=True)
        n = a.size if axis is None else a.shape[axis]
        v = _np.sum((a - m) ** 2, axis=axis, keepdims=keepdims) / sp.Integer(n - ddof)
        return self.sqrt(v)

    def cov(self, m, ddof=1, **kw):
        OVERRIDES_USED.add('np.cov -> (X-mean)(X-mean)^T/(n-ddof)')
        m = _obj(m)
        if m.ndim == 1:
            m = m[None, :]
        mc = m - _np.mean(m, axis=1, keepdims=True)
        return _np.dot(mc, mc.T) / sp.Integer(m.shape[1] - ddof)


@contextlib.contextmanager
def patched_np(module_names):
    """rebind the global `np` (and `sqrt` etc. imported by name) of the named modules to the proxy"""
    proxy = NpProxy()
    saved = []
    for mn in module_names:
        mod = importlib.import_module(mn)
        if hasattr(mod, 'np'):
            saved.append((mod, 'np', mod.np))
            mod.np = proxy
        if hasattr(mod, 'squareform'):
            saved.append((mod, 'squareform', mod.squareform))
            mod.squareform = squareform_obj
    try:
        yield proxy
    finally:
        for mod, name, val in saved:
            setattr(mod, name, val)


@contextlib.contextmanager
def guard(run, name):
    """a (mutated) function that leaves the symbolic domain (raises inside the proxy) is UNDECIDED here, not a
    checker crash: the obligation is recorded as unknown and the bounded tier decides"""
    try:
        yield
    except Exception as e:                                   # noqa: BLE001
        run.obligation(name, 'unknown', 'sympy-normal-form', 0.0,
                       detail=f'symbolic execution failed: {type(e).__name__}: {str(e)[:300]}')


def is_zero(expr):
    """exact zero test of a sympy expression by normal form"""
    if expr == 0:
        return True
    e = sp.cancel(sp.together(sp.expand(expr)))
    if e == 0:
        return True
    e = sp.simplify(e)
    return e == 0


def identical(a, b):
    """entrywise identity of two object arrays; returns (ok, first differing index, difference)"""
    a, b = _obj(a), _obj(b)
    if a.shape != b.shape:
        return False, 'shape', (a.shape, b.shape)
    for idx in itertools.product(*[range(s) for s in a.shape]):
        x, y = a[idx], b[idx]
        xn = (isinstance(x, float) and x != x) or x is sp.nan or x is sp.zoo
        yn = (isinstance(y, float) and y != y) or y is sp.nan or y is sp.zoo
        if xn or yn:
            if xn != yn:
                return False, idx, (x, y)
            continue
        if not is_zero(sp.sympify(x) - sp.sympify(y)):
            return False, idx, sp.simplify(sp.sympify(x) - sp.sympify(y))
    return True, None, None


def witness(expr_diff, symbols=None, tries=20, seed=0):
    """a rational point where a non-zero difference is non-zero (for the concrete replay)"""
    import random
    rnd = random.Random(seed)
    syms = sorted(expr_diff.free_symbols, key=str) if symbols is None else symbols
    for _ in range(tries):
        pt = {s: sp.Rational(rnd.randint(-20, 20), rnd.randint(1, 7)) for s in syms}
        try:
            v = expr_diff.subs(pt)
            if v.is_number and v != 0 and v.is_finite:
                return {str(k): float(val) for k, val in pt.items()}, float(v)
        except Exception:
            continue
    return None, None
