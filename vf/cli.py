"""Entry point: ./check Cxx [--tier quick|thorough] [--replay path]"""
import argparse
import importlib
import os
import sys
import traceback

from vf.report import Run


def _leave(rc):
    """verdict, evidence and replays are written: leave WITHOUT interpreter finalisation.  Destroying z3 contexts during
    finalisation (Context.__del__ -> Z3_del_context -> ~ast_manager) was observed spinning for more than an hour after the
    check had printed its OK line; nothing of value happens there."""
    sys.stdout.flush()
    sys.stderr.flush()
    os._exit(int(rc or 0))


def main():
    ap = argparse.ArgumentParser()
    ap.add_argument('pid')
    ap.add_argument('--tier', default=os.environ.get('VERIF_TIER', 'quick'), choices=['quick', 'thorough'])
    ap.add_argument('--replay', default=None)
    ap.add_argument('--only', default=None, help='substring filter on obligation / tier names (debugging)')
    a = ap.parse_args()
    seed = int(os.environ.get('VERIF_SEED', '0') or 0)
    mod = importlib.import_module(f'contracts.{a.pid}')
    if a.replay:
        try:        # the bounded tier's oracles register on import
            importlib.import_module(f'contracts.{a.pid}_c')
        except ImportError:
            pass
        _leave(mod.replay(a.replay))
    run = Run(a.pid, a.tier, seed, level=getattr(mod, 'LEVEL', 'other'))
    run.only = a.only
    try:
        mod.run(run)
    except Exception as e:  # checker crash, never a violation
        traceback.print_exc()
        run.crashed = f'{type(e).__name__}: {e}'
    _leave(run.finish())


if __name__ == '__main__':
    main()
